import HumphreyModel.Proofs.CacheGet

/-!
# C16 — the file cache returns only the latest bytes for the same key and keeps its limits

Property theorems only. Model: `Model/Cache.lean` (`get`, `set`, `serve` as in `cache.rs`/`static.rs`).
Spec: `Spec/Cache.lean` (histories, the abstract map "last `set` per key").
`Reachable limit timeLimit ops c` (`Proofs/Cache.lean`) = `c` is the state of a cache created with those
limits after the history `ops` ran without panicking; all statements quantify over every history of any
length over any keys.  Because all accesses of the server go through one `RwLock<Cache>` (`get` under
`read()`, `set` under `write()`), a concurrent history is one of these sequential histories (trusted;
checked on every run by replaying lock-ordered logs of 1..8 threads).
-/
namespace Humphrey.Cache
open Humphrey.CacheSpec

variable {limit timeLimit : Nat} {ops : List Op} {c : Cache}

/-- The two readings of the specification agree: the fold "a store overwrites its key" is "the most
recent store for the key in the history". -/
theorem absRun_eq_lastSet (ops : List Op) (k : Key) : absRun ops k = lastSet ops k := by
  have := absRun_eq_lastSet_rev ops.reverse k
  simpa using this

/-! ## The invariant, in every reachable state -/

/-- The limits are those the cache was created with. -/
theorem limits_constant (hr : Reachable limit timeLimit ops c) :
    c.limit = limit ∧ c.timeLimit = timeLimit :=
  run_limits (c := empty limit timeLimit) rfl List.Pairwise.nil hr

/-- `cache_size` is exactly the sum of the lengths of the stored items. -/
theorem inv_size (hr : Reachable limit timeLimit ops c) : c.size = totalLen c.data :=
  (inv_reachable hr).size_eq

/-- The stored bytes never exceed the configured limit. -/
theorem inv_bound (hr : Reachable limit timeLimit ops c) : totalLen c.data ≤ limit := by
  have h := inv_reachable hr
  rw [← h.size_eq, ← (limits_constant hr).1]
  exact h.bound

/-- At most one stored entry per (route, host). -/
theorem inv_unique_keys (hr : Reachable limit timeLimit ops c) :
    c.data.Pairwise (fun a b => (a.route, a.host) ≠ (b.route, b.host)) :=
  (inv_reachable hr).unique

/-! ## Lookups -/

/-- A lookup answers nothing or exactly the entry most recently stored for that same (route, host):
bytes, MIME type and store time are those of the last `set` for the key — never another entry's. -/
theorem get_latest_or_none (hr : Reachable limit timeLimit ops c) (now : Nat) (r : String) (h : Nat)
    (it : Item) (hg : get now c r h = .ok (some it)) :
    (it.route, it.host) = (r, h) ∧ lastSet ops (r, h) = some (it.data, it.mime, it.time) := by
  obtain ⟨hmem, hkey, _, _⟩ := get_some hg
  have := (inv_reachable hr).latest it hmem
  rw [hkey, absRun_eq_lastSet] at this
  exact ⟨hkey, this⟩

/-- What a lookup returns is never older than the time limit (and not from the future). Holds for any
cache state whatsoever. -/
theorem get_fresh (now : Nat) (c : Cache) (r : String) (h : Nat) (it : Item)
    (hg : get now c r h = .ok (some it)) : it.time ≤ now ∧ now - it.time ≤ c.timeLimit :=
  ⟨(get_some hg).2.2.1, (get_some hg).2.2.2⟩

/-- With a clock that has not gone backwards (`now` is at or after every operation of the history) a
lookup does not panic. -/
theorem get_never_panics (hr : Reachable limit timeLimit ops c) (now : Nat)
    (hclock : ∀ op ∈ ops, op.time ≤ now) (r : String) (h : Nat) : get now c r h ≠ .panic := by
  apply get_no_panic
  intro it hit
  obtain ⟨op, hop, ht⟩ := stored_time_mem (inv_reachable hr) hit
  rw [← ht]; exact hclock op hop

/-- The hypothesis of `get_never_panics` is needed: a lookup at a clock value before the store panics
(`time - item.cache_time` underflows with overflow checks on). -/
example : get 4 ⟨8, 60, 1, [⟨"/a", 0, 1, 5, [7]⟩]⟩ "/a" 0 = .panic := by
  simp [get, find, isKey]

/-- Refinement: at every time, the map of retrievable entries of the concrete cache is a sub-map of the
abstract "last store per key" map of the history. -/
theorem refinement (hr : Reachable limit timeLimit ops c) (now : Nat) :
    SubMap (fun k => match get now c k.1 k.2 with
              | .ok (some it) => some (it.data, it.mime, it.time)
              | _ => none)
           (absRun ops) := by
  intro k v hv
  dsimp only at hv
  split at hv
  · next it hg =>
    cases hv
    rw [absRun_eq_lastSet]
    exact (get_latest_or_none hr now k.1 k.2 it hg).2
  · cases hv

/-- Every non-panicking answer of a lookup is one the specification allows. -/
theorem get_allowed (hr : Reachable limit timeLimit ops c) (now : Nat) (r : String) (h : Nat)
    (o : Option Item) (hg : get now c r h = .ok o) :
    Allowed (absRun ops) timeLimit now (r, h) (o.map fun it => (it.data, it.mime, it.time)) := by
  cases o with
  | none => exact Or.inl rfl
  | some it =>
    have h1 := (get_latest_or_none hr now r h it hg).2
    rw [← absRun_eq_lastSet] at h1
    have h2 := get_fresh now c r h it hg
    rw [(limits_constant hr).2] at h2
    exact Or.inr ⟨h1.symm, it.data, it.mime, it.time, h1, h2.1, h2.2⟩

/-! ## Stores -/

/-- Storing an item no larger than the limit never panics, in any reachable state. -/
theorem set_never_panics (hr : Reachable limit timeLimit ops c) (t : Nat) (r : String) (h : Nat)
    (v : List UInt8) (m : Nat) (hv : v.length ≤ limit) : ∃ c', set t c r h v m = .ok c' :=
  set_no_panic (inv_reachable hr) t r h m (by rw [(limits_constant hr).1]; exact hv)

/-- The size hypothesis of `set_never_panics` is needed: in every reachable state, storing an item larger
than the limit panics (the eviction loop empties the deque and then indexes `data[0]`). -/
theorem set_panics_beyond_limit (hr : Reachable limit timeLimit ops c) (t : Nat) (r : String) (h : Nat)
    (v : List UInt8) (m : Nat) (hv : limit < v.length) : set t c r h v m = .panic := by
  unfold set
  rw [evict_panic_of_gt (inv_reachable hr).size_eq (by rw [(limits_constant hr).1]; exact hv)]

/-- The explicit counterexample outside the hypothesis: 4 bytes into an empty cache of limit 3. -/
example : set 0 (empty 3 60) "/a" 0 [1, 2, 3, 4] 0 = .panic := by
  simp [set, evict, empty]

/-- An item no larger than the limit is retrievable immediately after being stored, and for as long as
the time limit allows: after `set t k v` (which succeeds), `get t' k` returns exactly `v`, its MIME type and
store time `t`, whenever the clock has not gone backwards (`t ≤ t'`) and `t' - t ≤ timeLimit`. -/
theorem get_after_set (hr : Reachable limit timeLimit ops c) (t t' : Nat) (r : String) (h : Nat)
    (v : List UInt8) (m : Nat) (hv : v.length ≤ limit) (hclock : t ≤ t') (hfresh : t' - t ≤ timeLimit) :
    ∃ c', set t c r h v m = .ok c' ∧ get t' c' r h = .ok (some ⟨r, h, m, t, v⟩) := by
  obtain ⟨c', hs⟩ := set_never_panics hr t r h v m hv
  have hi := inv_reachable hr
  obtain ⟨_, htl, _, _, kept, hd, _, hnk⟩ := set_shape hi.size_eq hi.unique hs
  refine ⟨c', hs, ?_⟩
  have hfind : find r h c'.data = some ⟨r, h, m, t, v⟩ := by
    rw [hd]; exact find_append_new hnk rfl
  have htl' : c'.timeLimit = timeLimit := htl.trans (limits_constant hr).2
  unfold get
  rw [hfind]
  simp only [htl']
  rw [if_neg (by omega), if_neg (by omega)]

/-- The time hypothesis of `get_after_set` is needed: with time limit 1 the entry is gone 2 s later. -/
example : ∃ c', set 10 (empty 8 1) "/a" 0 [1] 0 = .ok c' ∧ get 12 c' "/a" 0 = .ok none :=
  ⟨_, rfl, by simp [get, find, isKey, empty]⟩

/-! ## Whole histories -/

/-- A history whose stores all fit the limit and whose clock never goes backwards runs to the end
without a panic, from the empty cache. -/
theorem history_never_panics (limit timeLimit : Nat) (ops : List Op)
    (hsize : SizesWithin limit ops) (hclock : ClockMonotone ops) :
    ∃ c, Reachable limit timeLimit ops c :=
  run_no_panic (inv_empty limit timeLimit) hsize hclock (by simp [empty])

/-- The total size of the entries that lookups can return never exceeds the limit: over any
duplicate-free list of keys, the byte counts of the answers of `get` at time `now` sum to at most `limit`. -/
theorem retrievable_total_le_limit (hr : Reachable limit timeLimit ops c) (now : Nat) (ks : List Key)
    (hnd : ks.Nodup) : sumOver (answerLen now c) ks ≤ limit := by
  refine Nat.le_trans (sumOver_le_totalLen _ ks hnd c.data ?_) (inv_bound hr)
  intro k _
  unfold answerLen
  split
  · next it hg =>
    obtain ⟨hmem, hkey, _, _⟩ := get_some hg
    exact Or.inr ⟨it, hmem, hkey, rfl⟩
  · exact Or.inl rfl

/-! ## Handler level (`cache_check` + `inner_file_handler`) -/

/-- A static handler never panics in the cache code, whatever the size of the file: the handler stores
only files with `len ≤ size_limit` (clock not gone backwards). -/
theorem serve_never_panics (hr : Reachable limit timeLimit ops c) (now : Nat)
    (hclock : ∀ op ∈ ops, op.time ≤ now) (uri : String) (host : Nat) (contents : List UInt8) (mime : Nat) :
    ∃ c' s, serve now c uri host contents mime = .ok (c', s) := by
  have hmiss : ∃ c' s, (if c.limit ≥ contents.length then
        match set now c uri host contents mime with
        | .ok c' => Outcome.ok (c', (⟨false, contents, mime⟩ : Served))
        | .panic => .panic
      else .ok (c, ⟨false, contents, mime⟩)) = .ok (c', s) := by
    split
    · next hle =>
      obtain ⟨c', hs⟩ := set_no_panic (inv_reachable hr) now uri host mime hle
      exact ⟨c', _, by rw [hs]⟩
    · exact ⟨_, _, rfl⟩
  unfold serve
  simp only
  split
  · cases hg : get now c uri host with
    | panic => exact absurd hg (get_never_panics hr now hclock uri host)
    | ok o =>
      cases o with
      | some it => exact ⟨_, _, rfl⟩
      | none => exact hmiss
  · exact hmiss

/-- A cache hit of a handler answers exactly the bytes and MIME type that the most recent miss for the
same (uri, host) stored, and they are not older than the time limit. -/
theorem serve_hit_is_latest (hr : Reachable limit timeLimit ops c) (now : Nat) (uri : String) (host : Nat)
    (contents : List UInt8) (mime : Nat) (c' : Cache) (s : Served)
    (hs : serve now c uri host contents mime = .ok (c', s)) (hhit : s.hit = true) :
    c' = c ∧ ∃ t, lastSet ops (uri, host) = some (s.body, s.mime, t) ∧ t ≤ now ∧ now - t ≤ timeLimit := by
  rcases serve_cases hs with ⟨_, hc, _, it, hg, hb, hm⟩ | ⟨hf, _⟩
  · refine ⟨hc, it.time, ?_, ?_⟩
    · rw [hb, hm]; exact (get_latest_or_none hr now uri host it hg).2
    · have := get_fresh now c uri host it hg
      rw [(limits_constant hr).2] at this
      exact this
  · rw [hf] at hhit; cases hhit

/-- A miss answers the file's current contents, and extends the history by at most one `set` of exactly
those contents (so every state a handler produces is again `Reachable`). -/
theorem serve_miss_stores_contents (hr : Reachable limit timeLimit ops c) (now : Nat) (uri : String)
    (host : Nat) (contents : List UInt8) (mime : Nat) (c' : Cache) (s : Served)
    (hs : serve now c uri host contents mime = .ok (c', s)) (hmiss : s.hit = false) :
    s.body = contents ∧ s.mime = mime ∧
    (Reachable limit timeLimit ops c' ∨ Reachable limit timeLimit (ops ++ [.set now uri host contents mime]) c') := by
  have run_snoc : ∀ (ops : List Op) (c₀ c₁ c₂ : Cache) (op : Op), run c₀ ops = .ok c₁ → step c₁ op = .ok c₂ →
      run c₀ (ops ++ [op]) = .ok c₂ := by
    intro ops
    induction ops with
    | nil => intro c₀ c₁ c₂ op h1 h2; simp only [run] at h1; cases h1; simp [run, h2]
    | cons o ops ih =>
      intro c₀ c₁ c₂ op h1 h2
      simp only [run, List.cons_append] at h1 ⊢
      split at h1
      · next cm hstep => exact ih cm c₁ c₂ op h1 h2
      · cases h1
  rcases serve_cases hs with ⟨hh, _⟩ | ⟨_, hb, hm, hcase⟩
  · rw [hh] at hmiss; cases hmiss
  · refine ⟨hb, hm, ?_⟩
    rcases hcase with ⟨_, hc⟩ | ⟨_, hset⟩
    · exact Or.inl (hc ▸ hr)
    · exact Or.inr (run_snoc ops _ c c' _ hr hset)

/-! ## Non-vacuity: the hypotheses are satisfiable and the conclusions are hit -/

/-- A concrete history (stores that force an eviction, an overwrite of a key, lookups) is reachable. -/
example : Reachable 4 60
    [.set 0 "/a" 0 [1, 2] 0, .set 1 "/b" 1 [3, 4] 1, .get 1 "/a" 0, .set 2 "/a" 0 [5, 6, 7] 2, .get 3 "/b" 1]
    ⟨4, 60, 3, [⟨"/a", 0, 2, 2, [5, 6, 7]⟩]⟩ := by
  simp [Reachable, run, step, set, get, evict, find, isKey, empty]

/-- … and in that state the lookup returns the latest bytes for the key (`get_latest_or_none` is not
vacuous: `get` does answer `some`). -/
example : get 3 ⟨4, 60, 3, [⟨"/a", 0, 2, 2, [5, 6, 7]⟩]⟩ "/a" 0 = .ok (some ⟨"/a", 0, 2, 2, [5, 6, 7]⟩) := by
  simp [get, find, isKey]

/-- `lastSet` on that history: the overwritten key maps to the later store. -/
example : lastSet [.set 0 "/a" 0 [1, 2] 0, .set 1 "/b" 1 [3, 4] 1, .get 1 "/a" 0, .set 2 "/a" 0 [5, 6, 7] 2]
    ("/a", 0) = some ([5, 6, 7], 2, 2) := by
  simp [lastSet, storesAt]

/-- `history_never_panics` has satisfiable hypotheses. -/
example : ∃ c, Reachable 4 60 [.set 0 "/a" 0 [1, 2] 0, .get 5 "/a" 0] c :=
  history_never_panics 4 60 _ (by simp [SizesWithin, Op.storeLen]) (by simp [ClockMonotone, Op.time])

/-- A stale entry is not returned (time limit 0: retrievable in the same second only). -/
example : get 1 ⟨4, 0, 1, [⟨"/a", 0, 0, 0, [9]⟩]⟩ "/a" 0 = .ok none := by
  simp [get, find, isKey]

/-- Handler level: a hit, then (file changed, entry stale) a miss that stores the new contents. -/
example : serve 5 ⟨4, 10, 1, [⟨"/a", 0, 0, 0, [9]⟩]⟩ "/a" 0 [8] 0 =
    .ok (⟨4, 10, 1, [⟨"/a", 0, 0, 0, [9]⟩]⟩, ⟨true, [9], 0⟩) := by
  simp [serve, get, find, isKey]
example : serve 11 ⟨4, 10, 1, [⟨"/a", 0, 0, 0, [9]⟩]⟩ "/a" 0 [8] 0 =
    .ok (⟨4, 10, 1, [⟨"/a", 0, 0, 11, [8]⟩]⟩, ⟨false, [8], 0⟩) := by
  simp [serve, get, set, evict, find, remove, isKey]

end Humphrey.Cache
