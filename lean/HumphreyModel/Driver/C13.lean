import HumphreyModel.Driver.Util
import HumphreyModel.Model.Json
import HumphreyModel.Spec.Json

/-!
Driver for C13.

Canonical rendering of a `Value` (injective, a prefix code, no tabs/newlines, independent of
any float formatting):
`Z` null, `T`/`F` booleans, `n` + 16 hex digits of `f64::to_bits`, `s` + hex(UTF-8) + `.`,
`[` items `]`, `{` (`s…​.` value)* `}`.

Numbers. The model carries a number as the normal form of its lexeme (`DecNum`). To compare
with the implementation's `f64` the driver rounds that exact decimal to binary64
(round-to-nearest-even, overflow to ±inf) in `decToBits` — the textbook definition of
`f64::from_str`, computed with exact naturals. For `json_ser` the harness passes, next to the
canonical value, a table `bits=lexeme;…` with the `Display` text of every number in it (shortest
round-trip digit generation is the one part of `Display` not modelled); the driver checks that
the lexeme rounds back to `bits` and is in `decShow` normal form, and serialises with the model.
-/
namespace Humphrey.Driver.C13
open Humphrey Humphrey.Driver Humphrey.Json

/-! ### exact decimal → binary64 -/

def decToBits (d : DecNum) : Nat :=
  let sign : Nat := if d.neg then 2 ^ 63 else 0
  if d.mant = 0 then sign else
  let nd := (natDigits d.mant).length
  let mag : Int := d.exp + nd
  if mag > 310 then sign + 0x7FF0000000000000
  else if mag < -330 then sign
  else
    let num : Nat := if d.exp ≥ 0 then d.mant * 10 ^ d.exp.toNat else d.mant
    let den : Nat := if d.exp ≥ 0 then 1 else 10 ^ (-d.exp).toNat
    let q (k : Int) : Nat := if k ≥ 0 then num / (den * 2 ^ k.toNat) else num * 2 ^ (-k).toNat / den
    let k0 : Int := (Nat.log2 num : Int) - (Nat.log2 den : Int) - 52
    let k : Int := if q k0 < 2 ^ 52 then k0 - 1 else if q k0 ≥ 2 ^ 53 then k0 + 1 else k0
    let k : Int := if k < -1074 then -1074 else k
    let n' : Nat := if k ≥ 0 then num else num * 2 ^ (-k).toNat
    let d' : Nat := if k ≥ 0 then den * 2 ^ k.toNat else den
    let qq := n' / d'
    let r := n' % d'
    let up : Bool := 2 * r > d' || (2 * r == d' && qq % 2 == 1)
    let qq := if up then qq + 1 else qq
    let bits := (k + 1074).toNat * 2 ^ 52 + qq
    if bits ≥ 0x7FF0000000000000 then sign + 0x7FF0000000000000 else sign + bits

def hexNibble (n : Nat) : Char :=
  if n < 10 then Char.ofNat (48 + n) else Char.ofNat (87 + n)

def hex16 (n : Nat) : List Char :=
  (List.range 16).map fun i => hexNibble (n / 16 ^ (15 - i) % 16)

def unhex16 (cs : List Char) : Option Nat :=
  cs.foldl (fun acc c => acc.bind fun a => (Driver.hexVal c).map fun v => a * 16 + v.toNat) (some 0)

/-! ### canonical rendering -/

def hexChars (s : List Char) : List Char := (hex (strBytes (String.ofList s))).toList

mutual
def render : Value DecNum → List Char
  | .null => ['Z']
  | .bool true => ['T']
  | .bool false => ['F']
  | .number n => 'n' :: hex16 (decToBits n)
  | .string s => 's' :: (hexChars s ++ ['.'])
  | .array xs => '[' :: (renderList xs ++ [']'])
  | .object ms => '{' :: (renderMembers ms ++ ['}'])
def renderList : List (Value DecNum) → List Char
  | [] => []
  | x :: xs => render x ++ renderList xs
def renderMembers : List (List Char × Value DecNum) → List Char
  | [] => []
  | (k, v) :: ms => 's' :: (hexChars k ++ '.' :: (render v ++ renderMembers ms))
end

def renderOpt : Option (Value DecNum) → String
  | none => "ERR"
  | some v => String.ofList (render v)

abbrev NumTab := List (Nat × DecNum)

def parseNumTab (s : String) : Option NumTab :=
  if s.isEmpty then some [] else
  (s.splitOn ";").foldr (fun e acc =>
    acc.bind fun tab =>
      match e.splitOn "=" with
      | [b, l] =>
        (unhex16 b.toList).bind fun bits =>
          (decParse l.toList).bind fun d =>
            -- the table entry must satisfy the codec laws, otherwise the case is not usable
            if decToBits d = bits ∧ decShow d = l.toList then some ((bits, d) :: tab) else none
      | _ => none) (some [])

def takeUntilDot : List Char → List Char → Option (List Char × List Char)
  | [], _ => none
  | c :: r, acc => if c = '.' then some (acc.reverse, r) else takeUntilDot r (c :: acc)

def readStr (s : List Char) : Option (List Char × List Char) :=
  match takeUntilDot s [] with
  | none => none
  | some (h, r) =>
    match (unhex (String.ofList h)).bind utf8? with
    | none => none
    | some str => some (str.toList, r)

mutual
def unrender (tab : NumTab) : Nat → List Char → Option (Value DecNum × List Char)
  | 0, _ => none
  | fuel + 1, s =>
    match s with
    | [] => none
    | c :: r =>
      if c = 'Z' then some (.null, r)
      else if c = 'T' then some (.bool true, r)
      else if c = 'F' then some (.bool false, r)
      else if c = 'n' then
        match unhex16 (r.take 16) with
        | none => none
        | some bits =>
          match tab.lookup bits with
          | none => none
          | some d => if (r.take 16).length = 16 then some (.number d, r.drop 16) else none
      else if c = 's' then (readStr r).map fun (x, r) => (.string x, r)
      else if c = '[' then (unrenderList tab fuel r).map fun (xs, r) => (.array xs, r)
      else if c = '{' then (unrenderMembers tab fuel r).map fun (ms, r) => (.object ms, r)
      else none
def unrenderList (tab : NumTab) : Nat → List Char → Option (List (Value DecNum) × List Char)
  | 0, _ => none
  | fuel + 1, s =>
    match s with
    | [] => none
    | c :: r =>
      if c = ']' then some ([], r)
      else
        match unrender tab fuel s with
        | none => none
        | some (v, r) => (unrenderList tab fuel r).map fun (vs, r) => (v :: vs, r)
def unrenderMembers (tab : NumTab) : Nat → List Char → Option (List (List Char × Value DecNum) × List Char)
  | 0, _ => none
  | fuel + 1, s =>
    match s with
    | [] => none
    | c :: r =>
      if c = '}' then some ([], r)
      else if c = 's' then
        match readStr r with
        | none => none
        | some (k, r) =>
          match unrender tab fuel r with
          | none => none
          | some (v, r) => (unrenderMembers tab fuel r).map fun (ms, r) => ((k, v) :: ms, r)
      else none
end

def unrenderAll (tab : NumTab) (s : String) : Option (Value DecNum) :=
  match unrender tab (2 * s.length + 2) s.toList with
  | some (v, []) => some v
  | _ => none

/-! ### dispatch -/

def parseText (t : String) : Option (Value DecNum) := parse decCodec t.toList

/-- `json_ser`: model = hex of the model's serialisation; spec = the implementation's text is
RFC 8259 and (when not nested deeper than the parser's limit) denotes the serialised value.
`json_rt`: model = canonical value of model-parse(model-serialise v); spec = the implementation
returned the value it started from (depth ≤ limit), or rejected (deeper). -/
def serCase (rt : Bool) (cv ind tab impl : String) : Option Verdict :=
  match parseNumTab tab with
  | none => some { model := "NUMLAW" }
  | some tab =>
    match unrenderAll tab cv with
    | none => some { model := "BADARGS" }
    | some v =>
      let text :=
        if ind == "-" then serialize decCodec v
        else serializePretty decCodec ind.toNat! v
      if rt then
        let m := renderOpt (parse decCodec text)
        let deep := match JsonSpec.recognise text with
          | some (d, _) => decide (d > maxDepth)
          | none => false
        some { model := m, spec := some (if deep then impl == "ERR" else impl == cv) }
      else
        let m := hex (strBytes (String.ofList text))
        let spec : Bool :=
          match (unhex impl).bind utf8? with
          | none => false
          | some out =>
            match JsonSpec.recognise out.toList with
            | none => false
            | some (d, _) => d > maxDepth || renderOpt (parseText out) == cv
        some { model := m, spec := some spec }

def dispatch (fn : String) (args : List String) (impl : String) : Option Verdict :=
  match fn, args with
  | "json_parse", [h] =>
    match (unhex h).bind utf8? with
    | none => some { model := "BADARGS" }
    | some t =>
      let m := renderOpt (parseText t)
      -- spec: accepted ↔ RFC 8259 text ∧ depth ≤ limit; texts with an escape denoting an
      -- unpaired surrogate may go either way
      let accepted := impl != "ERR" && impl != "PANIC"
      let spec : Bool :=
        if impl == "PANIC" then false else
        match JsonSpec.recognise t.toList with
        | none => !accepted
        | some (d, lone) =>
          if d ≤ maxDepth then (if lone then true else accepted) else !accepted
      some { model := m, spec := some spec }
  | "json_ser", [cv, ind, tab] => serCase false cv ind tab impl
  | "json_rt", [cv, ind, tab] => serCase true cv ind tab impl
  | "num_show", [b] =>
    -- impl = `Display` text of the f64 with these bits, `|`, bits of `from_str` of that text
    match unhex16 b.toList, impl.splitOn "|" with
    | some bits, [l, _] =>
      match decParse l.toList with
      | none => some { model := "NOT-A-NUMBER-LEXEME", spec := some false }
      | some d =>
        let m := String.ofList (decShow d) ++ "|" ++ String.ofList (hex16 (decToBits d))
        some { model := m, spec := some (impl == l ++ "|" ++ String.ofList (hex16 bits)) }
    | _, _ => some { model := "BADARGS" }
  | _, _ => none

end Humphrey.Driver.C13
