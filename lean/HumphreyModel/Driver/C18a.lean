import HumphreyModel.Driver.Util
import HumphreyModel.Model.Percent
import HumphreyModel.Model.Base64
import HumphreyModel.Spec.Percent
import HumphreyModel.Spec.Base64
import HumphreyModel.Model.CodecTR
import HumphreyModel.Driver.C18Gen

/-!
Driver for the percent-encoding and Base64 halves of C18.
Case lines (all byte strings lower-case hex):
  `pct_enc <bytes> <encoded>`            `pct_dec <text> none|some:<bytes>|PANIC`
  `b64_enc <bytes> <encoded>`            `b64_dec <text> err|ok:<bytes>|PANIC`
The spec verdict is computed from `Spec/*.lean` on the implementation's output where the spec is
executable (both encoders, Base64 decoding); for percent-decoding the model is proved equal to
the spec relation (`Percent.decode_iff_denotes`), so any other answer violates C18.

LENGTH sweeps (inputs up to a mebibyte): the same four functions on an input given by a compact description
(`Driver/C18Gen.lean`), long outputs as `#<len>:<fnv64>`:
  `pctg_enc <desc> <hl encoded>`         `pctg_dec <desc> none|some:<hl bytes>|PANIC`
  `b64g_enc <desc> <hl encoded>`         `b64g_dec <desc> err|ok:<hl bytes>|PANIC`
They run the accumulator forms of `Model/CodecTR.lean`, proved equal to the models for every input
(`Props/C18Fast.lean`); the verdict is the model's answer, which is the specification's by `encode_eq_spec`,
`decode_iff_denotes`, `encode_eq_rfc4648` and `decode_ok_iff` (for Base64 texts of at most 4096 symbols the executable
bit-level specification judges as well).
-/
namespace Humphrey.Driver.C18a
open Humphrey Humphrey.Driver

def pct_enc (b : Bytes) : String := hex (Percent.encode b)

def pct_dec (s : Bytes) : String :=
  match Percent.decode s with
  | some b => "some:" ++ hex b
  | none => "none"

def b64_enc (b : Bytes) : String := hex (Base64.encode b)

def outcomeStr : Base64.Outcome → String
  | .ok b => "ok:" ++ hex b
  | .err => "err"
  | .panic => "PANIC"

def b64_dec (s : Bytes) : String := outcomeStr (Base64.decode s)

def b64_dec_spec (s : Bytes) : String :=
  if Base64.Spec.shapeB s then "ok:" ++ hex (Base64.Spec.decode s) else "err"

def pctg_dec (s : Bytes) : String :=
  match Percent.decodeTR s [] with
  | some b => "some:" ++ Gen.hl b
  | none => "none"

def outcomeStrL : Base64.Outcome → String
  | .ok b => "ok:" ++ Gen.hl b
  | .err => "err"
  | .panic => "PANIC"

def b64g_dec_spec (s : Bytes) : String :=
  if Base64.Spec.shapeB s then "ok:" ++ Gen.hl (Base64.Spec.decode s) else "err"

def dispatch (fn : String) (args : List String) (impl : String) : Option Verdict :=
  match fn, args with
  | "pctg_enc", [a] =>
    match Gen.bytesOf a with
    | some b => let m := Gen.hl (Percent.encodeTR b []); some { model := m, spec := some (impl == m) }
    | none => some { model := "BADARGS" }
  | "pctg_dec", [a] =>
    match Gen.bytesOf a with
    | some s => let m := pctg_dec s; some { model := m, spec := some (impl == m) }
    | none => some { model := "BADARGS" }
  | "b64g_enc", [a] =>
    match Gen.bytesOf a with
    | some b => let m := Gen.hl (Base64.encodeTR b []); some { model := m, spec := some (impl == m) }
    | none => some { model := "BADARGS" }
  | "b64g_dec", [a] =>
    match Gen.bytesOf a with
    | some s =>
      let m := outcomeStrL (Base64.decodeTR s)
      some { model := m, spec := some (impl == m && (s.length > 4096 || impl == b64g_dec_spec s)) }
    | none => some { model := "BADARGS" }
  | "pct_enc", [a] =>
    match unhex a with
    | some b => some { model := pct_enc b, spec := some (impl == hex (Percent.Spec.encode b)) }
    | none => some { model := "BADARGS" }
  | "pct_dec", [a] =>
    match unhex a with
    | some s => let m := pct_dec s; some { model := m, spec := some (impl == m) }
    | none => some { model := "BADARGS" }
  | "b64_enc", [a] =>
    match unhex a with
    | some b => some { model := b64_enc b, spec := some (impl == hex (Base64.Spec.encode b)) }
    | none => some { model := "BADARGS" }
  | "b64_dec", [a] =>
    match unhex a with
    | some s => some { model := b64_dec s, spec := some (impl == b64_dec_spec s) }
    | none => some { model := "BADARGS" }
  | _, _ => none

end Humphrey.Driver.C18a
