import HumphreyModel.Driver.Util
import HumphreyModel.Model.WsFrame
import HumphreyModel.Spec.WsFrame

/-
C10 line protocol (fields separated by TAB; bytes lower-case hex; numbers decimal):

  enc   fin rsv opcode mask length key payload          -> hex of `Vec<u8>::from(frame)`
  dec   chunks                                          -> frame text | ERR:ReadError | ERR:InvalidOpcode
  rt    fin rsv opcode mask key payload sizes           -> decode (split sizes (encode f)), length = |payload|
  trunc fin rsv opcode mask key payload n sizes         -> decode (split sizes (take n (encode f)))
  opc   n                                               -> `Opcode::try_from(n)` as decimal | none
  msg   new|binary payload                              -> hex of `Message::new(..)/new_binary(..).to_frame()`
  msg   rx.<opcode>.<sizes> payload                     -> `<T|B><1|0>:<hex>`: the message RECEIVED from client frames
        (first frame with data opcode 1|2, then continuation frames; `sizes` = `-` or fragment sizes joined by `+`, the
        rest is the last fragment): `is_text()`, `text().is_some()`, hex of `to_frame()` of that object

`rsv` is three characters `0`/`1`; `chunks` is `-` (no chunk) or hex strings joined by `,` (an empty
string is an empty chunk = a `read` returning 0); `sizes` is `-` or decimal chunk sizes joined by `,`,
what is left after the last size is one more chunk. Frame text:
`fin rsv opcode mask length key payload rest` with `rest` = bytes left unread in the reader.
-/
namespace Humphrey.Driver.C10
open Humphrey Humphrey.Driver Humphrey.WsFrame

def bit? (s : String) : Option Bool :=
  if s == "1" then some true else if s == "0" then some false else none

def rsv? (s : String) : Option (Bool × Bool × Bool) :=
  match s.toList with
  | [a, b, c] =>
    match bit? (String.singleton a), bit? (String.singleton b), bit? (String.singleton c) with
    | some a, some b, some c => some (a, b, c)
    | _, _, _ => none
  | _ => none

def key? (s : String) : Option Key :=
  match unhex s with
  | some [a, b, c, d] => some ⟨a, b, c, d⟩
  | _ => none

def frame? (fin rsv opcode mask length key payload : String) : Option Frame := do
  let fin ← bit? fin
  let (r1, r2, r3) ← rsv? rsv
  let op ← (← opcode.toNat?) |> Opcode.ofNat?
  let mask ← bit? mask
  let length ← length.toNat?
  let key ← key? key
  let payload ← unhex payload
  pure { fin := fin, rsv1 := r1, rsv2 := r2, rsv3 := r3, opcode := op, mask := mask,
         length := length, key := key, payload := payload }

def mapM? {α β : Type} (f : α → Option β) : List α → Option (List β)
  | [] => some []
  | a :: as => do
    let b ← f a
    let bs ← mapM? f as
    pure (b :: bs)

def chunks? (s : String) : Option (List Bytes) :=
  if s == "-" then some [] else mapM? unhex (s.splitOn ",")

def sizes? (s : String) : Option (List Nat) :=
  if s == "-" then some [] else mapM? String.toNat? (s.splitOn ",")

/-- Cut `bs` into chunks of the given sizes; the remainder (if any) is a last chunk. -/
def split : List Nat → Bytes → List Bytes
  | [], bs => if bs.isEmpty then [] else [bs]
  | n :: ns, bs => bs.take n :: split ns (bs.drop n)

def frameText (f : Frame) (rest : Nat) : String :=
  s!"{boolStr f.fin} {boolStr f.rsv1}{boolStr f.rsv2}{boolStr f.rsv3} {f.opcode.toNat} " ++
  s!"{boolStr f.mask} {f.length} {hex f.key.toList} {hex f.payload} {rest}"

def resultText (r : Except WsErr (Frame × List Bytes)) : String :=
  match r with
  | .error .readError => "ERR:ReadError"
  | .error .invalidOpcode => "ERR:InvalidOpcode"
  | .ok (f, rest) => frameText f rest.flatten.length

/-- `List.isPrefixOf` on bytes. -/
def isPrefix : Bytes → Bytes → Bool
  | [], _ => true
  | _ :: _, [] => false
  | a :: as, b :: bs => a == b && isPrefix as bs

def dispatch (fn : String) (args : List String) (impl : String) : Option Verdict :=
  match fn, args with
  | "enc", [fin, rsv, opcode, mask, length, key, payload] =>
    match frame? fin rsv opcode mask length key payload with
    | none => some { model := "BADARGS" }
    | some f =>
      let m := hex (encodeFrame f)
      -- the property speaks about frames whose length field is the payload length
      let spec :=
        if f.length == f.payload.length && f.length < 18446744073709551616
        then some (impl == hex (Spec.rfc6455Layout f)) else none
      some { model := m, spec := spec }
  | "dec", [chunks] =>
    match chunks? chunks with
    | none => some { model := "BADARGS" }
    | some cs =>
      let r := decodeFrame cs
      let m := resultText r
      let flat := cs.flatten
      let spec :=
        match flat with
        | h0 :: _ :: _ =>
          if cs.all (fun c => !c.isEmpty) then
            if Spec.reservedOpcode (h0.toNat % 16) then some (impl == "ERR:InvalidOpcode")
            else match r with
              | .ok (f, _) =>
                -- the input starts with the RFC layout of the frame the model found (minimal
                -- length form): the property demands exactly this frame
                if f.length == f.payload.length && isPrefix (Spec.rfc6455Layout f) flat
                then some (impl == m) else none
              -- the bytes supplied are not a whole frame (the model's decoder, proved total with truncation = read error,
              -- says so): an implementation that returns a frame anyway has invented one
              | _ => if impl.startsWith "ERR:" then none else some false
          else none
        | _ => if cs.all (fun c => !c.isEmpty) then some (impl == "ERR:ReadError") else none
      some { model := m, spec := spec }
  | "rt", [fin, rsv, opcode, mask, key, payload, sizes] =>
    match unhex payload with
    | none => some { model := "BADARGS" }
    | some p =>
      match frame? fin rsv opcode mask (toString p.length) key payload, sizes? sizes with
      | some f, some ns =>
        let cs := split ns (encodeFrame f)
        let m := resultText (decodeFrame cs)
        -- the frame that was encoded (an unmasked frame comes back with the all-zero key)
        let want := frameText { f with key := if f.mask then f.key else Key.zero } 0
        let spec := if ns.all (· != 0) then some (impl == want) else none
        some { model := m, spec := spec }
      | _, _ => some { model := "BADARGS" }
  | "trunc", [fin, rsv, opcode, mask, key, payload, n, sizes] =>
    match unhex payload with
    | none => some { model := "BADARGS" }
    | some p =>
      match frame? fin rsv opcode mask (toString p.length) key payload, n.toNat?, sizes? sizes with
      | some f, some n, some ns =>
        let e := encodeFrame f
        let cs := split ns (e.take n)
        let m := resultText (decodeFrame cs)
        let spec := if n < e.length && ns.all (· != 0) then some (impl == "ERR:ReadError") else none
        some { model := m, spec := spec }
      | _, _, _ => some { model := "BADARGS" }
  | "opc", [n] =>
    match n.toNat? with
    | none => some { model := "BADARGS" }
    | some n =>
      let m := match Opcode.ofNat? n with | some o => toString o.toNat | none => "none"
      let spec :=
        if n < 16 then some (impl == (if Spec.reservedOpcode n then "none" else toString n)) else none
      some { model := m, spec := spec }
  | "msg", [kind, payload] =>
    match unhex payload with
    | none => some { model := "BADARGS" }
    | some p =>
      if kind.startsWith "rx." then
        match kind.splitOn "." with
        | ["rx", opcode, sizes] =>
          let okSizes := sizes == "-" || (sizes.splitOn "+").all (fun x => x.toNat?.isSome)
          if !(opcode == "1" || opcode == "2") || !okSizes then some { model := "BADARGS" } else
          -- the type of a fragmented message is that of its first frame; the payload is the concatenation
          let text := opcode == "1"
          let flags := (if text then "T" else "B") ++ (if text && (utf8? p).isSome then "1" else "0") ++ ":"
          let m := flags ++ hex (messageToFrame text p)
          let want : Frame :=
            { fin := true, rsv1 := false, rsv2 := false, rsv3 := false,
              opcode := if text then .text else .binary, mask := false, length := p.length,
              key := Key.zero, payload := p }
          some { model := m, spec := some (impl == flags ++ hex (Spec.rfc6455Layout want)) }
        | _ => some { model := "BADARGS" }
      else
      let text := kind == "new" && (utf8? p).isSome
      let m := hex (messageToFrame text p)
      let want : Frame :=
        { fin := true, rsv1 := false, rsv2 := false, rsv3 := false,
          opcode := if text then .text else .binary, mask := false, length := p.length,
          key := Key.zero, payload := p }
      some { model := m, spec := some (impl == hex (Spec.rfc6455Layout want)) }
  | _, _ => none

end Humphrey.Driver.C10
