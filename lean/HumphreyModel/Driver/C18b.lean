import HumphreyModel.Driver.Util
import HumphreyModel.Model.Date
import HumphreyModel.Spec.Date
import HumphreyModel.Model.Sha1
import HumphreyModel.Model.WsMsg
import HumphreyModel.Driver.C18Gen

/-!
Driver half of C18 for HTTP dates and SHA-1.

`date <decimal timestamp> <impl>`: `impl` is `year;month;day;weekday;hour;minute;second;<to_string>`
(or `PANIC`). The spec verdict is `Spec/Date.lean` evaluated on the implementation's own fields and
string (for timestamps of the property's range, 1970-01-01 … 9999-12-31), independent of the model.

`sha1 <hex message> <impl>`: `impl` is the 40 hex digits of the digest. `sha1_eq_rfc3174`
(Props/C18Sha1.lean) proves the model equal to RFC 3174, so any other answer violates C18.

LENGTH sweeps: `sha1g <desc> <impl>`: the same on a message given by a compact description (`Driver/C18Gen.lean`).
`wsacc <desc> <impl>`: the public path to SHA-1 + Base64: `websocket_handler` called on a request whose
`Sec-WebSocket-Key` is the described text; `impl` = hex of everything written to the socket (or `PANIC`), which must
be the 101 response carrying `Sec-WebSocket-Accept: base64(sha1(key ++ GUID))` (`WsMsg.handshakeResponse`) followed by
the Close frame of the stream the (empty) handler drops (`WsMsg.dropStream`).
-/
namespace Humphrey.Driver.C18b
open Humphrey Humphrey.Driver

def parseInt? (s : String) : Option Int :=
  if s.startsWith "-" then (s.drop 1).toNat?.map (fun n => -(n : Int)) else s.toNat?.map Int.ofNat

def renderDate (d : Date.DateTime) : String :=
  match d.toString with
  | none => "PANIC"
  | some cs =>
    s!"{d.year};{d.month};{d.day};{d.weekday};{d.hour};{d.minute};{d.second};{String.ofList cs}"

/-- C18 for one timestamp and one set of output fields + string: `Spec/Date.lean` only. -/
def judge (t : Int) (y m d w h mi s : Nat) (str : List Char) : Bool :=
  decide (Date.Spec.validDate y m d h mi s w)
    && Date.Spec.daysFromCivil y m d * 86400 + h * 3600 + mi * 60 + s == t
    && (w : Int) == Date.Spec.weekdaySpec t
    && str == Date.Spec.imfFixdate y m d h mi s w

/-- C18 judged on the implementation's output alone (timestamps of 1970-01-01 … 9999-12-31). -/
def dateSpec (t : Int) (impl : String) : Option Bool :=
  if t < 0 ∨ t > 253402300799 then none else
  match impl.splitOn ";" with
  | [y, m, d, w, h, mi, s, str] =>
    match y.toNat?, m.toNat?, d.toNat?, w.toNat?, h.toNat?, mi.toNat?, s.toNat? with
    | some y, some m, some d, some w, some h, some mi, some s => some (judge t y m d w h mi s str.toList)
    | _, _, _, _, _, _, _ => some false
  | _ => some false

def date (ts : String) (impl : String) : Verdict :=
  match parseInt? ts with
  | none => { model := "BADARGS" }
  | some t =>
    match Date.DateTime.from t with
    | none => { model := "PANIC", spec := dateSpec t impl }
    | some d =>
      let model := renderDate d
      if impl == model then
        -- the implementation's output is the rendering of `d`, so its fields and string are `d`'s:
        -- judge those directly instead of parsing them back out of the identical text
        match d.toString with
        | some str =>
          { model := model
            spec := if t < 0 ∨ t > 253402300799 then none
                    else some (judge t d.year d.month d.day d.weekday d.hour d.minute d.second str) }
        | none => { model := model, spec := dateSpec t impl }
      else { model := model, spec := dateSpec t impl }

def sha1 (msg : String) (impl : String) : Verdict :=
  match unhex msg with
  | none => { model := "BADARGS" }
  | some m =>
    let model := hex (Sha1.sha1 m)
    { model := model, spec := some (impl == model) }

def sha1g (desc : String) (impl : String) : Verdict :=
  match Gen.bytesOf desc with
  | none => { model := "BADARGS" }
  | some m =>
    let model := hex (Sha1.sha1 m)
    { model := model, spec := some (impl == model) }

def wsacc (desc : String) (impl : String) : Verdict :=
  match Gen.bytesOf desc with
  | none => { model := "BADARGS" }
  | some key =>
    -- the handler returns at once, so the dropped stream's Close frame follows the response
    let model := hex (Http.serializeResponse (WsMsg.handshakeResponse Sha1.sha1 key) ++
      WsFrame.encodeFrame (WsFrame.Frame.new .close []))
    { model := model, spec := some (impl == model) }

def dispatch (fn : String) (args : List String) (impl : String) : Option Verdict :=
  match fn, args with
  | "sha1g", [d] => some (sha1g d impl)
  | "wsacc", [d] => some (wsacc d impl)
  | "date", [ts] => some (date ts impl)
  | "sha1", [m] => some (sha1 m impl)
  | _, _ => none

end Humphrey.Driver.C18b
