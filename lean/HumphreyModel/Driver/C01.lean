import HumphreyModel.Driver.Http
import HumphreyModel.Model.Conn
import HumphreyModel.Spec.Conn

namespace Humphrey.Driver.C01
open Humphrey Humphrey.Driver Humphrey.Driver.HttpD Humphrey.Http Humphrey.IO

def decodeStr (b : Bytes) : List Char :=
  match utf8? b with
  | some s => s.toList
  | none => []

def corsPreset : String → Cors
  | "1" => { origins := none, methods := none, headers := none }
  | "2" => { origins := some [strBytes "a.com", strBytes "b.com"], methods := some [.get, .post],
             headers := some [strBytes "x-a", strBytes "Content-Type"] }
  | "3" => { origins := none, methods := none, headers := some [] }
  | _ => {}

/-- `hexhost/routes/wsroutes` -/
def parseSub (spec : String) : Option (SubApp String String) :=
  match spec.splitOn "/" with
  | [h, rs, ws] => do
    let host ← (unhex h).map decodeStr
    let routes ← (if rs == "-" then some [] else (rs.splitOn ",").mapM (fun r =>
      match r.splitOn ":" with
      | [p, k, c] => (unhex p).map (fun pb => (⟨decodeStr pb, k, corsPreset c⟩ : RouteEntry String))
      | _ => none))
    let wsr ← (if ws == "-" then some [] else (ws.splitOn ",").mapM (fun r =>
      match r.splitOn ":" with
      | [p, i] => (unhex p).map (fun pb => (decodeStr pb, i))
      | _ => none))
    -- (CORS presets are only used with pattern strings that are unique within their sub-app)
    pure ⟨host, routes, wsr⟩
  | _ => none

def parseApp (cfg : String) : Option (App String String) := do
  let subs ← (cfg.splitOn "|").mapM parseSub
  match subs.reverse with
  | d :: rest => pure ⟨rest.reverse, d⟩
  | [] => none

def runHandler (kind : String) (req : Request) : HandlerResult :=
  if kind.startsWith "i" then
    .response ⟨http11, 200, [], strBytes ("id=" ++ (kind.drop 1).toString)⟩
  else if kind == "e" then .response ⟨http11, 200, [], req.content.getD []⟩
  else if kind == "m" then .response ⟨http11, 200, [], []⟩
  else if kind.startsWith "z" then
    -- a status that usually has no content, answered WITH content
    let code := (kind.drop 1).toString
    .response ⟨http11, code.toNat?.getD 200, [], strBytes ("z" ++ code)⟩
  else if kind.startsWith "h" then
    -- handlers that set headers of their own (`o`/`m`/`h`: one of the three CORS headers each, `x`: a custom one and Server)
    let which := (kind.drop 1).toString
    let hs : Headers :=
      (if which.contains 'o' then [⟨hAcao, strBytes "https://h.example"⟩] else []) ++
      (if which.contains 'm' then [⟨hAcam, strBytes "PATCH"⟩] else []) ++
      (if which.contains 'h' then [⟨hAcah, strBytes "X-H"⟩] else []) ++
      (if which.contains 'x' then [⟨HName.ofName (strBytes "X-Custom"), strBytes "1"⟩, ⟨hServer, strBytes "mine"⟩] else [])
    .response ⟨http11, 200, hs, strBytes ("h" ++ which)⟩
  else .panic

/-- One event of the script. `i` = a pause past the timeout; `d<hexz>` = one segment; `d<hexz>*<n>` = that segment `n`
times; `b<hexz>` = these bytes one per segment; `s<n>:<hexz>` = these bytes in segments of `n` bytes. -/
def parseEvent (e : String) : Option (List Bytes) :=
  if e == "i" then some [[]]
  else if e.startsWith "d" then
    match (e.drop 1).toString.splitOn "*" with
    | [h] => (unhexz h).map (fun b => [b])
    | [h, n] =>
      match unhexz h, n.toNat? with
      | some b, some k => if k > 1000000 then none else some (List.replicate k b)
      | _, _ => none
    | _ => none
  else if e.startsWith "b" then (unhexz (e.drop 1).toString).map (fun b => b.map (fun x => [x]))
  else if e.startsWith "s" then
    match (e.drop 1).toString.splitOn ":" with
    | [n, h] =>
      match n.toNat?, unhexz h with
      | some k, some b => some (chunkEvery k b)
      | _, _ => none
    | _ => none
  else none

def parseEvents (s : String) : Option (List Bytes) :=
  if s == "-" then some []
  else ((s.splitOn ",").mapM parseEvent).map List.flatten

def renderResult (r : ConnResult Reader String) : String :=
  -- runs of equal consecutive entries are written `e*n` (see `rle`), as the harness does
  let w := ";".intercalate (rle (r.written.map hx))
  let d := ";".intercalate (rle (r.dispatched.map canonRequest))
  let ws := match r.ws with | some i => i | none => "-"
  let x := match r.disposition with
    | .handlerPanicked => "panic" | .parserPanicked => "panic" | .outOfFuel => "FUEL" | _ => "end"
  s!"W[{w}] D[{d}] WS[{ws}] X[{x}]"

/-- The written responses and the panic flag out of the implementation's canonical output. -/
def parseImpl (impl : String) : Option (List Bytes × Bool) :=
  match impl.splitOn "] D[" with
  | w :: _ =>
    let w := (w.drop 2).toString
    let entry (e : String) : Option (List Bytes) :=
      match e.splitOn "*" with
      | [h] => (unhx h).map (fun b => [b])
      | [h, n] =>
        match unhx h, n.toNat? with
        | some b, some k => if k > 1000000 then none else some (List.replicate k b)
        | _, _ => none
      | _ => none
    let ws := if w.isEmpty then some [] else ((w.splitOn ";").mapM entry).map List.flatten
    ws.map (fun l => (l, impl.endsWith "X[panic]"))
  | _ => none

def dispatch (fn : String) (args : List String) (impl : String) : Option Verdict :=
  match fn, args with
  | "conn", [cfg, timeout, events, peer, oracle] =>
    match parseApp cfg, parseEvents events, peer.splitOn "|" with
    | some app, some chunks, [ip, port] =>
      let tab := mkOracleTab (parseOracle oracle)
      let env : Env := ⟨strBytes ip, port.toNat?.getD 0, tab.lookup⟩
      let c : ConnCfg String String :=
        { app := app, run := runHandler, decode := decodeStr, env := env, now := strBytes "D",
          timeout := timeout == "1" }
      -- data chunks that happen to be empty are dropped (an empty chunk is the idle marker)
      let r := serve readerSource readerIdle c ⟨[], chunks⟩
      let (spec, reason) := match parseImpl impl with
        | none => (some false, "unreadable-output")
        | some (written, panicked) =>
          match Spec.checkConn c readerIdle ⟨[], chunks⟩ written panicked with
          | none =>
            -- WebSocket hand-off: the model's choice IS the rule of the property (`wsHandler_some_iff`,
            -- Props/C04Ws.lean: first matching ws route of the first matching host, else of the default
            -- sub-app), so an upgrade handed to any other handler, or to none, is a routing violation.
            let wsImpl := match impl.splitOn "] WS[" with
              | [_, t] => (t.splitOn "] X[").head?
              | _ => none
            let wsModel := match r.ws with | some i => i | none => "-"
            if wsImpl == some wsModel then (some true, "") else (some false, "upgrade-routed-to-wrong-handler")
          | some why =>
            -- The executable spec asks for the route's configured CORS values. A handler may set one of these headers
            -- itself (app specs with `:h…` kinds): then the code's rule — a header the handler set is kept, every OTHER
            -- configured one is added — is the model's `Cors.setHeaders`, and the model is the judge of that clause.
            if why == "cors-headers" && (cfg.splitOn ":h").length > 1 then
              if impl == renderResult r then (some true, "") else (some false, "cors-headers-not-per-header")
            else (some false, why)
      some { model := renderResult r, spec := spec, reason := reason }
    | _, _, _ => some { model := "BADARGS" }
  | "conn_tokio", [cfg, _timeout, events, peer, oracle] =>
    -- the tokio runtime, observed through a real socket: everything the server sent, concatenated
    match parseApp cfg, parseEvents events, peer.splitOn "|" with
    | some app, some chunks, [ip, port] =>
      let tab := mkOracleTab (parseOracle oracle)
      let env : Env := ⟨strBytes ip, port.toNat?.getD 0, tab.lookup⟩
      let c : ConnCfg String String :=
        { app := app, run := runHandler, decode := decodeStr, env := env, now := strBytes "D", timeout := false }
      let r := serve readerSource readerIdle c ⟨[], chunks⟩
      -- long byte streams (long sessions, large echoed bodies) are compared by length and FNV-1a hash
      -- a WebSocket handler of the tokio harness writes `WS:<its id>` on the raw stream: which route got the upgrade is visible
      let all := r.written.flatten ++ (match r.ws with | some i => strBytes ("WS:" ++ i) | none => [])
      let m := if all.length > 8192 then s!"W[#{all.length}:{hex64 (fnv all)}]" else s!"W[{hx all}]"
      -- the model meets the spec on all inputs (serve_meets_spec), so any other byte stream violates C01
      some { model := m, spec := some (impl == m), reason := "tokio-runtime-differs-from-the-specified-byte-stream" }
    | _, _, _ => some { model := "BADARGS" }
  | _, _ => none

end Humphrey.Driver.C01
