import HumphreyModel.Driver.C07
import HumphreyModel.Driver.C01
import HumphreyModel.Model.Proxy

namespace Humphrey.Driver.C09
open Humphrey Humphrey.Driver Humphrey.Driver.HttpD Humphrey.Http Humphrey.IO

/-- the proxy's time budget in the harness (ms) -/
def timeoutMs : Nat := 500

/-- Script → what reaches the proxy before its deadline. -/
def interpret (steps : List String) : Option Upstream :=
  match steps with
  | ["r"] => some .refused
  | _ =>
    let rec go (steps : List String) (elapsed : Nat) (acc : List Bytes) : Option Upstream :=
      match steps with
      | [] => some (.accepted acc.reverse .closed)
      | s :: rest =>
        if s == "e" then some (.accepted acc.reverse .closed)
        else if s == "s" then some (.accepted acc.reverse .silent)
        else if s.startsWith "p" then
          let ms := (s.drop 1).toString.toNat?.getD 0
          let e := elapsed + ms
          -- pauses in the scripts are either far below or far above the budget
          if e ≥ timeoutMs then some (.accepted acc.reverse .silent) else go rest e acc
        else if s.startsWith "d" then
          match unhex (s.drop 1).toString with
          | some b => go rest elapsed (b :: acc)
          | none => none
        else none
    go steps 0 []

def dispatch (fn : String) (args : List String) (impl : String) : Option Verdict :=
  match fn, args with
  | "proxy", [reqHex, peer, oracle, script, pattern] =>
    match unhex reqHex, peer.splitOn "|", interpret (script.splitOn ",") with
    | some rb, [ip, port], some up =>
      let env : Env := ⟨strBytes ip, port.toNat?.getD 0, oracleFn (parseOracle oracle)⟩
      match parseRequest readerSource env (⟨[], [rb]⟩ : Reader) with
      | .ok (req, _) =>
        let req' : Option Request :=
          if pattern == "-" then some req
          else match (unhex pattern).map C01.decodeStr with
            | some p =>
              (stripPrefix p (C01.decodeStr req.uri)).map (fun u =>
                { req with uri := strBytes (String.ofList (restoreSlash u)) })
            | none => none
        match req' with
        | none => some { model := "PANIC | ~ | time-ok" }
        | some rq =>
          let sent := match up with | .refused => [] | _ => forwardedBytes rq
          let resp := proxyRequest up
          let model := s!"{C07.canonResponse resp} | {hxl sent} | time-ok"
          -- the property: the upstream's response if it sent a complete valid one in time, else 502;
          -- the upstream got the request unchanged but for the prefix and X-Forwarded-For; in time.
          let spec := impl == model
          let why := if impl.endsWith "time-ok" then "response-or-forwarded-request-differs" else "not-within-timeout"
          some { model := model, spec := some spec, reason := why }
      | _ => some { model := "BADREQ" }
    | _, _, _ => some { model := "BADARGS" }
  -- `rot`: round robin through the real handler with refused requests in between. What the property demands is decided
  -- outright: the k-th ADMITTED request is served by target k mod n (`round_robin_strict`), a refused one gets 403 and
  -- takes no turn.
  | "rot", [n, _mode, sq] =>
    match n.toNat? with
    | some n =>
      let rec go (cs : List Char) (k : Nat) (acc : List String) : List String :=
        match cs with
        | [] => acc.reverse
        | c :: rest =>
          if c == 'b' then go rest k ("403:-" :: acc)
          else go rest (k + 1) (s!"200:{k % n}" :: acc)
      let m := ",".intercalate (go sq.toList 0 [])
      some { model := m, spec := some (impl == m), reason := "rotation-or-refusal-differs" }
    | none => some { model := "BADARGS" }
  | "lb", [mode, n, _threads, _picks, seed] =>
    match n.toNat?, seed.toNat? with
    | some n, some seed =>
      let total := (impl.splitOn ",").length
      let lb : LoadBalancer String :=
        { targets := (List.range n).map (fun i => s!"t{i}"),
          mode := if mode == "r" then .roundRobin else .random, index := 0,
          lcg := ⟨2147483647, 1103515245, 12345, seed⟩ }
      match lb.selectN total with
      | some (ts, _) =>
        let m := ",".intercalate ts
        -- strict rotation / membership in the configured set, in the order the lock was taken
        let inSet := (impl.splitOn ",").all (fun t => lb.targets.contains t)
        some { model := m, spec := some (if mode == "r" then impl == m else inSet),
               reason := if mode == "r" then "not-strict-rotation" else "target-outside-configured-set" }
      | none => some { model := "PANIC" }
    | _, _ => some { model := "BADARGS" }
  | _, _ => none

end Humphrey.Driver.C09
