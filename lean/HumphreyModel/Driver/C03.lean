import HumphreyModel.Driver.Http
import HumphreyModel.Driver.C13
import HumphreyModel.Driver.C15
import HumphreyModel.Model.Response
import HumphreyModel.Model.WsFrame

namespace Humphrey.Driver.C03
open Humphrey Humphrey.Driver Humphrey.Driver.HttpD Humphrey.Http Humphrey.IO

def classOf {ε α : Type} (kind : ε → String) : Outcome ε α → String
  | .ok _ => "ok" | .err e => "err:" ++ kind e | .panic => "PANIC"

def reqKind : ReqErr → String
  | .request => "Request" | .stream => "Stream" | .disconnected => "Disconnected" | .timeout => "Timeout"

def respKind : RespErr → String
  | .response => "Response" | .stream => "Stream"

/-- `<ok|err|PANIC|ABORT|TIMEOUT|notutf8> mem=<ok|EXCESS:n>`: C03 demands a value or an error, and
bounded memory, for EVERY input. -/
def judge (impl : String) : Bool × String :=
  match impl.splitOn " " with
  | [cls, mem] =>
    if cls == "PANIC" then (false, "panic")
    else if mem != "mem=ok" then (false, "memory-not-bounded-by-input")
    else (true, "")
  | ["ABORT"] => (false, "process-aborted")
  | ["TIMEOUT"] => (false, "no-answer-within-watchdog")
  | _ => (false, "unreadable")

def dispatch (fn : String) (args : List String) (impl : String) : Option Verdict :=
  let mk (cls : String) : Option Verdict :=
    let (ok, why) := judge impl
    some { model := cls ++ " mem=ok", spec := some ok, reason := why }
  match fn, args with
  | "p_req", [bytes, cuts] =>
    (unhex bytes).bind fun bs =>
      let env : Env := ⟨strBytes "127.0.0.1", 9, fun _ => none⟩
      mk (classOf reqKind (parseRequest readerSource env (⟨[], applyCuts bs cuts⟩ : Reader)))
  | "p_resp", [bytes, cuts] =>
    (unhex bytes).bind fun bs =>
      mk (classOf respKind (parseResponse readerSource (⟨[], applyCuts bs cuts⟩ : Reader)))
  | "p_ws", [bytes, cuts] =>
    (unhex bytes).bind fun bs =>
      mk (match WsFrame.decodeFrame (applyCuts bs cuts) with | .ok _ => "ok" | .error _ => "err")
  | "p_json", [bytes, _] =>
    (unhex bytes).bind fun bs =>
      mk (match utf8? bs with
          | none => "notutf8"
          | some t => if (C13.parseText t).isSome then "ok" else "err")
  | "p_conf", [bytes, c] =>
    (unhex bytes).bind fun bs =>
      -- third field: `w`, or `n<hex>` = the name the text is parsed under
      let name : List Char := if c.startsWith "n" then ((unhex (c.drop 1).toString).bind utf8?).map String.toList |>.getD "c03.conf".toList
                              else "c03.conf".toList
      mk (match utf8? bs with
          | none => "notutf8"
          | some t =>
            match Conf.parseConf (C15.lookupFs []) t.toList name with
            | .ok _ => "ok" | .err _ => "err" | .panic => "PANIC")
  | _, _ => none

end Humphrey.Driver.C03
