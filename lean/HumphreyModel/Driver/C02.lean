import HumphreyModel.Driver.Http

namespace Humphrey.Driver.C02
open Humphrey Humphrey.Driver Humphrey.Driver.HttpD Humphrey.Http Humphrey.IO

def parseChunks (env : Env) (chunks : List Bytes) : Outcome ReqErr (Request × Reader) :=
  parseRequest readerSource env ⟨[], chunks⟩

def dispatchSync (fn : String) (args : List String) (impl : String) : Option Verdict :=
  match fn, args with
  | "req_parse", [bytes, cuts, peer, oracle, expect] =>
    -- the request bytes may use the compact `hexz` form (large bodies are a generated pattern, see Driver/Http.lean)
    match unhexz bytes, peer.splitOn "|" with
    | some bs, [ip, port] =>
      let tab := mkOracleTab (parseOracle oracle)
      let env : Env := ⟨strBytes ip, port.toNat?.getD 0, tab.lookup⟩
      let model :=
        match parseChunks env (applyCuts bs cuts) with
        | .panic => "PANIC | - | -"
        | .err e => s!"{errName e} | - | -"
        | .ok (q, _) =>
          let c1 := canonRequest q
          let ser := serializeRequest q
          let p2 := match parseChunks env [ser] with
            | .panic => "PANIC"
            | .err e => errName e
            | .ok (q2, _) => canonRequest q2
          s!"{c1} | {hxl ser} | {p2}"
      -- spec: a generated well-formed request must parse to what its AST denotes, and survive the round trip
      let spec :=
        if expect == "-" then
          -- no generator oracle for this input; the round-trip clause still applies to whatever was parsed: where the
          -- model (proved to round-trip, Props/C02Faithful) parses the same request and reads it back unchanged, an
          -- implementation whose second parse differs from its first has relayed a different request
          match impl.splitOn " | ", model.splitOn " | " with
          | [p1, _, p2], [m1, _, m2] =>
            if p1.startsWith "OK" && p1 == m1 && m2 == m1 && p2 != p1 then some false else none
          | _, _ => none
        else match impl.splitOn " | " with
          | [p1, _, p2] => some (p1 == expect && p2 == p1)
          | _ => some false
      some { model := model, spec := spec, reason := if expect == "-" then "relayed-request-differs" else "" }
    | _, _ => some { model := "BADARGS" }
  | _, _ => none

/-- `req_parse_tokio`: the tokio twin of the parser must behave exactly like the threaded one. -/
def dispatch (fn : String) (args : List String) (impl : String) : Option Verdict :=
  if fn == "req_parse_tokio" then dispatchSync "req_parse" args impl else dispatchSync fn args impl

end Humphrey.Driver.C02
