import HumphreyModel.Driver.Util
import HumphreyModel.Model.WsMsg
import HumphreyModel.Spec.WsMsg
import HumphreyModel.Spec.Base64

/-
C11 line protocol (fields separated by TAB; bytes lower-case hex; numbers decimal):

  hs   headers                  -> `U/<w1>.<w2>…` (handler called) | `X/<writes>` (not upgraded)
  sess frames keep delivery ops -> `res/writes;…;D/writes`, one entry per op and one for the drop

`headers`: `-` or `hexname=hexvalue` joined by `,`. `frames`: `-` or frames joined by `,`, each
`fin.rsv.opcode.mask.key.payloadhex`. `keep`: number of bytes of the client's stream that arrive.
`delivery`: `-` or items joined by `,`: decimal `k` = the next `k` bytes arrive as one segment, `n` = a
moment at which nothing has arrived yet; the remainder is one more segment. `ops`: `-` or joined by `,`:
`r` recv, `n` recv_nonblocking, `p` ping, `s0<hex>` send Message::new_binary, `s1<hex>` send Message::new;
on RECEIVED message objects: `e` / `f` echo = recv / recv_nonblocking and, when a message came, `send` of that
same object (one entry: result `<message>>S`, the writes of both calls), `k` / `j` recv / recv_nonblocking and
keep the message in a queue, `q` send the oldest kept message (it leaves the queue), `c` send a clone of it (it
stays) - result `S`, or `-` with nothing written when nothing is kept.
`res`: `T<hex>`/`B<hex>` message, `N` nothing yet, `E:<WebsocketError>`, `S` sent, `D` dropped.
`writes`: hex of every `write` call during the op, joined by `.` (a write of more than 100 000 bytes is
`#<len>:<FNV-1a 64>`, compared with the same rendering of the frames the specification demands).
The model has no message objects: it sends the flag and the bytes of what the MODEL received; the verdict
sends on what `Spec.Client.recv` says was received.

Run-length forms (large scripts stay small in the case line): an item of `frames`, `delivery` and `ops` may be
`<count>*<group>`, a group being items joined by `+` (`20000*1.000.10.0.00000000.` = 20 000 empty Pongs,
`1000*0.000.0.1.a1b2c3d4.62+1.000.9.0.00000000.` = 1 000 times fragment-then-Ping, `200000*2` = 200 000
two-byte segments, `10002*r`). A frame's payload is hex or `g<len>s<seed>` = the `len` bytes
`(31 i + 7 (i / 251) + seed) mod 256`, `t<len>s<seed>` = printable ASCII `32 + (7 i + seed) mod 95`,
`u<len>s<seed>` = the 10 bytes of "aé€😀" repeated, starting at offset `seed mod 10`. In the OUTPUT a run of two or more identical consecutive writes of
an op is `<count>*<hex>`, a run of identical consecutive entries `<count>*<entry>`, and a message payload
of more than 100 000 bytes is `#<len>:<FNV-1a 64>` (both sides, and the spec's expected message, are
rendered the same way). `ABORT` / `TIMEOUT` (the session ran in a worker process that died / did not
answer) are judged `process-aborted` / `no-answer-within-watchdog`.

`Verdict.model` comes from `Model/WsMsg.lean` run on the byte-level script; `Verdict.spec` judges the
IMPLEMENTATION's output by `Spec/WsMsg.lean` alone: every write parses as unmasked well-formed frames
(`framesOf`), and results and replies per call are those of `Spec.Client.recv` on the frame list.
SHA-1 (a parameter of the model's `handshake`) is a plain executable FIPS 180-1 here.
-/
namespace Humphrey.Driver.C11
open Humphrey Humphrey.Driver Humphrey.WsFrame Humphrey.WsMsg

/-! ### SHA-1 (FIPS 180-1), executable only -/

def rotl (x : UInt32) (n : UInt32) : UInt32 := (x <<< n) ||| (x >>> (32 - n))

def be32 (a b c d : UInt8) : UInt32 :=
  (a.toUInt32 <<< 24) ||| (b.toUInt32 <<< 16) ||| (c.toUInt32 <<< 8) ||| d.toUInt32

def u32Bytes (x : UInt32) : Bytes :=
  [(x >>> 24).toUInt8, (x >>> 16).toUInt8, (x >>> 8).toUInt8, x.toUInt8]

def sha1Pad (msg : Bytes) : Bytes :=
  let l := msg.length
  let zeros := (119 - l % 64) % 64   -- l + 1 + zeros ≡ 56 (mod 64)
  let bits := l * 8
  msg ++ [0x80] ++ List.replicate zeros 0 ++
    [(bits / 72057594037927936 % 256).toUInt8, (bits / 281474976710656 % 256).toUInt8,
     (bits / 1099511627776 % 256).toUInt8, (bits / 4294967296 % 256).toUInt8,
     (bits / 16777216 % 256).toUInt8, (bits / 65536 % 256).toUInt8,
     (bits / 256 % 256).toUInt8, (bits % 256).toUInt8]

def words16 : Nat → Bytes → Array UInt32 → Array UInt32
  | 0, _, acc => acc
  | n + 1, a :: b :: c :: d :: rest, acc => words16 n rest (acc.push (be32 a b c d))
  | _ + 1, _, acc => acc

def schedule (w : Array UInt32) : Array UInt32 :=
  (List.range 64).foldl (fun (w : Array UInt32) i =>
    let t := i + 16
    w.push (rotl (w[t - 3]! ^^^ w[t - 8]! ^^^ w[t - 14]! ^^^ w[t - 16]!) 1)) w

structure H5 where
  a : UInt32
  b : UInt32
  c : UInt32
  d : UInt32
  e : UInt32

def sha1Block (h : H5) (block : Bytes) : H5 :=
  let w := schedule (words16 16 block #[])
  let r := (List.range 80).foldl (fun (s : H5) t =>
    let (f, k) :=
      if t < 20 then ((s.b &&& s.c) ||| ((~~~ s.b) &&& s.d), (0x5A827999 : UInt32))
      else if t < 40 then (s.b ^^^ s.c ^^^ s.d, (0x6ED9EBA1 : UInt32))
      else if t < 60 then ((s.b &&& s.c) ||| (s.b &&& s.d) ||| (s.c &&& s.d), (0x8F1BBCDC : UInt32))
      else (s.b ^^^ s.c ^^^ s.d, (0xCA62C1D6 : UInt32))
    let tmp := rotl s.a 5 + f + s.e + k + w[t]!
    ⟨tmp, s.a, rotl s.b 30, s.c, s.d⟩) h
  ⟨h.a + r.a, h.b + r.b, h.c + r.c, h.d + r.d, h.e + r.e⟩

def sha1Blocks : Nat → H5 → Bytes → H5
  | 0, h, _ => h
  | n + 1, h, bs => if bs.isEmpty then h else sha1Blocks n (sha1Block h (bs.take 64)) (bs.drop 64)

def sha1 (msg : Bytes) : Bytes :=
  let p := sha1Pad msg
  let h := sha1Blocks (p.length / 64 + 1) ⟨0x67452301, 0xEFCDAB89, 0x98BADCFE, 0x10325476, 0xC3D2E1F0⟩ p
  u32Bytes h.a ++ u32Bytes h.b ++ u32Bytes h.c ++ u32Bytes h.d ++ u32Bytes h.e

/-! ### Parsing the case fields -/

def mapM? {α β : Type} (f : α → Option β) : List α → Option (List β)
  | [] => some []
  | a :: as => do
    let b ← f a
    let bs ← mapM? f as
    pure (b :: bs)

def bit? (s : String) : Option Bool :=
  if s == "1" then some true else if s == "0" then some false else none

/-- `<count>*<rest>` → `(count, rest)`; anything else → `(1, s)`. -/
def count? (s : String) : Nat × String :=
  match s.splitOn "*" with
  | n :: r :: rs =>
    (match n.toNat? with
     | some k => (k, "*".intercalate (r :: rs))
     | none => (1, s))
  | _ => (1, s)

/-- Items joined by `sep`, each `[count*]a+b+…`, expanded. -/
def expandWith {α : Type} (parse : String → Option α) (sep : String) (s : String) : Option (List α) :=
  (mapM? (fun (item : String) =>
    let (k, body) := count? item
    (mapM? parse (body.splitOn "+")).map (fun g => (List.replicate k g).flatten)) (s.splitOn sep)).map
    List.flatten

/-- Run-length form of a list of texts: a run of `k ≥ 2` equal neighbours becomes `k*text`. -/
def rleGo : List String → String → Nat → List String → List String
  | [], cur, k, acc => ((if k ≥ 2 then toString k ++ "*" ++ cur else cur) :: acc).reverse
  | x :: xs, cur, k, acc =>
    if x == cur then rleGo xs cur (k + 1) acc
    else rleGo xs x 1 ((if k ≥ 2 then toString k ++ "*" ++ cur else cur) :: acc)

def rle : List String → List String
  | [] => []
  | x :: xs => rleGo xs x 1 []

/-- FNV-1a, 64 bit. -/
def fnv (b : Bytes) : UInt64 :=
  b.foldl (fun h x => (h ^^^ x.toUInt64) * 0x100000001b3) 0xcbf29ce484222325

def hex64 (n : UInt64) : String :=
  String.ofList ((List.range 16).map (fun i =>
    hexDigit ((n >>> ((15 - i) * 4).toUInt64) &&& 15).toUInt8))

/-- Payload of a delivered message: hex, or length and hash above 100 000 bytes. -/
def payloadText (p : Bytes) : String :=
  if p.length > 100000 then s!"#{p.length}:{hex64 (fnv p)}" else hex p

/-- `g<len>s<seed>`: the generated payload `(31 i + 7 (i / 251) + seed) mod 256`. -/
def genPayload (len seed : Nat) : Bytes :=
  (List.range len).map (fun i => ((31 * i + 7 * (i / 251) + seed) % 256).toUInt8)

/-- `t<len>s<seed>`: printable ASCII. -/
def genAscii (len seed : Nat) : Bytes :=
  (List.range len).map (fun i => (32 + (7 * i + seed) % 95).toUInt8)

/-- The bytes of "aé€😀" (characters of 1, 2, 3 and 4 bytes). -/
def utf8Unit : Array UInt8 := #[0x61, 0xc3, 0xa9, 0xe2, 0x82, 0xac, 0xf0, 0x9f, 0x98, 0x80]

/-- `u<len>s<seed>`: `utf8Unit` repeated, starting at offset `seed mod 10`. -/
def genUtf8 (len seed : Nat) : Bytes :=
  (List.range len).map (fun i => utf8Unit[(i + seed) % 10]!)

def payload? (s : String) : Option Bytes :=
  let gen? (f : Nat → Nat → Bytes) : Option Bytes :=
    match (s.drop 1).toString.splitOn "s" with
    | [l, sd] => do
      let l ← l.toNat?
      let sd ← sd.toNat?
      pure (f l sd)
    | _ => none
  if s.startsWith "g" then gen? genPayload
  else if s.startsWith "t" then gen? genAscii
  else if s.startsWith "u" then gen? genUtf8
  else unhex s

def frame? (s : String) : Option Frame :=
  match s.splitOn "." with
  | [fin, rsv, opcode, mask, key, payload] => do
    let fin ← bit? fin
    let (r1, r2, r3) ← (match rsv.toList with
      | [a, b, c] => do
        let a ← bit? (String.singleton a); let b ← bit? (String.singleton b)
        let c ← bit? (String.singleton c)
        pure (a, b, c)
      | _ => none)
    let op ← (← opcode.toNat?) |> Opcode.ofNat?
    let mask ← bit? mask
    let key ← (match unhex key with | some [a, b, c, d] => some (Key.mk a b c d) | _ => none)
    let payload ← payload? payload
    pure { fin := fin, rsv1 := r1, rsv2 := r2, rsv3 := r3, opcode := op, mask := mask,
           length := payload.length, key := key, payload := payload }
  | _ => none

def frames? (s : String) : Option (List Frame) :=
  if s == "-" then some [] else expandWith frame? "," s

inductive Item | seg (k : Nat) | notYet

def delivery? (s : String) : Option (List Item) :=
  if s == "-" then some []
  else expandWith (fun x => if x == "n" then some Item.notYet else
    match x.toNat? with | some (k + 1) => some (Item.seg (k + 1)) | _ => none) "," s

/-- The scripted socket the harness builds from the byte stream and the delivery. -/
def events : List Item → Bytes → List Ev
  | [], bs => if bs.isEmpty then [] else [.data bs]
  | .notYet :: d, bs => .notYet :: events d bs
  | .seg k :: d, bs => if bs.isEmpty then events d bs else .data (bs.take k) :: events d (bs.drop k)

/-- The same delivery as byte positions of the `notYet` moments (for `Spec.Client`). -/
def gapsOf : List Item → Nat → Nat → List Nat
  | [], _, _ => []
  | .notYet :: d, pos, keep => pos :: gapsOf d pos keep
  | .seg k :: d, pos, keep => gapsOf d (min (pos + k) keep) keep

inductive Op
  | recv | recvNb | ping | send (text : Bool) (payload : Bytes)
  /-- receive (`nb`: without blocking) and send the received message back -/
  | echo (nb : Bool)
  /-- receive and keep the message -/
  | keep (nb : Bool)
  /-- send the oldest kept message; it leaves the queue -/
  | relay
  /-- send a clone of the oldest kept message; it stays -/
  | again

def op? (s : String) : Option Op :=
  if s == "r" then some .recv else if s == "n" then some .recvNb else if s == "p" then some .ping
  else if s == "e" then some (.echo false) else if s == "f" then some (.echo true)
  else if s == "k" then some (.keep false) else if s == "j" then some (.keep true)
  else if s == "q" then some .relay else if s == "c" then some .again
  else if s.startsWith "s0" then (unhex (s.drop 2).toString).map (Op.send false)
  else if s.startsWith "s1" then (unhex (s.drop 2).toString).map (fun p => Op.send (utf8? p).isSome p)
  else none

def ops? (s : String) : Option (List Op) :=
  if s == "-" then some [] else expandWith op? "," s

/-! ### Model run -/

def errText : RecvErr → String
  | .readError => "E:ReadError" | .invalidOpcode => "E:InvalidOpcode"
  | .connectionClosed => "E:ConnectionClosed"

def resultText : Result → String
  | .message t p => (if t then "T" else "B") ++ payloadText p
  | .err e => errText e
  | .none => "N"
  | .outOfFuel => "OUT-OF-FUEL"

def writesText (ws : List Bytes) : String := ".".intercalate (rle (ws.map payloadText))

/-- A first-in first-out queue (kept messages): front, and back newest-first. -/
structure Fifo (α : Type) where
  front : List α := []
  back : List α := []

def Fifo.push {α : Type} (q : Fifo α) (a : α) : Fifo α := { q with back := a :: q.back }

/-- Oldest element and the queue without it. -/
def Fifo.pop? {α : Type} (q : Fifo α) : Option (α × Fifo α) :=
  match q.front with
  | a :: f => some (a, { q with front := f })
  | [] =>
    match q.back.reverse with
    | a :: f => some (a, { front := f, back := [] })
    | [] => none

/-- One op on the model; the text of its entry. The outbound log only ever grows at its end and is never
read by the model, so each op is run on an empty log and what it wrote is the log afterwards (a
connection with 10 000 earlier writes would otherwise cost 10 000 cells per call). `held`: the messages
(flag, bytes) the handler keeps. An echo is a receive followed by `send` of the flag and the bytes received. -/
def runOp (c : Conn) (held : Fifo (Bool × Bytes)) (o : Op) : String × Conn × Fifo (Bool × Bytes) :=
  let c0 : Conn := { c with outbound := [] }
  let receive (nb : Bool) : Result × Conn := if nb then recvNonblocking c0 else recvBlocking c0
  let (r, c', held') : String × Conn × Fifo (Bool × Bytes) :=
    match o with
    | .recv => let p := receive false; (resultText p.1, p.2, held)
    | .recvNb => let p := receive true; (resultText p.1, p.2, held)
    | .ping => ("S", WsMsg.ping c0, held)
    | .send t p => ("S", WsMsg.send c0 t p, held)
    | .echo nb =>
      let p := receive nb
      (match p.1 with
       | .message t pl => (resultText p.1 ++ ">S", WsMsg.send p.2 t pl, held)
       | r => (resultText r, p.2, held))
    | .keep nb =>
      let p := receive nb
      (match p.1 with
       | .message t pl => (resultText p.1, p.2, held.push (t, pl))
       | r => (resultText r, p.2, held))
    | .relay =>
      (match held.pop? with
       | some ((t, pl), rest) => ("S", WsMsg.send c0 t pl, rest)
       | none => ("-", c0, held))
    | .again =>
      (match held.pop? with
       | some ((t, pl), rest) => ("S", WsMsg.send c0 t pl, { rest with front := (t, pl) :: rest.front })
       | none => ("-", c0, held))
  (r ++ "/" ++ writesText c'.outbound, c', held')

def runOps : List Op → Conn → Fifo (Bool × Bytes) → List String → String
  | [], c, _, acc =>
    let c' := dropStream { c with outbound := [] }
    ";".intercalate (rle (acc.reverse ++ ["D/" ++ writesText c'.outbound]))
  | o :: os, c, held, acc => let (t, c', held') := runOp c held o; runOps os c' held' (t :: acc)

/-! ### Spec verdict on the implementation's output -/

/-- What an op wrote, as far as the output line tells. -/
inductive Writes
  /-- the writes are exactly these unmasked well-formed frames -/
  | frames (fs : List Frame)
  /-- they do not parse as frames -/
  | notFrames
  /-- a write above 100 000 bytes is shown as length and hash: the text as it stands -/
  | hashed (w : String)

/-- `res/w1.w2` → result text and what was written. -/
def entry? (s : String) : Option (String × Writes) :=
  match s.splitOn "/" with
  | [r, w] =>
    if w.isEmpty then some (r, .frames [])
    else if w.contains '#' then some (r, .hashed w)
    else
      let items := (w.splitOn ".").map count?
      match mapM? (fun (kx : Nat × String) => (unhex kx.2).map (fun b => (kx.1, b))) items with
      | none => some (r, .notFrames)
      | some ws =>
        -- a write that is whole frames by itself is read once, whatever its repeat count; otherwise a
        -- frame may straddle `write` calls: the writes of the op are read as one byte string
        match mapM? (fun (kb : Nat × Bytes) =>
                (Spec.framesOf kb.2).map (fun fs => (List.replicate kb.1 fs).flatten)) ws with
        | some fss => some (r, .frames fss.flatten)
        | none =>
          match Spec.framesOf (ws.map (fun kb => (List.replicate kb.1 kb.2).flatten)).flatten with
          | some fs => some (r, .frames fs)
          | none => some (r, .notFrames)
  | _ => none

/-- The entries of an output line, run-length forms expanded. -/
def entries (impl : String) : List String :=
  ((impl.splitOn ";").map (fun e => let (k, body) := count? e; List.replicate k body)).flatten

def outcomeText : Spec.Outcome → String
  | .message m => (if m.text then "T" else "B") ++ payloadText m.payload
  | .closed => "E:ConnectionClosed"
  | .lost => "E:ReadError"
  | .nothing => "N"

/-- The replies match: Pongs exactly (payload mirrored), a Close by any Close frame. -/
def repliesOk : List Frame → List Frame → Bool
  | [], [] => true
  | w :: ws, g :: gs =>
    (if w.opcode == .close then g.opcode == .close && g.fin && !g.rsv1 && !g.rsv2 && !g.rsv3
     else g == w) && repliesOk ws gs
  | _, _ => false

/-- What was written is what the specification demands (`want`, one write per frame when hashed). -/
def writesOk (want : List Frame) : Writes → Bool
  | .frames fs => repliesOk want fs
  | .notFrames => false
  | .hashed w => w == writesText (want.map Spec.rfc6455Layout)

/-- The frame by which a message is sent on: text or binary by the message's TYPE (RFC 6455 5.6: the opcode
says how the receiver is to interpret the payload; whether the bytes are valid UTF-8 does not change it). -/
def sendFrame (m : Spec.Msg) : Frame := Spec.reply (if m.text then .text else .binary) m.payload

/-- The writes are `want` followed by something else than `sendFrame m`: name what is wrong with the rest. -/
def sentWrong (want : List Frame) (m : Spec.Msg) : Writes → String
  | .frames fs =>
    if !repliesOk want (fs.take want.length) then "replies-before-send"
    else match fs.drop want.length with
      | [g] => if { g with opcode := (sendFrame m).opcode } == sendFrame m then "received-message-sent-with-other-opcode"
               else "received-message-sent-changed"
      | [] => "received-message-not-sent"
      | _ => "received-message-sent-changed"
  | _ => "received-message-sent-changed"

/-- Why a receive result is not the demanded one. -/
def recvWrong (out : Spec.Outcome) (r : String) : String :=
  match out with
  | .nothing => "nothing-yet-expected"
  | .closed => "close-not-reported"
  | .lost => "end-of-stream-not-reported"
  | .message _ => if r == "N" then "none-although-frame-started" else "message"

def repliesWrong (want : List Frame) : String :=
  if want.any (fun f => f.opcode == .ping || f.opcode == .pong) then "ping-not-answered-by-pong"
  else if want.any (fun f => f.opcode == .close) then "close-not-answered" else "unexpected-write"

/-- First failing clause, or "" when the whole session is what the specification demands. `held`: the
messages the handler keeps, as the SPECIFICATION says they were received. -/
def judge : List Op → Spec.Client → Bool → Fifo Spec.Msg → List String → String
  | [], _, closed, _, [e] =>
    match entry? e with
    | some (r, .frames fs) =>
      if r != "D" then "drop-result"
      else if closed then (if fs.isEmpty then "" else "write-after-close")
      else if fs == [Spec.reply .close []] then "" else "drop-sends-close"
    | some (_, _) => "outbound-not-frames"
    | none => "malformed-output"
  | [], _, _, _, _ => "malformed-output"
  | _ :: _, _, _, _, [] => "malformed-output"
  | o :: os, cl, closed, held, e :: es =>
    match entry? e with
    | none => "malformed-output"
    | some (_, .notFrames) => "outbound-not-frames"
    | some (r, w) =>
      match o with
      | .ping =>
        if r == "S" && writesOk [Spec.reply .ping []] w then judge os cl closed held es else "ping-op"
      | .send t p =>
        if r == "S" && writesOk [Spec.reply (if t then .text else .binary) p] w then judge os cl closed held es
        else "send-op"
      | .recv | .recvNb | .keep _ =>
        let nb := match o with | .recvNb | .keep true => true | _ => false
        let keeps := match o with | .keep _ => true | _ => false
        let (out, want, cl') := cl.recv nb
        if r != outcomeText out then recvWrong out r
        else if !writesOk want w then repliesWrong want
        else
          let held' := match out with | .message m => if keeps then held.push m else held | _ => held
          judge os cl' (closed || out == .closed) held' es
      | .echo nb =>
        let (out, want, cl') := cl.recv nb
        match out with
        | .message m =>
          if r != outcomeText out ++ ">S" then
            (if r.startsWith (outcomeText out ++ ">") then "send-of-received-message-failed" else recvWrong out r)
          else if !writesOk (want ++ [sendFrame m]) w then sentWrong want m w
          else judge os cl' closed held es
        | _ =>
          if r != outcomeText out then recvWrong out r
          else if !writesOk want w then repliesWrong want
          else judge os cl' (closed || out == .closed) held es
      | .relay | .again =>
        let stays := match o with | .again => true | _ => false
        match held.pop? with
        | none => if r == "-" && writesOk [] w then judge os cl closed held es else "relay-with-nothing-kept"
        | some (m, rest) =>
          if r != "S" then "send-of-received-message-failed"
          else if !writesOk [sendFrame m] w then sentWrong [] m w
          else judge os cl closed (if stays then { rest with front := m :: rest.front } else rest) es

/-! ### Handshake -/

def headers? (s : String) : Option (List (Bytes × Bytes)) :=
  if s == "-" then some []
  else mapM? (fun (x : String) =>
    match x.splitOn "=" with
    | [n, v] => do
      let n ← unhex n; let v ← unhex v
      pure (n, v)
    | _ => none) (s.splitOn ",")

def lower (b : Bytes) : Bytes :=
  b.map (fun c => if 65 ≤ c && c ≤ 90 then c + 32 else c)

/-- Split at CRLF. -/
def crlfLines : Bytes → Bytes → List Bytes
  | [], cur => [cur.reverse]
  | 13 :: 10 :: rest, cur => cur.reverse :: crlfLines rest []
  | b :: rest, cur => crlfLines rest (b :: cur)

def headerOf (line : Bytes) : Option (Bytes × Bytes) :=
  let name := line.takeWhile (· != 58)
  let rest := line.drop name.length
  match rest with
  | 58 :: 32 :: v => some (lower name, v)
  | _ => none

/-- RFC 6455 section 4.2.2: status 101, `Upgrade: websocket`, `Connection: Upgrade`,
`Sec-WebSocket-Accept: base64(SHA-1(key ++ GUID))`, no body. -/
def handshakeOk (resp : Bytes) (key : Bytes) : Bool :=
  match crlfLines resp [] with
  | status :: rest =>
    let hs := (rest.takeWhile (fun l => !l.isEmpty)).filterMap headerOf
    let tail := rest.dropWhile (fun l => !l.isEmpty)
    status == strBytes "HTTP/1.1 101 Switching Protocols"
      && tail == [[], []]
      && hs.length == 3
      && (hs.lookup (strBytes "upgrade")).map lower == some (strBytes "websocket")
      && (hs.lookup (strBytes "connection")).map lower == some (strBytes "upgrade")
      && hs.lookup (strBytes "sec-websocket-accept") == some (Base64.Spec.encode (sha1 (key ++ guid)))
  | [] => false

def request (hs : List (Bytes × Bytes)) : Http.Request :=
  { method := .get, uri := strBytes "/ws", query := [], version := http11,
    headers := hs.map (fun (n, v) => ⟨Http.HName.ofName n, v⟩), content := none,
    address := ⟨strBytes "127.0.0.1", [], 40000⟩ }

def dispatch (fn : String) (args : List String) (impl : String) : Option Verdict :=
  match fn, args with
  | "hs", [headers] =>
    match headers? headers with
    | none => some { model := "BADARGS" }
    | some hs =>
      let m :=
        match handshake sha1 (request hs) with
        | none => "X/"
        | some resp =>
          -- the handler the harness installs returns at once: the stream is dropped
          let c := dropStream { inbound := [], outbound := [resp] }
          "U/" ++ writesText c.outbound
      let key := (hs.find? (fun (n, _) => lower n == strBytes "sec-websocket-key")).map (·.2)
      let (ok, why) :=
        match key with
        | none => (impl == "X/", "upgrade-without-key")
        | some k =>
          match impl.splitOn "/" with
          | ["U", w] =>
            (match mapM? unhex (w.splitOn ".") with
             | some (resp :: rest) =>
               if !handshakeOk resp k then (false, "handshake-response")
               else if Spec.framesOf rest.flatten == some [Spec.reply .close []] then (true, "")
               else (false, "drop-sends-close")
             | _ => (false, "handshake-response"))
          | _ => (false, "not-upgraded")
      some { model := m, spec := some ok, reason := if ok then "" else why }
  | "sess", [frames, keep, delivery, ops] =>
    match frames? frames, keep.toNat?, delivery? delivery, ops? ops with
    | some fs, some keep, some d, some os =>
      let bytes := (Spec.wire fs).take keep
      let c : Conn := { inbound := events d bytes }
      let m := runOps os c {} []
      let cl : Spec.Client := ⟨fs, 0, min keep (Spec.wire fs).length, gapsOf d 0 (min keep (Spec.wire fs).length)⟩
      let why :=
        if impl == "ABORT" then "process-aborted"
        else if impl == "TIMEOUT" then "no-answer-within-watchdog"
        else judge os cl false {} (entries impl)
      some { model := m, spec := some why.isEmpty, reason := why }
    | _, _, _, _ => some { model := "BADARGS" }
  | _, _ => none

end Humphrey.Driver.C11
