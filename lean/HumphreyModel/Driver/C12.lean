import HumphreyModel.Driver.Util
import HumphreyModel.Model.WsApp
import HumphreyModel.Spec.WsApp

/-!
Replay for C12. A case is `app|real, scenario` and the implementation's output is
`summary|h4log|execlog|frames|consumed|closed|heartbeat|issued` (see `harness/src/c12.rs`; an output without the
last field, the last two or the last three is accepted). The `issued` field is what the issuers of the server-side
sends wrote down (every handler kind through the `AsyncStream` it is given or through an `AsyncSender`, the
harness through an `AsyncSender`): each call is put through the model of the handle (`Handle.send`,
`Handle.broadcast`, `senderSend`, `senderBroadcast`: queued or panicked - `REJECT-ISSUE@k` when the call went
otherwise), and the spec demands that every send whose call returned before an iteration started was taken from the
channel (`issuedAreFlushed`), nothing more often than issued (`flushedWereIssued`); to whom a taken message goes
is `UnicastOk` / `BroadcastOk` with the clients connected at that flush, and the sockets' frames must be those sends. The heartbeat field is the timeline of the run's clock readings as bounded by
the harness (signs of life of every client, polls survived, timeouts, ping decisions); with the scenario's
`h=<interval>.<timeout>` it is judged by `liveClientKept`, `silentClientTimedOut` and `pingCadenceOk` of
`Spec/WsApp.lean` - the model cannot see these: it takes the clock readings as inputs. The scenario names the handlers the app was built with (`hs=<subset of cmd>`, `-` for none; absent =
all three): that is the configuration `Handlers` of the model. The H4 log is cut into iterations; each
iteration yields the `IterInput` the real loop observed and the effects it produced (dispatches, sends, pings
and removals `x<a>` = `Effect.drop`). The inputs are replayed through `WsApp.stepLoop h`; an iteration whose
effects differ is a disagreement between model and code (`REJECT@k`). The verdict's `model` field is the summary
read off the model's trace followed by the implementation's own logs (so that equality is decided by the
summary); `spec` evaluates the predicates of `Spec/WsApp.lean` on the IMPLEMENTATION's trace — the dispatch
predicates for the registered handlers (none of an unregistered kind), the removal / polling / silence / send
predicates for every configuration, from the loop's own events and the sockets, never from a handler — plus:
frames written to each client = the `sendTo`/`ping` effects for it, the sockets closed while the loop ran = the
streams removed, handlers executed = handlers dispatched (same order with one handler thread), and the messages
dispatched for a client = what its script sent.
-/
namespace Humphrey.Driver.C12
open Humphrey Humphrey.Driver Humphrey.WsApp Humphrey.WsAppSpec

def parseMsg (s : String) : Option Msg :=
  match s.toList with
  | 'T' :: rest => (unhex (String.ofList rest)).map fun p => { text := true, payload := p }
  | 'B' :: rest => (unhex (String.ofList rest)).map fun p => { text := false, payload := p }
  | _ => none

def parseAddrs (s : String) : Option (List Addr) :=
  if s.isEmpty then some [] else (s.splitOn ".").mapM String.toNat?

structure Iter where
  input : IterInput := {}
  effects : List Effect := []
  segs : List (Out × List Effect) := []
  repeats : Nat := 0
  reuse : Bool := false

/-- The iteration being collected. The lists grow at the head (logs of thousands of tokens per iteration): they
are in REVERSE order until `Acc.toIter`. -/
structure Acc where
  keys : List Addr := []
  willPing : Bool := false
  recvs : List (Addr × Recv) := []
  timedOut : List Addr := []
  incoming : List Addr := []
  outgoing : List Out := []
  effects : List Effect := []
  segs : List (Out × List Effect) := []
  repeats : Nat := 0
  reuse : Bool := false

/-- The receive results per polled stream, in key order: one pass over the results when they come grouped by
stream in key order (they do: the loop polls one stream after the other), a filter per key otherwise. -/
def groupRecvs : List Addr → List (Addr × Recv) → Option (List (List Recv))
  | [], [] => some []
  | [], _ :: _ => none
  | k :: ks, rs =>
    let mine := rs.takeWhile (·.1 == k)
    (groupRecvs ks (rs.drop mine.length)).map fun rest => mine.map (·.2) :: rest

def Acc.toIter (a : Acc) : Iter :=
  let recvs := a.recvs.reverse
  let timedOut := a.timedOut
  let results : List (List Recv) := match groupRecvs a.keys recvs with
    | some g => g
    | none => a.keys.map fun k => (recvs.filter (·.1 == k)).map (·.2)
  { input := { shutdown := false, willPing := a.willPing,
               polls := (a.keys.zip results).map fun (k, rs) =>
                 { addr := k, results := rs, timedOut := timedOut.contains k },
               incoming := a.incoming.reverse, outgoing := a.outgoing.reverse },
    effects := a.effects.reverse, segs := a.segs.reverse, repeats := a.repeats, reuse := a.reuse }

/-- One token inside an iteration. -/
def token (a : Acc) (t : String) : Option Acc :=
  match t.toList with
  | 'W' :: ['0'] => some { a with willPing := false }
  | 'W' :: ['1'] => some { a with willPing := true }
  | c :: rest =>
    let parts := (String.ofList rest).splitOn ":"
    match c, parts with
    | 'r', [ad, r] =>
      ad.toNat?.bind fun ad =>
        if !a.keys.contains ad then none else
        let res : Option Recv :=
          if r == "N" then some .none else if r == "E0" || r == "E1" then some .err
          else (parseMsg r).map .msg
        res.map fun res => { a with recvs := (ad, res) :: a.recvs }
    | 'm', [ad, m] =>
      match ad.toNat?, parseMsg m with
      | some ad, some m => some { a with effects := .dispatchMessage ad m :: a.effects }
      | _, _ => none
    | 'd', [ad] => ad.toNat?.map fun ad => { a with effects := .dispatchDisconnect ad :: a.effects }
    | 'c', [ad] => ad.toNat?.map fun ad => { a with effects := .dispatchConnect ad :: a.effects }
    | 'p', [ad] => ad.toNat?.map fun ad => { a with effects := .ping ad :: a.effects }
    | 'x', [ad] => ad.toNat?.map fun ad => { a with effects := .drop ad :: a.effects }
    | 't', [ad] => ad.toNat?.map fun ad => { a with timedOut := ad :: a.timedOut }
    | 'a', [ad, f] => ad.toNat?.map fun ad => { a with incoming := ad :: a.incoming, reuse := a.reuse || f == "1" }
    | 'u', [ad, f, m] =>
      match ad.toNat?, parseMsg m with
      | some ad, some m =>
        let eff : List Effect := if f == "1" then [.sendTo ad (frameOf m)] else []
        some { a with outgoing := .unicast ad m :: a.outgoing, effects := eff.reverse ++ a.effects,
                      segs := (.unicast ad m, eff) :: a.segs }
      | _, _ => none
    | 'b', [ads, m] =>
      match parseAddrs ads, parseMsg m with
      | some ads, some m =>
        let eff : List Effect := ads.map (.sendTo · (frameOf m))
        some { a with outgoing := .broadcast m ads :: a.outgoing, effects := eff.reverse ++ a.effects,
                      segs := (.broadcast m ads, eff) :: a.segs }
      | _, _ => none
    | '*', [n] => n.toNat?.map fun n => { a with repeats := n }
    | _, _ => none
  | [] => none

structure Parsed where
  iters : List Iter := []
  sawShutdown : Bool := false
  exited : Bool := false

/-- The iteration collected in `cur` is over (`iters` is in reverse order while the log is read). -/
def closeIter (cur : Option Acc) (p : Parsed) : Parsed :=
  match cur with
  | some a => { p with iters := a.toIter :: p.iters }
  | none => p

/-- Cut the log into iterations. `cur` = the iteration being collected. A loop with an accumulator: logs have
tens of thousands of tokens. -/
def parseLogAux : List String → Option Acc → Parsed → Option Parsed
  | [], cur, p => some (closeIter cur p)
  | t :: ts, cur, p =>
    if p.sawShutdown then
      if t == "X" && cur.isNone then parseLogAux ts none { p with exited := true } else none
    else match t.toList with
    | 'I' :: rest =>
      match parseAddrs (String.ofList rest) with
      | some ks => parseLogAux ts (some { keys := ks }) (closeIter cur p)
      | none => none
    | ['S'] => parseLogAux ts none { closeIter cur p with sawShutdown := true }
    | _ => match cur with
      | none => none
      | some a => match token a t with
        | some a' => parseLogAux ts (some a') p
        | none => none

def parseLog (ts : List String) (cur : Option Acc) (p : Parsed) : Option Parsed :=
  (parseLogAux ts cur p).map fun q => { q with iters := q.iters.reverse }

def effTok (e : Effect) : String :=
  let m (x : Msg) := (if x.text then "T" else "B") ++ hex x.payload
  match e with
  | .dispatchConnect a => s!"c{a}"
  | .dispatchMessage a x => s!"m{a}:{m x}"
  | .dispatchDisconnect a => s!"d{a}"
  | .sendTo a b => s!"s{a}:{hex b}"
  | .ping a => s!"p{a}"
  | .drop a => s!"x{a}"
  | .exit => "X"
  | .panic => "PANIC"

structure Replay where
  state : AppState := {}
  trace : List Effect := []      -- the model's
  error : Option String := none

def replayIter (h : Handlers) (r : Replay) (k : Nat) (it : Iter) : Replay :=
  if r.error.isSome then r
  else if !InputsOk r.state it.input then { r with error := some s!"INPUTS-NOT-OK@{k}" }
  else
    let (s', e) := stepLoop h r.state it.input
    if e != it.effects then
      { r with error := some s!"REJECT@{k}:{" ".intercalate (e.map effTok)}" }
    else if it.repeats > 0 && (e != [] || s' != r.state) then
      { r with error := some s!"REJECT-REPEAT@{k}" }
    else { state := s', trace := r.trace ++ e }

def replayAll (h : Handlers) (its : List Iter) : Replay :=
  ((its.zipIdx).foldl (fun r (p : Iter × Nat) => replayIter h r p.2 p.1) {})

def isDispatch : Effect → Bool
  | .dispatchConnect _ | .dispatchMessage _ _ | .dispatchDisconnect _ => true
  | _ => false

def isSend : Effect → Bool
  | .sendTo _ _ => true
  | _ => false

def isPing : Effect → Bool
  | .ping _ => true
  | _ => false

def summaryOf (T : List Effect) : String :=
  let head := if T.getLast? == some .exit then "returned" else "running"
  s!"{head};exec={(T.filter isDispatch).length};data={(T.filter isSend).length};pings={(T.filter isPing).length}"

/-! ### The scenario (for what the clients' scripts sent) -/

structure Script where
  msgs : List Msg
  /-- the script ends with Close, a reserved opcode or a truncated frame -/
  ends : Bool

def parseSimpleItem (acc : Script) (s : String) : Script :=
  if acc.ends then acc else
  match s.toList with
  | 'T' :: _ | 'B' :: _ => match parseMsg s with
    | some m => { acc with msgs := acc.msgs ++ [m] }
    | none => acc
  | 'f' :: rest | 'g' :: rest | 'o' :: rest =>
    match parseMsg (String.ofList (rest.dropWhile Char.isDigit)) with
    | some m => { acc with msgs := acc.msgs ++ [m] }
    | none => acc
  | 'C' :: _ | ['G'] | ['R'] => { acc with ends := true }
  | _ => acc

/-- An item of a client's script; `<n>x<item>+<item>…` = those items n times over. -/
def parseItem (acc : Script) (s : String) : Script :=
  if acc.ends then acc else
  match s.toList with
  | c :: _ =>
    if c.isDigit then
      match s.splitOn "x" with
      | [n, items] =>
        let sub := (items.splitOn "+").foldl parseSimpleItem { msgs := [], ends := false }
        let k := n.toNat?.getD 0
        { msgs := acc.msgs ++ (List.replicate k sub.msgs).flatten, ends := sub.ends && k != 0 }
      | _ => acc
    else parseSimpleItem acc s
  | [] => acc

def scnFields (scn : String) : List (String × String) :=
  (scn.splitOn ";").map fun f => match f.splitOn "=" with
    | [a, b] => (a, b)
    | _ => ("", "")

/-- The handlers the app of the scenario was built with: `hs=` followed by a subset of the letters `c`, `m`, `d`
(`-` for none); a scenario without the field (older case lines) has all three. -/
def parseHandlers (scn : String) : Handlers :=
  match (scnFields scn).lookup "hs" with
  | none => {}
  | some v => { connect := v.contains 'c', message := v.contains 'm', disconnect := v.contains 'd' }

def parseScripts (scn : String) : List Script × Nat :=
  let kv := scnFields scn
  let threads := ((kv.lookup "t").bind String.toNat?).getD 0
  match kv.lookup "cl" with
  | none => ([], threads)
  | some cl =>
    ((cl.splitOn "/").map fun c =>
      if c == "-" then { msgs := [], ends := false }
      else (c.splitOn ",").foldl parseItem { msgs := [], ends := false }, threads)

/-! ### Judging the implementation -/

def parseFrames (s : String) : Option (List (Addr × List Bytes)) :=
  if s.isEmpty then some [] else
  (s.splitOn ",").mapM fun e => match e.splitOn "=" with
    | [a, ws] => match a.toNat?, (ws.splitOn ".").mapM unhex with
      | some a, some ws => some (a, ws)
      | _, _ => none
    | _ => none

def opcodeOf (w : Bytes) : Nat := match w with
  | b :: _ => b.toNat % 16
  | [] => 99

def parseExec (s : String) : Option (List Effect) :=
  if s.isEmpty then some [] else
  ((s.splitOn " ").filter (!·.isEmpty)).mapM fun t =>
    match token {} t with
    | some a => a.effects.head?
    | none => none

/-- Do the two lists hold the same effects the same number of times? (Each effect is named by its token; the
sorted token lists are compared.) -/
def sameMultiset (xs ys : List Effect) : Bool :=
  let key (l : List Effect) := (l.map effTok).mergeSort (fun a b => decide (a ≤ b))
  key xs == key ys

/-- No address twice (`List.Nodup`, decided by sorting: runs have up to a thousand clients). -/
@[noinline] def distinctAddrs (l : List Addr) : Bool :=
  let s := l.mergeSort (fun a b => decide (a ≤ b))
  (s.zip (s.drop 1)).all fun (a, b) => a != b

def firstFail (checks : List (String × Bool)) : Option String :=
  (checks.find? (!·.2)).map (·.1)

def parseIds (s : String) : List Nat :=
  if s.isEmpty then [] else (s.splitOn ",").filterMap String.toNat?

/-! ### The heartbeat timeline (7th field of the output, see `harness/src/c12.rs`) -/

def parseSpan (s : String) : Option (Nat × Nat) :=
  match s.splitOn "-" with
  | [a, b] => match a.toNat?, b.toNat? with
    | some a, some b => some (a, b)
    | _, _ => none
  | _ => none

def parseHbEv (s : String) : Option HbEv :=
  match s.toList with
  | 'L' :: r => (parseSpan (String.ofList r)).map fun (lo, hi) => .life lo hi
  | 'A' :: r => (String.ofList r).toNat?.map .alive
  | 'T' :: r => (String.ofList r).toNat?.map .timedOut
  | _ => none

def parsePingEv (s : String) : Option PingEv :=
  match s.toList with
  | 'P' :: r => (parseSpan (String.ofList r)).map fun (i, t) => .pinged i t
  | 'Q' :: r => (String.ofList r).toNat?.map .notPinged
  | _ => none

def dotted {α} (f : String → Option α) (s : String) : Option (List α) :=
  if s.isEmpty then some [] else (s.splitOn ".").mapM f

structure HbLog where
  pings : List PingEv := []
  clients : List (Addr × List HbEv) := []

def parseHb (s : String) : Option HbLog :=
  if s.isEmpty then some {} else
  (s.splitOn ";").foldlM (fun (acc : HbLog) part => match part.splitOn "=" with
    | ["w", v] => (dotted parsePingEv v).map fun w => { acc with pings := w }
    | [a, v] => match a.toNat?, dotted parseHbEv v with
      | some a, some evs => some { acc with clients := acc.clients ++ [(a, evs)] }
      | _, _ => none
    | _ => none) {}

/-- `h=<interval ms>.<timeout ms>` of the scenario, in ns (the unit of the timeline). -/
def parseHeartbeat (scn : String) : Option (Nat × Nat) :=
  match (scnFields scn).lookup "h" with
  | some v => match v.splitOn "." with
    | [i, t] => match i.toNat?, t.toNat? with
      | some i, some t => some (i * 1000000, t * 1000000)
      | _, _ => none
    | _ => none
  | none => none

/-! ### The sends as their issuers saw them (8th field of the output) -/

/-- One entry of the `issued` field: the handle the call went through, what was handed over, how the call ended. -/
structure IssueRec where
  /-- `some h`: through the `AsyncStream` given to a handler; `none`: through an `AsyncSender` -/
  handle : Option Handle
  issue : Issue
  msg : Msg
  /-- the addressee of a unicast -/
  target : Option Addr
  panicked : Bool

def outTok : Out → String
  | .unicast a m => s!"u{a}:{(if m.text then "T" else "B") ++ hex m.payload}"
  | .broadcast m _ => s!"b{(if m.text then "T" else "B") ++ hex m.payload}"

def parseIssue (t : String) : Option IssueRec :=
  match t.splitOn ":" with
  | k :: who :: op =>
    let stamp : Option (Option Nat) := if k == "-" then some none else k.toNat?.map some
    let handle : Option (Option Handle) := match who.toList with
      | ['e'] => some none
      | c :: r =>
        (String.ofList r).toNat?.bind fun a =>
          if c == 'c' || c == 'm' then some (some { addr := a, connected := true })
          else if c == 'd' then some (some { addr := a, connected := false })
          else if c == 'C' || c == 'M' || c == 'D' then some none
          else none
      | [] => none
    match stamp, handle, op with
    | some stamp, some handle, [u, m] =>
      match u.toList with
      | c :: r =>
        if c == 'u' || c == 'U' then
          match (String.ofList r).toNat?, parseMsg m with
          | some a, some m =>
            -- through a disconnected stream, to the client that has gone
            let toGone := match handle with
              | some hd => !hd.connected && hd.addr == a
              | none => false
            some { handle := handle, issue := { stamp := stamp, out := .unicast a m, toGone := toGone }, msg := m,
                   target := some a, panicked := c == 'U' }
          | _, _ => none
        else none
      | [] => none
    | some stamp, some handle, [b] =>
      match b.toList with
      | c :: r =>
        if c == 'b' || c == 'B' then
          (parseMsg (String.ofList r)).map fun m =>
            { handle := handle, issue := { stamp := stamp, out := .broadcast m [] }, msg := m, target := none,
              panicked := c == 'B' }
        else none
      | [] => none
    | _, _, _ => none
  | _ => none

def parseIssued (s : String) : Option (List IssueRec) :=
  ((s.splitOn " ").filter (!·.isEmpty)).mapM parseIssue

/-- The model of the call: what it puts into the channel, or a panic. -/
def IssueRec.model (r : IssueRec) : Enq :=
  match r.handle, r.target with
  | some hd, some _ => hd.send r.msg
  | some hd, none => hd.broadcast r.msg
  | none, some a => senderSend a r.msg
  | none, none => senderBroadcast r.msg

/-- What the issuer saw: the call returned (the message it handed over is then in the channel) or panicked. -/
def IssueRec.seen (r : IssueRec) : Enq := if r.panicked then .panic else .queued [r.issue.out]

/-- The first call that went otherwise than the model's (a unicast through a stream goes to that stream's client).
How a call ended that had not returned when the logs were collected (no stamp) is not known. -/
def issueMismatch (rs : List IssueRec) : Option String :=
  ((rs.zipIdx).find? fun (r, _) => r.issue.stamp.isSome && r.model != r.seen).map fun (r, k) =>
    s!"REJECT-ISSUE@{k}:{match r.model with | .panic => "PANIC" | .queued o => " ".intercalate (o.map outTok)}"

def judge (isReal : Bool) (scn : String) (p : Parsed) (summary exec frames consumed : String)
    (closed hb : Option String) (issued : Option (List IssueRec)) : Option Bool × String :=
  let h := parseHandlers scn
  let its := p.iters
  let inputs : List IterInput := its.map (·.input) ++ (if p.sawShutdown then [{ shutdown := true }] else [])
  let T : List Effect := its.flatMap (·.effects) ++ (if p.exited then [.exit] else [])
  let adm := admitted inputs
  let reuse : Bool := its.any (·.reuse) || !distinctAddrs adm
  if reuse then (none, "address-reuse") else
  let addrs := (adm ++ its.flatMap (fun it => it.input.polls.map (·.addr)) ++
                its.flatMap (fun it => it.input.outgoing.filterMap fun o => match o with
                  | .unicast a _ => some a | _ => none)).eraseDups
  match parseFrames frames, parseExec exec with
  | none, _ => (some false, "bad-frames-field")
  | _, none => (some false, "bad-exec-field")
  | some fr, some ex =>
    let perClient : List (String × Bool) := addrs.flatMap fun a =>
      [ -- for every configuration, from the loop's own events
        (s!"removed_once_then_silence:{a}",
          if closings a inputs == 0 then T.count (.drop a) == 0
          else closings a inputs == 1 && decide (RemovedOnceThenSilence a T)),
        (s!"closed_client_not_polled_again:{a}", notPolledAfterClose a (executed inputs)),
        (s!"never_admitted_silent:{a}", adm.contains a || decide (Silent a T)),
        -- for the registered handlers (no dispatch of an unregistered kind)
        (s!"connect_once_before_messages:{a}",
          if h.connect && adm.contains a then decide (ConnectOnceBeforeMessages a T)
          else T.count (.dispatchConnect a) == 0),
        (s!"message_once_in_order:{a}",
          if h.message then decide (MessagesOnceInOrder a inputs T) else (T.filterMap (msgOf a)).isEmpty),
        (s!"disconnect_once_then_silence:{a}",
          if !h.disconnect || closings a inputs == 0 then T.count (.dispatchDisconnect a) == 0
          else closings a inputs == 1 && decide (DisconnectOnceThenSilence a T)),
        (s!"frames_eq_sends:{a}",
          let ws := ((fr.lookup a).getD [])
          (ws.filter fun w => opcodeOf w == 1 || opcodeOf w == 2) ==
            T.filterMap (fun e => match e with | .sendTo b bytes => if b == a then some bytes else none | _ => none)
          && (ws.filter fun w => opcodeOf w == 9).length == T.count (.ping a)) ]
    -- per outgoing message, with the clients connected at that flush
    let flushes : List (String × Bool) :=
      (its.foldl (fun (acc : List Addr × List (String × Bool) × Nat) it =>
        let live := liveAtFlush acc.1 it.input
        let cs := it.segs.map fun (o, seg) => match o with
          | .unicast a m => (s!"unicast_only_addressee@{acc.2.2}:{a}", decide (UnicastOk live a m seg))
          | .broadcast m _ => (s!"broadcast_each_connected_once@{acc.2.2}", decide (BroadcastOk live m seg))
        (live, acc.2.1 ++ cs, acc.2.2 + 1)) ([], [], 0)).2.1
    let D := T.filter isDispatch
    let (scripts, threads) := parseScripts scn
    let cons := parseIds consumed
    -- what the app received from a client (its poll results), whether or not a message handler exists
    let recvd (c : Addr) : List Msg := received c inputs
    let scriptChecks : List (String × Bool) :=
      if isReal then [] else
      (scripts.zipIdx).flatMap fun (sc, c) =>
        let got := recvd c
        [ (s!"script_messages:{c}",
            if cons.contains c then got == sc.msgs else got.isPrefixOf sc.msgs),
          (s!"script_removed:{c}",
            !(cons.contains c && sc.ends) || T.count (.drop c) == 1),
          (s!"script_disconnect:{c}",
            !(cons.contains c && sc.ends && h.disconnect) || T.count (.dispatchDisconnect c) == 1) ]
    -- the scripted sockets closed (stream dropped) while the loop was running = the streams removed
    let socketChecks : List (String × Bool) :=
      match isReal, closed with
      | false, some cl =>
        let cl := parseIds cl
        (addrs ++ cl).eraseDups.map fun a => (s!"socket_closed_iff_removed:{a}", cl.contains a == (T.count (.drop a) != 0))
      | _, _ => []
    -- the heartbeat, from the clock bounds of the run: live clients are kept, silent ones are timed out, pings
    -- are `interval` apart; a client that is timed out has a timeline
    let heartbeatChecks : List (String × Bool) :=
      match isReal, parseHeartbeat scn, hb with
      | false, some (interval, timeout), some hb =>
        match parseHb hb with
        | none => [("bad-heartbeat-field", false)]
        | some l =>
          [ ("heartbeat_ping_cadence", pingCadenceOk interval none l.pings) ] ++
          (l.clients.flatMap fun (a, evs) =>
            [ (s!"heartbeat_live_client_kept:{a}", liveClientKept timeout none evs),
              (s!"heartbeat_silent_client_timed_out:{a}", silentClientTimedOut timeout none evs),
              (s!"heartbeat_timeouts_observed:{a}",
                (evs.filter fun e => match e with | .timedOut _ => true | _ => false).length ==
                  (its.map fun it => (it.input.polls.filter fun q => q.addr == a && q.timedOut).length).sum) ]) ++
          (addrs.filter fun a => !(l.clients.any (·.1 == a))).map fun a =>
            (s!"heartbeat_timeline_missing:{a}",
              (its.all fun it => it.input.polls.all fun q => q.addr != a || !q.timedOut))
      | false, none, _ =>
        -- without a heartbeat nobody is pinged or timed out
        [ ("no_heartbeat_no_ping", T.all (!isPing ·)),
          ("no_heartbeat_no_timeout", its.all fun it => !it.input.willPing && it.input.polls.all (!·.timedOut)) ]
      | _, _, _ => []
    -- whoever issued a send: taken from the channel once its call had returned before an iteration started
    let issueChecks : List (String × Bool) :=
      match issued with
      | none => []
      | some rs =>
        let iss := rs.filter (!·.panicked) |>.map (·.issue)
        let n := (its.map fun it => it.repeats + 1).sum
        let taken := takenOut inputs
        let due := ((iss.filter (·.due n)).map fun i => normOut i.out).eraseDups
        (due.map fun o => (s!"issued_are_flushed:{outTok o}", issuedOutFlushed n iss taken o)) ++
        [ ("issued_are_flushed", issuedAreFlushed n iss taken),
          ("flushed_were_issued", flushedWereIssued iss taken) ]
    let checks : List (String × Bool) :=
      [ ("wedged", !summary.startsWith "WEDGED" && summary.startsWith "returned"),
        ("shutdown_returns", !p.sawShutdown || (p.exited && decide (ExitsLast T))) ] ++
      perClient ++ heartbeatChecks ++ flushes ++ issueChecks ++ socketChecks ++
      [ ("executed_eq_dispatched", sameMultiset D ex),
        ("one_thread_execution_order", threads != 1 || ex == D) ] ++ scriptChecks
    match firstFail checks with
    | some r => (some false, r)
    | none => (some true, "")

def dispatch (fn : String) (args : List String) (impl : String) : Option Verdict :=
  match fn, args with
  | "app", [scn] | "real", [scn] =>
    let fields : Option (String × String × String × String × String × Option String × Option String ×
        Option String) :=
      match impl.splitOn "|" with
      | [summary, log, exec, frames, consumed] => some (summary, log, exec, frames, consumed, none, none, none)
      | [summary, log, exec, frames, consumed, closed] =>
        some (summary, log, exec, frames, consumed, some closed, none, none)
      | [summary, log, exec, frames, consumed, closed, hb] =>
        some (summary, log, exec, frames, consumed, some closed, some hb, none)
      | [summary, log, exec, frames, consumed, closed, hb, issued] =>
        some (summary, log, exec, frames, consumed, some closed, some hb, some issued)
      | _ => none
    match fields with
    | some (summary, log, exec, frames, consumed, closed, hb, issued) =>
      match (match issued with | some s => (parseIssued s).map some | none => some none) with
      | none => some { model := "BADISSUED", spec := some false, reason := "bad-issued-field" }
      | some issuedRecs =>
      let h := parseHandlers scn
      let toks := (log.splitOn " ").filter (!·.isEmpty)
      match parseLog toks none {} with
      | none => some { model := "BADLOG", spec := some false, reason := "bad-log" }
      | some p =>
        let r := replayAll h p.iters
        let tail := s!"|{log}|{exec}|{frames}|{consumed}" ++ (match closed with | some c => s!"|{c}" | none => "") ++
          (match hb with | some c => s!"|{c}" | none => "") ++ (match issued with | some c => s!"|{c}" | none => "")
        let (spec, reason) := judge (fn == "real") scn p summary exec frames consumed closed hb issuedRecs
        match r.error.orElse (fun _ => issuedRecs.bind issueMismatch) with
        | some e => some { model := e, spec := spec, reason := reason }
        | none =>
          let T := if p.sawShutdown then (runLoop h r.state [{ shutdown := true }]).2 else []
          let T := r.trace ++ (if p.exited then T else [])
          some { model := summaryOf T ++ tail, spec := spec, reason := reason }
    | none => some { model := "BADOUT", spec := some false, reason := "bad-output" }
  | _, _ => none

end Humphrey.Driver.C12
