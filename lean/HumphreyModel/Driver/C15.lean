import HumphreyModel.Driver.Util
import HumphreyModel.Model.Conf

/-
Driver for C15. One case = one configuration file plus the files reachable by `include` /
the blacklist file:

  conf <TAB> hex(main text) <TAB> hex(file name) { <TAB> hex(path) <TAB> t<hex(text)> | u } <TAB> impl

Canonical output (also produced by `harness/src/c15.rs`):
  PANIC
  E:<hex file>:<line>:<kind>                      syntax error of `parse_conf`
  T:<tree>|V:<kind>                               tree, then validation error of `from_tree`
  T:<tree>|C:<config>                             tree and configuration
-/
namespace Humphrey.Driver.C15
open Humphrey Humphrey.Driver Humphrey.Conf

def hx (s : Str) : String := hex (strBytes (String.ofList s))

def sepBy (sep : String) : List String → String
  | [] => ""
  | [a] => a
  | a :: r => a ++ sep ++ sepBy sep r

mutual
def showNode : Node → String
  | .number k v => "n(" ++ hx k ++ "," ++ hx v ++ ")"
  | .boolean k v => "b(" ++ hx k ++ "," ++ hx v ++ ")"
  | .string k v => "s(" ++ hx k ++ "," ++ hx v ++ ")"
  | .section n cs => "S(" ++ hx n ++ ")[" ++ sepBy ";" (showNodes cs) ++ "]"
  | .host n cs => "H(" ++ hx n ++ ")[" ++ sepBy ";" (showNodes cs) ++ "]"
  | .route n cs => "R(" ++ hx n ++ ")[" ++ sepBy ";" (showNodes cs) ++ "]"
def showNodes : List Node → List String
  | [] => []
  | n :: ns => showNode n :: showNodes ns
end

def errKind : ErrKind → String
  | .noServer => "noserver"
  | .syntaxErr => "syntax"
  | .badValue => "value"
  | .badInclude => "include"
  | .eof => "eof"
  | .readInclude => "readinclude"
  | .openInclude => "openinclude"
  | .badHostName => "hostname"
  | .tooDeep => "depth"

def cfgErr : CfgErr → String
  | .port => "port" | .threads => "threads" | .timeout => "timeout" | .threadsZero => "threads0"
  | .listOpen => "listopen" | .listRead => "listread" | .listIp => "listip"
  | .blacklistMode => "blmode" | .logLevel => "loglevel" | .logConsole => "logconsole"
  | .cacheSize => "cachesize" | .cacheTime => "cachetime" | .lbMode => "lbmode"
  | .routeTarget => "routetarget"

def opt (o : Option Str) : String := match o with | none => "-" | some s => "+" ++ hx s

def showRoute (r : RouteConfig) : String :=
  let t := match r.routeType with
    | .file => "file" | .directory => "dir" | .proxy => "proxy" | .redirect => "redirect"
    | .exclusiveWebSocket => "ws"
  let lb := match r.loadBalancer with
    | none => "-"
    | some (ts, .roundRobin) => "rr(" ++ sepBy "," (ts.map hx) ++ ")"
    | some (ts, .random) => "rnd(" ++ sepBy "," (ts.map hx) ++ ")"
  t ++ "/" ++ hx r.matches_ ++ "/" ++ opt r.path ++ "/" ++ lb ++ "/" ++ opt r.websocketProxy

def showHost (h : HostConfig) : String :=
  hx h.matches_ ++ "{" ++ sepBy ";" (h.routes.map showRoute) ++ "}"

def showConfig (c : Config) : String :=
  let lvl := match c.logLevel with | .error => "error" | .warn => "warn" | .info => "info" | .debug => "debug"
  let bm := match c.blacklistMode with | .block => "block" | .forbidden => "forbidden"
  let tmo := match c.connectionTimeout with | none => "-" | some n => toString n
  "addr=" ++ hx c.address ++ " port=" ++ toString c.port ++ " threads=" ++ toString c.threads ++
  " ws=" ++ opt c.defaultWebsocketProxy ++ " timeout=" ++ tmo ++
  " bl=[" ++ sepBy "," (c.blacklist.map String.ofList) ++ "] blmode=" ++ bm ++
  " log=" ++ lvl ++ "," ++ boolStr c.logConsole ++ "," ++ opt c.logFile ++
  " cache=" ++ toString c.cacheSize ++ "," ++ toString c.cacheTime ++
  " default=" ++ showHost c.defaultHost ++ " hosts=[" ++ sepBy "," (c.hosts.map showHost) ++ "]"

/-- `path, content` pairs → file system. -/
def mkFs : List String → Option (List (Str × FileRes))
  | [] => some []
  | [_] => none
  | p :: c :: rest =>
    match (unhex p).bind utf8?, mkFs rest with
    | some p, some r =>
      if c == "u" then some ((p.toList, .unreadable) :: r)
      else if c.startsWith "t" then
        match (unhex (c.drop 1).toString).bind utf8? with
        | some t => some ((p.toList, .text t.toList) :: r)
        | none => none
      else none
    | _, _ => none

def lookupFs (l : List (Str × FileRes)) (p : Str) : FileRes :=
  match l with
  | [] => .missing
  | (q, r) :: l' => if q = p then r else lookupFs l' p

def run (fs : FS) (conf name : Str) : String :=
  match parseConf fs conf name with
  | .panic => "PANIC"
  | .err e => "E:" ++ hx e.file ++ ":" ++ toString e.line ++ ":" ++ errKind e.kind
  | .ok tree =>
    "T:" ++ showNode tree ++ "|" ++
      (match fromTree fs tree with
       | .panic => "PANIC"
       | .err e => "V:" ++ cfgErr e
       | .ok c => "C:" ++ showConfig c)

def dispatch (fn : String) (args : List String) (impl : String) : Option Verdict :=
  match fn, args with
  | "conf", main :: name :: files =>
    match (unhex main).bind utf8?, (unhex name).bind utf8?, mkFs files with
    | some main, some name, some fl =>
      let m := run (lookupFs fl) main.toList name.toList
      -- the model is the repaired code; C15 is proved of the model (Props/C15.lean), so any
      -- other answer of the implementation on these generated files and mutants violates C15
      some { model := m, spec := some (impl == m) }
    | _, _, _ => some { model := "BADARGS" }
  | _, _ => none

end Humphrey.Driver.C15
