/-
Plumbing for the line-protocol driver: hex, UTF-8, field splitting. Nothing here is part of
any proof; the driver only detects drift between the models and the implementation.
-/
namespace Humphrey.Driver

abbrev Bytes := List UInt8

def hexVal (c : Char) : Option UInt8 :=
  if '0' ≤ c ∧ c ≤ '9' then some (c.toNat - '0'.toNat).toUInt8
  else if 'a' ≤ c ∧ c ≤ 'f' then some (c.toNat - 'a'.toNat + 10).toUInt8
  else if 'A' ≤ c ∧ c ≤ 'F' then some (c.toNat - 'A'.toNat + 10).toUInt8
  else none

def unhexAux : List Char → Bytes → Option Bytes
  | [], acc => some acc.reverse
  | [_], _ => none
  | a :: b :: rest, acc =>
    match hexVal a, hexVal b with
    | some x, some y => unhexAux rest ((x <<< 4 ||| y) :: acc)
    | _, _ => none

def unhex (s : String) : Option Bytes := unhexAux s.toList []

def hexDigit (n : UInt8) : Char :=
  if n < 10 then Char.ofNat (n.toNat + '0'.toNat) else Char.ofNat (n.toNat - 10 + 'a'.toNat)

def hex (b : Bytes) : String :=
  String.ofList (b.foldr (fun (x : UInt8) acc => hexDigit (x >>> 4) :: hexDigit (x &&& 15) :: acc) [])

def utf8? (b : Bytes) : Option String := String.fromUTF8? (ByteArray.mk b.toArray)

def strBytes (s : String) : Bytes := s.toUTF8.toList

def boolStr (b : Bool) : String := if b then "1" else "0"

/-- Result of one case: the model's canonical output and, where a decidable spec predicate is
available, its verdict on the *implementation's* output (`none` = not judged here). -/
structure Verdict where
  model : String
  spec : Option Bool := none
  /-- which clause of the property failed (used to match known findings) -/
  reason : String := ""

end Humphrey.Driver
