import HumphreyModel.Driver.Util
import HumphreyModel.Model.Auth
import HumphreyModel.Spec.Auth

/-!
Driver for C17. One case = one whole operation sequence.

`seq <TAB> cfg <TAB> init <TAB> ops <TAB> impl-output`
* `cfg`  = `pepper,defaultLifetime,defaultRefreshLifetime,now0` (decimal; pepper 0 = none): the configuration
  `AuthConfig::default().with_default_lifetime(..).with_default_refresh_lifetime(..)[.with_pepper(..)]` handed to
  `with_config` once; `init` hashed with the same pepper.

`seqb <TAB> build <TAB> initPepper,now0 <TAB> init <TAB> ops <TAB> impl-output`: the same with the SET-UP CODE spelled
out. `build` = `-` or `,`-separated calls in the order they are made on `let mut cfg = AuthConfig::default(); let mut
provider = AuthProvider::new(users)`: `dl:n` `rl:n` `pp:n` (`cfg = cfg.with_default_lifetime(n)` / `…refresh_lifetime`
/ `with_pepper(pepper-n)`, n >= 1), `nc` (`cfg = AuthConfig::default()`), `cc` (`cfg = cfg.clone()`), `wc` (`provider
= provider.with_config(cfg.clone())`), `pd` (first only: `provider = AuthProvider::default()`). `initPepper` = the
pepper the `init` users were hashed with outside the provider (0 = none).
* `init` = `-` or `uid:pw,uid:pw,…` users present before the first operation (hashed with `cfg.pepper`)
* `ops`  = `;`-separated: `cu:pw:U` `ru:u` `vf:u:pw` `ex:u` `cs:u:T` `cl:u:lifetime:T` `rf:t` `is:t` `iu:u`
           `gt:t` `ar:t` / `ar:-` (no cookie) and `tk:d` (advance the clock by `d`).
  Uids / tokens are small indices (order of first appearance in the real run); `U`/`T` are the indices the
  harness gave to the uid / token the real code drew at that point. An index that was never issued is an unknown
  uid / token (`900..` fixed strings, `10000 + 1000*b + c` = near-miss `c` of the real value `b`).
  A password field `pw` is `x` + lower-case hex of the bytes handed to the real code (or, in lines written before
  that, a decimal index into the harness's small pool). Passwords are compared as these fields: the encoding is
  injective, so equal field = equal password. (The two spellings are never mixed in one generated line.)
* output = per step `out/exists-bits/token-owners`, joined by `;`, then `#fmt=ok`.

`pepper2 <TAB> pw <TAB> pw' <TAB> pep <TAB> pep' <TAB> impl` : `User::create(pw, pep).verify(pw', pep')` (decimal indices).
`hashc <TAB> pw <TAB> pep <TAB> pw'1:pep'1,pw'2:pep'2,… <TAB> impl` : `User::create(pw, pep)` once, then
`verify(pw'i, pep'i)` for every pair; output one `0`/`1` per pair. Pepper field: `0` = none, `x<hex>` = those bytes.
-/
namespace Humphrey.Driver.C17
open Humphrey Humphrey.Driver Humphrey.Auth

/-- Executable hash scheme for the driver: the "hash" stores password, salt and pepper. -/
def hsExecG (P Pep : Type) [BEq P] [BEq Pep] : HashScheme P Nat Pep (P × Nat × Pep) where
  hash p s pep := (p, s, pep)
  verify h p pep := h.1 == p && h.2.2 == pep

/-- Passwords are the fields of the case line (see the header). -/
abbrev Pw := String

def hsExec : HashScheme Pw Nat Nat (Pw × Nat × Nat) := hsExecG Pw Nat

abbrev MOp := Op Nat Nat Pw Nat
abbrev MOut := Out Nat Nat

def lowerHex (c : Char) : Bool := ('0' ≤ c ∧ c ≤ '9') ∨ ('a' ≤ c ∧ c ≤ 'f')

/-- `x` + an even number of lower-case hex digits. -/
def hexField (s : String) : Bool :=
  match s.toList with
  | 'x' :: rest => rest.length % 2 == 0 && rest.all lowerHex
  | _ => false

/-- A well-formed password field. -/
def pwField (s : String) : Option Pw :=
  if hexField s || s.toNat?.isSome then some s else none

/-- A well-formed pepper field (`x` alone, the empty pepper, is not used: Argon2 does not tell it from none). -/
def pepField (s : String) : Option String :=
  if (hexField s && s != "x") || s.toNat?.isSome then some s else none

inductive Item
  | op (o : MOp)
  | tick (d : Nat)

def nats (s : String) (sep : String) : Option (List Nat) :=
  (s.splitOn sep).mapM (fun x => x.toNat?)

def parseItem (s : String) : Option Item :=
  match s.splitOn ":" with
  | ["cu", p, u] => do some (.op (.createUser (← pwField p) 0 (← u.toNat?)))
  | ["ru", u] => do some (.op (.removeUser (← u.toNat?)))
  | ["vf", u, p] => do some (.op (.verify (← u.toNat?) (← pwField p)))
  | ["ex", u] => do some (.op (.userExists (← u.toNat?)))
  | ["cs", u, t] => do some (.op (.createSession (← u.toNat?) (← t.toNat?)))
  | ["cl", u, l, t] => do some (.op (.createSessionWithLifetime (← u.toNat?) (← l.toNat?) (← t.toNat?)))
  | ["rf", t] => do some (.op (.refreshSession (← t.toNat?)))
  | ["is", t] => do some (.op (.invalidateSession (← t.toNat?)))
  | ["iu", u] => do some (.op (.invalidateUserSession (← u.toNat?)))
  | ["gt", t] => do some (.op (.getUidByToken (← t.toNat?)))
  | ["ar", "-"] => some (.op (.authRoute none))
  | ["ar", t] => do some (.op (.authRoute (some (← t.toNat?))))
  | ["tk", d] => do some (.tick (← d.toNat?))
  | _ => none

def errStr : AuthError → String
  | .genericError => "GenericError"
  | .userNotFound => "UserNotFound"
  | .userAlreadyExists => "UserAlreadyExists"
  | .invalidToken => "InvalidToken"
  | .sessionAlreadyExists => "SessionAlreadyExists"

def outStr : MOut → String
  | .unit => "ok"
  | .bool b => boolStr b
  | .uid u => s!"u{u}"
  | .tok t => s!"t{t}"
  | .err e => "E:" ++ errStr e
  | .panic => "PANIC"
  | .http200 u => s!"200:u{u}"
  | .http401 => "401"

/-- Counters of uids / tokens that exist in the real run after an operation with this output. -/
def bump (o : MOp) (out : MOut) (nU nT : Nat) : Nat × Nat :=
  match o, out with
  | .createUser _ _ u, .uid _ => (max nU (u + 1), nT)
  | _, .tok t => (nU, max nT (t + 1))
  | _, _ => (nU, nT)

def obsStr (ex : Nat → Bool) (owner : Nat → Option Nat) (nU nT : Nat) : String :=
  let bits := String.ofList ((List.range nU).map (fun u => if ex u then '1' else '0'))
  let owners := ",".intercalate ((List.range nT).map (fun t =>
    match owner t with | some u => toString u | none => "-"))
  s!"/{bits}/{owners}"

abbrev MDb := Db Nat Nat (Pw × Nat × Nat)

def ownerM (db : MDb) (now : Nat) (t : Nat) : Option Nat :=
  match getUidByToken db t now with
  | .uid u => some u
  | _ => none

/-- Replay through the model. -/
def runModel (cfg : Config Nat) : MDb → Nat → Nat → Nat → List Item → List String → List String
  | _, _, _, _, [], acc => acc.reverse
  | db, now, nU, nT, .tick d :: rest, acc =>
    let now := now + d
    runModel cfg db now nU nT rest (("-" ++ obsStr (userExists db) (ownerM db now) nU nT) :: acc)
  | db, now, nU, nT, .op o :: rest, acc =>
    let r := step hsExec cfg db o now
    let (nU, nT) := bump o r.2 nU nT
    runModel cfg r.1 now nU nT rest ((outStr r.2 ++ obsStr (userExists r.1) (ownerM r.1 now) nU nT) :: acc)

/-- The specification's passwords: what has to be presented for a user is the password TOGETHER WITH the pepper it
was hashed under (the hash contract: `verify` succeeds iff both are equal). A user put into the database from outside
carries the pepper it was hashed with there; the provider presents its configured pepper. -/
abbrev SPw := Pw × Nat

abbrev SState := Spec.State Nat Nat SPw

def specOp (pep : Nat) : MOp → Op Nat Nat SPw Nat
  | .createUser p s u => .createUser (p, pep) s u
  | .removeUser u => .removeUser u
  | .verify u p => .verify u (p, pep)
  | .userExists u => .userExists u
  | .createSession u t => .createSession u t
  | .createSessionWithLifetime u l t => .createSessionWithLifetime u l t
  | .refreshSession t => .refreshSession t
  | .invalidateSession t => .invalidateSession t
  | .invalidateUserSession u => .invalidateUserSession u
  | .getUidByToken t => .getUidByToken t
  | .authRoute c => .authRoute c

/-- Replay through the abstract specification (`pep` = the pepper the provider is configured with). -/
def runSpec (dl rl pep : Nat) : SState → Nat → Nat → Nat → List Item → List String → List String
  | _, _, _, _, [], acc => acc.reverse
  | a, now, nU, nT, .tick d :: rest, acc =>
    let now := now + d
    runSpec dl rl pep a now nU nT rest
      (("-" ++ obsStr (fun u => (a.pw u).isSome) (Spec.live a now) nU nT) :: acc)
  | a, now, nU, nT, .op o :: rest, acc =>
    let r := Spec.step dl rl a (specOp pep o) now
    let (nU, nT) := bump o r.2 nU nT
    runSpec dl rl pep r.1 now nU nT rest
      ((outStr r.2 ++ obsStr (fun u => (r.1.pw u).isSome) (Spec.live r.1 now) nU nT) :: acc)

def parseInit (s : String) : Option (List (Nat × Pw)) :=
  if s == "-" then some []
  else (s.splitOn ",").mapM (fun x =>
    match x.splitOn ":" with
    | [u, p] => do some ((← u.toNat?), (← pwField p))
    | _ => none)

def parseTries (s : String) : Option (List (Pw × String)) :=
  (s.splitOn ",").mapM (fun x =>
    match x.splitOn ":" with
    | [p, pep] => do some ((← pwField p), (← pepField pep))
    | _ => none)

def bits (l : List Bool) : String := String.ofList (l.map (fun b => if b then '1' else '0'))

abbrev MCall := BCall Nat

/-- One line of set-up code (pepper `n >= 1` = the bytes `pepper-n`; `0` is "no pepper" and cannot be set). -/
def parseCall (s : String) : Option MCall :=
  match s.splitOn ":" with
  | ["dl", n] => do some (.defaultLifetime (← n.toNat?))
  | ["rl", n] => do some (.refreshLifetime (← n.toNat?))
  | ["pp", n] => do
    let p ← n.toNat?
    if p == 0 then none else some (.pepper p)
  | ["nc"] => some .newConfig
  | ["cc"] => some .cloneConfig
  | ["wc"] => some .withConfig
  | ["pd"] => some .providerDefault
  | _ => none

/-- The set-up code `calls`, users hashed with `initPep` put into the database from outside, clock `now0`.
The model runs the builder call by call (`build`); the specification is told what the calls denote
(`Spec.effective`: last `with_config`, last call per field, defaults otherwise). -/
def runCase (calls : List MCall) (initPep now0 : Nat) (initS opsS impl : String) : Option Verdict := do
  let init ← parseInit initS
  let items ← (if opsS == "-" then some [] else (opsS.splitOn ";").mapM parseItem)
  let cfg : Config Nat := build 0 calls
  let eff := Spec.effective 0 calls
  let db0 : MDb := init.map (fun (u, p) => { uid := u, pwHash := hsExec.hash p 0 initPep, session := none })
  let a0 : SState :=
    { pw := fun u => (init.find? (fun x => x.1 == u)).map (fun x => (x.2, initPep)), sess := fun _ => none,
      drawnUids := init.map (·.1), drawnToks := [] }
  let nU := init.foldl (fun n x => max n (x.1 + 1)) 0
  let m := ";".intercalate (runModel cfg db0 now0 nU 0 items []) ++ "#fmt=ok"
  let s := ";".intercalate (runSpec eff.lifetime eff.refreshLifetime eff.pepper a0 now0 nU 0 items []) ++ "#fmt=ok"
  some { model := m, spec := some (impl == s) }

/-- `seq`: the configuration given by its three values, set in declaration order and installed once. -/
def seqCase (cfgS initS opsS impl : String) : Option Verdict := do
  let [pep, dl, rl, now0] ← nats cfgS "," | none
  let calls : List MCall :=
    [.defaultLifetime dl, .refreshLifetime rl] ++ (if pep == 0 then [] else [.pepper pep]) ++ [.withConfig]
  runCase calls pep now0 initS opsS impl

/-- `seqb`: the set-up code itself (`-` = none, else `,`-separated calls). `pd` (`AuthProvider::default()`, which has
no users) only in front and only with an empty `init`. -/
def seqbCase (buildS miscS initS opsS impl : String) : Option Verdict := do
  let [initPep, now0] ← nats miscS "," | none
  let calls ← (if buildS == "-" then some [] else (buildS.splitOn ",").mapM parseCall)
  let pdOk := match calls with
    | .providerDefault :: rest => initS == "-" && !rest.any (fun c => match c with | .providerDefault => true | _ => false)
    | l => !l.any (fun c => match c with | .providerDefault => true | _ => false)
  if !pdOk then none
  runCase calls initPep now0 initS opsS impl

def dispatch (fn : String) (args : List String) (impl : String) : Option Verdict :=
  match fn, args with
  | "seq", [cfgS, initS, opsS] =>
    match seqCase cfgS initS opsS impl with
    | some v => some v
    | none => some { model := "BADARGS" }
  | "seqb", [buildS, miscS, initS, opsS] =>
    match seqbCase buildS miscS initS opsS impl with
    | some v => some v
    | none => some { model := "BADARGS" }
  | "pepper2", [p, p', pep, pep'] =>
    match p.toNat?, p'.toNat?, pep.toNat?, pep'.toNat? with
    | some p, some p', some pep, some pep' =>
      -- the hash contract itself: verifies iff same password and same pepper
      let m := boolStr ((hsExecG Nat Nat).verify ((hsExecG Nat Nat).hash p 0 pep) p' pep')
      some { model := m, spec := some (impl == boolStr (p == p' && pep == pep')) }
    | _, _, _, _ => some { model := "BADARGS" }
  | "hashc", [p, pep, triesS] =>
    match pwField p, pepField pep, parseTries triesS with
    | some p, some pep, some tries =>
      let hs := hsExecG Pw String
      let h := hs.hash p 0 pep
      let m := bits (tries.map (fun (p', pep') => hs.verify h p' pep'))
      -- the hash contract itself, pair by pair
      let s := bits (tries.map (fun (p', pep') => p == p' && pep == pep'))
      some { model := m, spec := some (impl == s) }
    | _, _, _ => some { model := "BADARGS" }
  | _, _ => none

end Humphrey.Driver.C17
