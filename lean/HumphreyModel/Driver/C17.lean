import HumphreyModel.Driver.Util
import HumphreyModel.Model.Auth
import HumphreyModel.Spec.Auth

/-!
Driver for C17. One case = one whole operation sequence.

`seq <TAB> cfg <TAB> init <TAB> ops <TAB> impl-output`
* `cfg`  = `pepper,defaultLifetime,defaultRefreshLifetime,now0` (decimal; pepper 0 = none)
* `init` = `-` or `uid:pw,uid:pw,…` users present before the first operation (hashed with `cfg.pepper`)
* `ops`  = `;`-separated: `cu:pw:U` `ru:u` `vf:u:pw` `ex:u` `cs:u:T` `cl:u:lifetime:T` `rf:t` `is:t` `iu:u`
           `gt:t` `ar:t` / `ar:-` (no cookie) and `tk:d` (advance the clock by `d`).
  Uids / tokens / passwords are small indices (order of first appearance in the real run); `U`/`T` are the
  indices the harness gave to the uid / token the real code drew at that point.
* output = per step `out/exists-bits/token-owners`, joined by `;`, then `#fmt=ok`.

`pepper2 <TAB> pw <TAB> pw' <TAB> pep <TAB> pep' <TAB> impl` : `User::create(pw, pep).verify(pw', pep')`.
-/
namespace Humphrey.Driver.C17
open Humphrey Humphrey.Driver Humphrey.Auth

/-- Executable hash scheme for the driver: the "hash" stores password, salt and pepper. -/
def hsExec : HashScheme Nat Nat Nat (Nat × Nat × Nat) where
  hash p s pep := (p, s, pep)
  verify h p pep := h.1 == p && h.2.2 == pep

abbrev MOp := Op Nat Nat Nat Nat
abbrev MOut := Out Nat Nat

inductive Item
  | op (o : MOp)
  | tick (d : Nat)

def nats (s : String) (sep : String) : Option (List Nat) :=
  (s.splitOn sep).mapM (fun x => x.toNat?)

def parseItem (s : String) : Option Item :=
  match s.splitOn ":" with
  | ["cu", p, u] => do some (.op (.createUser (← p.toNat?) 0 (← u.toNat?)))
  | ["ru", u] => do some (.op (.removeUser (← u.toNat?)))
  | ["vf", u, p] => do some (.op (.verify (← u.toNat?) (← p.toNat?)))
  | ["ex", u] => do some (.op (.userExists (← u.toNat?)))
  | ["cs", u, t] => do some (.op (.createSession (← u.toNat?) (← t.toNat?)))
  | ["cl", u, l, t] => do some (.op (.createSessionWithLifetime (← u.toNat?) (← l.toNat?) (← t.toNat?)))
  | ["rf", t] => do some (.op (.refreshSession (← t.toNat?)))
  | ["is", t] => do some (.op (.invalidateSession (← t.toNat?)))
  | ["iu", u] => do some (.op (.invalidateUserSession (← u.toNat?)))
  | ["gt", t] => do some (.op (.getUidByToken (← t.toNat?)))
  | ["ar", "-"] => some (.op (.authRoute none))
  | ["ar", t] => do some (.op (.authRoute (some (← t.toNat?))))
  | ["tk", d] => do some (.tick (← d.toNat?))
  | _ => none

def errStr : AuthError → String
  | .genericError => "GenericError"
  | .userNotFound => "UserNotFound"
  | .userAlreadyExists => "UserAlreadyExists"
  | .invalidToken => "InvalidToken"
  | .sessionAlreadyExists => "SessionAlreadyExists"

def outStr : MOut → String
  | .unit => "ok"
  | .bool b => boolStr b
  | .uid u => s!"u{u}"
  | .tok t => s!"t{t}"
  | .err e => "E:" ++ errStr e
  | .panic => "PANIC"
  | .http200 u => s!"200:u{u}"
  | .http401 => "401"

/-- Counters of uids / tokens that exist in the real run after an operation with this output. -/
def bump (o : MOp) (out : MOut) (nU nT : Nat) : Nat × Nat :=
  match o, out with
  | .createUser _ _ u, .uid _ => (max nU (u + 1), nT)
  | _, .tok t => (nU, max nT (t + 1))
  | _, _ => (nU, nT)

def obsStr (ex : Nat → Bool) (owner : Nat → Option Nat) (nU nT : Nat) : String :=
  let bits := String.ofList ((List.range nU).map (fun u => if ex u then '1' else '0'))
  let owners := ",".intercalate ((List.range nT).map (fun t =>
    match owner t with | some u => toString u | none => "-"))
  s!"/{bits}/{owners}"

abbrev MDb := Db Nat Nat (Nat × Nat × Nat)

def ownerM (db : MDb) (now : Nat) (t : Nat) : Option Nat :=
  match getUidByToken db t now with
  | .uid u => some u
  | _ => none

/-- Replay through the model. -/
def runModel (cfg : Config Nat) : MDb → Nat → Nat → Nat → List Item → List String → List String
  | _, _, _, _, [], acc => acc.reverse
  | db, now, nU, nT, .tick d :: rest, acc =>
    let now := now + d
    runModel cfg db now nU nT rest (("-" ++ obsStr (userExists db) (ownerM db now) nU nT) :: acc)
  | db, now, nU, nT, .op o :: rest, acc =>
    let r := step hsExec cfg db o now
    let (nU, nT) := bump o r.2 nU nT
    runModel cfg r.1 now nU nT rest ((outStr r.2 ++ obsStr (userExists r.1) (ownerM r.1 now) nU nT) :: acc)

abbrev SState := Spec.State Nat Nat Nat

/-- Replay through the abstract specification. -/
def runSpec (dl rl : Nat) : SState → Nat → Nat → Nat → List Item → List String → List String
  | _, _, _, _, [], acc => acc.reverse
  | a, now, nU, nT, .tick d :: rest, acc =>
    let now := now + d
    runSpec dl rl a now nU nT rest
      (("-" ++ obsStr (fun u => (a.pw u).isSome) (Spec.live a now) nU nT) :: acc)
  | a, now, nU, nT, .op o :: rest, acc =>
    let r := Spec.step dl rl a o now
    let (nU, nT) := bump o r.2 nU nT
    runSpec dl rl r.1 now nU nT rest
      ((outStr r.2 ++ obsStr (fun u => (r.1.pw u).isSome) (Spec.live r.1 now) nU nT) :: acc)

def parseInit (s : String) : Option (List (Nat × Nat)) :=
  if s == "-" then some []
  else (s.splitOn ",").mapM (fun x =>
    match x.splitOn ":" with
    | [u, p] => do some ((← u.toNat?), (← p.toNat?))
    | _ => none)

def seqCase (cfgS initS opsS impl : String) : Option Verdict := do
  let [pep, dl, rl, now0] ← nats cfgS "," | none
  let init ← parseInit initS
  let items ← (if opsS == "-" then some [] else (opsS.splitOn ";").mapM parseItem)
  let cfg : Config Nat := { defaultLifetime := dl, defaultRefreshLifetime := rl, pepper := pep }
  let db0 : MDb := init.map (fun (u, p) => { uid := u, pwHash := hsExec.hash p 0 pep, session := none })
  let a0 : SState :=
    { pw := fun u => (init.find? (fun x => x.1 == u)).map (·.2), sess := fun _ => none,
      drawnUids := init.map (·.1), drawnToks := [] }
  let nU := init.foldl (fun n x => max n (x.1 + 1)) 0
  let m := ";".intercalate (runModel cfg db0 now0 nU 0 items []) ++ "#fmt=ok"
  let s := ";".intercalate (runSpec dl rl a0 now0 nU 0 items []) ++ "#fmt=ok"
  some { model := m, spec := some (impl == s) }

def dispatch (fn : String) (args : List String) (impl : String) : Option Verdict :=
  match fn, args with
  | "seq", [cfgS, initS, opsS] =>
    match seqCase cfgS initS opsS impl with
    | some v => some v
    | none => some { model := "BADARGS" }
  | "pepper2", [p, p', pep, pep'] =>
    match p.toNat?, p'.toNat?, pep.toNat?, pep'.toNat? with
    | some p, some p', some pep, some pep' =>
      -- the hash contract itself: verifies iff same password and same pepper
      let m := boolStr (hsExec.verify (hsExec.hash p 0 pep) p' pep')
      some { model := m, spec := some (impl == boolStr (p == p' && pep == pep')) }
    | _, _, _, _ => some { model := "BADARGS" }
  | _, _ => none

end Humphrey.Driver.C17
