import HumphreyModel.Driver.Util
import HumphreyModel.Model.Shutdown
import HumphreyModel.Spec.Shutdown

/-!
Trace acceptance for C20. A case is `scenario, id=port list, refused ids, must ids, event log`; the
implementation's output is the harness's summary (`ret=…;rebind=…;exited=…;clients=…` or `WEDGED`).
The log is replayed through `Shutdown.step` (threaded runtime) or `Shutdown.Tokio.step`; an event the
model does not allow at that point is reported as `REJECT@i:token`. The `model` field is the same summary
read off the model's end state; `spec` judges the implementation's summary alone (`ShutdownSpec.Summary.ok`).

Tokens. Pool events as in `Driver/C08.lean` (`E` submit, `T`/`t` stop, `D h H d<w> X` drop, worker and
recovery tokens). App events: `@A<port>` accept returned (peer port), `@A?` (peer unknown), `@AE` accept error,
`@F0/@F1` flag checked, `@C0/@C1` condition, `@E` executed, `@L` loop left, `@P` pool stopped, `@D` captures
dropped, `@R` signal received, `@B` about to store the flag, `@S` stored, `@W` about to make the wake-up
connection, `@w` done, `@J` join done. Harness events: `+a<id>` about to connect client `id` (only clients whose
connect succeeded are in the log's `id=port` list; the others are in `refused`), `+g` about to send the signal,
`+Lc`/`+Lo` the port refused / accepted a probe connection when the pool's `Drop` began.
Client kinds: `J K H S L W O` and the pipelined kinds `a`..`o` (see `pipelined`); client codes of the summary:
`C P M Z T R h` (`Spec/Shutdown.lean`, `Summary`). The model says `C` for an in-flight client whose connection
was dispatched and finished (tokio: spawned) — for a pipelined one that is "every request answered" — else `Z`.

Linearisation. Sends are logged before, receives after the real operation. Two places need care:
* the flag is stored between `@B` and `@S`; a load in between may see either value. The replay places the
  model's `storeFlag` at the first `@F1` inside that window, otherwise at `@S`.
* a load of the flag is logged (`@F0`) after it happened; when the store was logged between the accept thread's
  `@A` and its `@F0`, the load is replayed before the store.
* connects of different threads (a client's and the caller's wake-up) enter the kernel's queue in an order
  the log cannot see. When `@A<port>` names an entry that is queued but not at the front, the replay moves it
  to the front (FIFO order of the kernel's queue is an assumption of the model, not something the log shows).
-/
namespace Humphrey.Driver.C20
open Humphrey Humphrey.Driver Humphrey.Shutdown

def natOf (cs : List Char) : Option Nat :=
  if cs.isEmpty then none else (String.ofList cs).toNat?

/-- `a`..`o`: a keep-alive connection on which the client wrote 2 / 3 / 4 / 5 / 64 complete requests at once
(letter = `a` + 5·first + index; first request short / long / gated). The accept path treats it like any
other connection; what the client is owed is n responses (the harness's code `C` means all n, in order). -/
def pipelined (ch : Char) : Bool := 'a'.toNat ≤ ch.toNat && ch.toNat ≤ 'o'.toNat

def trafficOf : Char → Traffic
  | 'J' => .justAccepted
  | 'K' => .idleKeepAlive
  | 'H' => .halfSent
  | 'S' => .handlerShort
  | 'L' => .handlerLong
  | 'W' => .responseWriting
  | 'O' => .wsOpen
  | ch => if pipelined ch then .pipelined else .wsOpen

def inFlight (ch : Char) : Bool := ch == 'S' || ch == 'L' || ch == 'W' || pipelined ch

structure Env where
  rt : Char
  threads : Nat
  kinds : List Char
  /-- (port, client id) -/
  ports : List (Nat × Nat)
  refused : List Nat
  must : List Nat

def Env.entryOfId (e : Env) (id : Nat) : Entry := .client id (trafficOf (e.kinds.getD id 'J'))

def Env.entryOfPort (e : Env) (p : Nat) : Entry :=
  match e.ports.lookup p with
  | some id => e.entryOfId id
  | none => .wake

structure RS where
  s : State
  storePending : Bool := false
  /-- the model's flag when the accept thread's last `@A` was replayed -/
  flagAtAccept : Bool := false

def stepL (c : Cfg) (r : RS) (l : Label) : Option RS :=
  (step c r.s l).map fun s' => { r with s := s' }

def check (r : RS) (b : Bool) : Option RS := if b then some r else none

/-- Bring `e` to the front of the accept queue if it is queued at all. -/
def toFront (e : Entry) (r : RS) : Option RS :=
  if r.s.backlog.head? == some e then some r
  else if r.s.backlog.contains e then some { r with s := { r.s with backlog := e :: r.s.backlog.erase e } }
  else none

def workerTok (c : Cfg) (r : RS) (ch : Char) (w : Nat) : Option RS :=
  match ch with
  | 'q' => stepL c r (.worker (.reqLock w))
  | 'l' => stepL c r (.worker (.lock w))
  | 'u' => stepL c r (.worker (.unlock w))
  | 'n' => stepL c r (.worker (.run w))
  | 'f' => stepL c r (.worker (.finish w))
  | 'p' => stepL c r (.worker (.panic w))
  | 'm' => stepL c r (.worker (.markerSend w))
  | 'x' => stepL c r (.worker (.exit w))
  | 'R' => stepL c r (.worker (.recRecv w))
  | 'J' => (check r (r.s.pool.recov == .joining w)).bind fun r => stepL c r (.worker .recJoin)
  | 'P' => (check r (r.s.pool.recov == .respawning w)).bind fun r => stepL c r (.worker .recRespawn)
  | 'd' => if w == 0 then stepL c r (.poolDrop .dropDetach) else check r (r.s.pool.caller == .dropTx)
  | _ => none

def appTok (c : Cfg) (env : Env) (r : RS) (cs : List Char) : Option RS :=
  match cs with
  | 'A' :: 'E' :: [] =>
    let r := { r with flagAtAccept := r.s.flag }
    (stepL c r (.arrive .err)).bind fun r => (toFront .err r).bind fun r => stepL c r .accept
  | 'A' :: '?' :: [] => stepL c { r with flagAtAccept := r.s.flag } .accept
  | 'A' :: rest =>
    let r := { r with flagAtAccept := r.s.flag }
    match natOf rest with
    | some p => (toFront (env.entryOfPort p) r).bind fun r => stepL c r .accept
    | none => none
  | 'F' :: '0' :: [] =>
    if r.s.flag && !r.flagAtAccept then
      -- a load is logged after it happened: this one read `false` before the store, which was logged in
      -- between. `checkFlag false` touches only the accept thread's components, the caller's steps only the
      -- caller's and the flag: the step is replayed at its place before the store.
      (step c { r.s with flag := false } (.checkFlag false)).map fun s' => { r with s := { s' with flag := true } }
    else stepL c r (.checkFlag false)
  | 'F' :: '1' :: [] =>
    let r := if r.storePending && r.s.caller == .storeFlag then
        match stepL c r .storeFlag with
        | some r' => { r' with storePending := false }
        | none => r
      else r
    stepL c r (.checkFlag true)
  | 'C' :: '0' :: [] => stepL c r (.cond false)
  | 'C' :: '1' :: [] => stepL c r (.cond true)
  | 'E' :: [] => check r (r.s.acc == .accepting)
  | 'L' :: [] => check r (r.s.acc == .poolStop)
  | 'P' :: [] => check r (r.s.acc == .dropListener)
  | 'D' :: [] => stepL c r .exit
  | 'R' :: [] =>
    -- dropping the `Sender` is a signal too; the harness always sends (`+g` comes first)
    let r := if r.s.signalSent then r else (stepL c r .signal).getD r
    stepL c r .recvSignal
  | 'B' :: [] => (check r (r.s.caller == .storeFlag)).map fun r => { r with storePending := true }
  | 'S' :: [] =>
    if r.s.caller == .storeFlag then (stepL c r .storeFlag).map fun r => { r with storePending := false }
    else check r (r.s.flag && !r.storePending)
  | 'W' :: [] => stepL c r .selfConnect
  | 'w' :: [] => check r (r.s.caller == .joinAccept)
  | 'J' :: [] => stepL c r .joinAccept
  | _ => none

/-- One token of the event log (threaded runtime). `none` = the model does not allow this event here. -/
def token (c : Cfg) (env : Env) (r : RS) (t : String) : Option RS :=
  match t.toList with
  | [] => none
  | '@' :: rest => appTok c env r rest
  | '+' :: 'a' :: rest => (natOf rest).bind fun id => stepL c r (.arrive (env.entryOfId id))
  | '+' :: 'g' :: [] => stepL c r .signal
  | '+' :: 'L' :: 'c' :: [] => check r (!r.s.listenerOpen)
  | '+' :: 'L' :: 'o' :: [] => none
  | 'S' :: rest => (natOf rest).bind fun n => check r (n == c.pool.n)
  | 's' :: [] => some r
  | 'E' :: [] => stepL c r .execute
  | 'T' :: [] => stepL c r .poolStop
  | 't' :: [] => check r (r.s.acc == .dropListener)
  | 'D' :: [] => (stepL c r .dropListener).bind fun r => stepL c r (.poolDrop .dropBegin)
  | 'h' :: [] => none   -- `stop()` has taken the recovery thread's handle: `Drop` finds none
  | 'H' :: [] => stepL c r (.poolDrop .dropDetachRecovery)
  | 'X' :: [] => stepL c r (.poolDrop .dropSender)
  | 'r' :: rest =>
    match natOf rest.dropLast, rest.getLast? with
    | some w, some kind =>
      (stepL c r (.worker (.recv w))).bind fun r' =>
        check r' (match r'.s.pool.workers[w]?, kind with
          | some (.got (some (.task _))), 't' => true
          | some (.got (some .shutdown)), 's' => true
          | some (.got none), 'd' => true
          | _, _ => false)
    | _, _ => none
  | ch :: rest => (natOf rest).bind fun w => workerTok c r ch w

def replay (c : Cfg) (env : Env) : RS → Nat → List String → Except String RS
  | r, _, [] => .ok r
  | r, i, t :: ts =>
    match token c env r t with
    | some r' => replay c env r' (i + 1) ts
    | none => .error s!"REJECT@{i}:{t}"

def clientCodes (env : Env) (served : Nat → Bool) : String :=
  if env.kinds.isEmpty then "-" else
  String.ofList <| (List.range env.kinds.length).map fun i =>
    if env.refused.contains i then 'R'
    else if !inFlight (env.kinds.getD i 'J') then 'h'
    else if served i then 'C' else 'Z'

def isClient (i : Nat) : Entry → Bool
  | .client id _ => id == i
  | _ => false

def modelSummary (c : Cfg) (env : Env) (s : State) : String :=
  let served := fun i => s.dispatched.any fun (e, k) => isClient i e && s.pool.finished.contains k
  let ret := if s.caller == .returned then "ok" else "model-not-returned"
  let rebind := if s.listenerOpen then "model-port-open" else "ok"
  let base := s!"ret={ret};rebind={rebind};exited={Pool.exitedCount s.pool.workers};clients={clientCodes env served}"
  let base := if terminalB c s then base else base ++ ";model-not-terminal"
  let shut := s.acc == .exited && s.stopDone && s.pool.life == .dropped
  if shut then base else base ++ ";model-not-shut-down"

/-! ### tokio -/

def tokioToken (env : Env) (s : Tokio.State) (t : String) : Option Tokio.State :=
  let h : Entry → Bool := fun _ => false
  match t.toList with
  | '+' :: 'a' :: rest => (natOf rest).bind fun id => Tokio.step h s (.arrive (env.entryOfId id))
  | '+' :: 'g' :: [] => Tokio.step h s .cancel
  | '@' :: 'R' :: [] => Tokio.step h s .takeCancelled
  | '@' :: 'L' :: [] => if s.pc == .dropListener then some s else none
  | '@' :: 'A' :: 'E' :: [] =>
    (Tokio.step h s (.arrive .err)).bind fun s =>
      if s.backlog.contains .err then Tokio.step h { s with backlog := .err :: s.backlog.erase .err } .takeAccept else none
  | '@' :: 'A' :: '?' :: [] => Tokio.step h s .takeAccept
  | '@' :: 'A' :: rest =>
    match natOf rest with
    | some p =>
      let e := env.entryOfPort p
      if s.backlog.head? == some e then Tokio.step h s .takeAccept
      else if s.backlog.contains e then Tokio.step h { s with backlog := e :: s.backlog.erase e } .takeAccept
      else none
    | none => none
  | '@' :: 'C' :: '0' :: [] => Tokio.step h s (.cond false)
  | '@' :: 'C' :: '1' :: [] => Tokio.step h s (.cond true)
  | '@' :: 'E' :: [] => Tokio.step h s .spawn
  | _ => none

def tokioReplay (env : Env) : Tokio.State → Nat → List String → Except String Tokio.State
  | s, _, [] => .ok s
  | s, i, t :: ts =>
    match tokioToken env s t with
    | some s' => tokioReplay env s' (i + 1) ts
    | none => .error s!"REJECT@{i}:{t}"

def tokioSummary (env : Env) (s : Tokio.State) : String :=
  -- the function's locals (the listener) are dropped when `run` returns: no event, the step is taken here
  let s := (Tokio.step (fun _ => false) s .dropListener).getD s
  let served := fun i => s.spawned.any (isClient i)
  let ret := if s.pc == .returned then "ok" else "model-not-returned"
  let rebind := if s.listenerOpen then "model-port-open" else "ok"
  s!"ret={ret};rebind={rebind};exited=0;clients={clientCodes env served}"

/-! ### judging the implementation's summary -/

def parseSummary (impl : String) : Option ShutdownSpec.Summary :=
  if impl == "WEDGED" then some { wedged := true, rebindOk := false, exited := 0, clients := [] }
  else
    let kv := (impl.splitOn ";").map fun f => match f.splitOn "=" with
      | [a, b] => (a, b)
      | _ => ("", "")
    match kv.lookup "ret", kv.lookup "rebind", kv.lookup "exited", kv.lookup "clients" with
    | some "ok", some rb, some ex, some cl =>
      ex.toNat?.map fun e =>
        { wedged := false, rebindOk := rb == "ok", exited := e, clients := if cl == "-" then [] else cl.toList }
    | _, _, _, _ => none

def natList (s : String) : Option (List Nat) :=
  if s.isEmpty then some [] else (s.splitOn ",").mapM String.toNat?

def parsePorts (s : String) : Option (List (Nat × Nat)) :=
  if s.isEmpty then some [] else
  (s.splitOn ",").mapM fun f => match f.splitOn "=" with
    | [a, b] => match a.toNat?, b.toNat? with
      | some id, some p => some (p, id)
      | _, _ => none
    | _ => none

def parseEnv (scn ports refused must : String) : Option Env :=
  match scn.splitOn "|" with
  | [rt, _ip, threads, _to, _deny, _mode, _k, kinds, _seed] =>
    match rt.toList.head?, threads.toNat?, parsePorts ports, natList refused, natList must with
    | some rt, some n, some ps, some rf, some mu =>
      some { rt := rt, threads := n, kinds := kinds.toList.filter (· != '-'), ports := ps, refused := rf, must := mu }
    | _, _, _, _, _ => none
  | _ => none

def dispatch (fn : String) (args : List String) (impl : String) : Option Verdict :=
  match fn, args with
  | "shutdown", [scn, ports, refused, must, log] =>
    match parseEnv scn ports refused must with
    | none => some { model := "BADARGS" }
    | some env =>
      let toks := (log.splitOn " ").filter (fun t => !t.isEmpty)
      let workers := if env.rt == 't' then env.threads else 0
      let (spec, reason) := match parseSummary impl with
        | some s => (s.ok workers env.must, s.reason workers env.must)
        | none => (false, "unparsable")
      if env.rt == 't' then
        let c : Cfg := { pool := { n := env.threads, panics := fun _ => false } }
        match replay c env { s := init c } 0 toks with
        | .error e => some { model := e, spec := some spec, reason := reason }
        | .ok r => some { model := modelSummary c env r.s, spec := some spec, reason := reason }
      else
        match tokioReplay env Tokio.init 0 toks with
        | .error e => some { model := e, spec := some spec, reason := reason }
        | .ok s => some { model := tokioSummary env s, spec := some spec, reason := reason }
  | _, _ => none

end Humphrey.Driver.C20
