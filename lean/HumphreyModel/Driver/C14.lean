import HumphreyModel.Driver.Util
import HumphreyModel.Driver.C13
import HumphreyModel.Model.JsonTyped
import HumphreyModel.Spec.JsonTyped

/-!
Driver for C14. The cases come from generated Rust programs (see `harness/src/c14.rs`); every
case line carries the description of the type, value or token tree it is about.

Type description: `B` bool, `S` String, `n` + kind letter (`a` u8 `b` u16 `c` u32 `d` u64 `e` usize
`f` i8 `g` i16 `h` i32 `i` i64 `j` f32 `k` f64), `O`ty Option, `V`ty Vec, `{`flag (`s`hex`.` ty)* `}`
named struct (flag `d` derive, `m` json_map!, `t` json_map! on a tuple struct — the model does not
look at it), `(` ty* `)` tuple struct, `<` (`s`hex`.`)* `>` enum.
Value description: `T` `F`, `i`decimal`;`, `f`8 hex digits, `d`16 hex digits, `s`hex`.`, `N`, `S`value,
`[`values`]` Vec, `(`values`)` struct fields, `v`index`;` enum variant.
JSON value: the canonical rendering of C13 (`Z T F`, `n`+bits, `s`hex`.`, `[..]`, `{..}`).
Token tree: `N` null, `,`, `:`, `[`..`]`, `{`..`}`, `e`hex(Rust source)`.`value, `l`hex`.` string literal.
-/
namespace Humphrey.Driver.C14
open Humphrey Humphrey.Driver Humphrey.Json Humphrey.JsonTyped
open Humphrey.Driver.C13 (hex16 unhex16 hexChars readStr)

/-! ### JSON values over `Num` -/

mutual
def render : Value Num → List Char
  | .null => ['Z']
  | .bool true => ['T']
  | .bool false => ['F']
  | .number n => 'n' :: hex16 n.bits
  | .string s => 's' :: (hexChars s ++ ['.'])
  | .array xs => '[' :: (renderList xs ++ [']'])
  | .object ms => '{' :: (renderMembers ms ++ ['}'])
def renderList : List (Value Num) → List Char
  | [] => []
  | x :: xs => render x ++ renderList xs
def renderMembers : List (List Char × Value Num) → List Char
  | [] => []
  | (k, v) :: ms => 's' :: (hexChars k ++ '.' :: (render v ++ renderMembers ms))
end

mutual
def unrender : Nat → List Char → Option (Value Num × List Char)
  | 0, _ => none
  | fuel + 1, s =>
    match s with
    | [] => none
    | c :: r =>
      if c = 'Z' then some (.null, r)
      else if c = 'T' then some (.bool true, r)
      else if c = 'F' then some (.bool false, r)
      else if c = 'n' then
        match unhex16 (r.take 16) with
        | none => none
        | some bits => if (r.take 16).length = 16 then some (.number (.f64 bits), r.drop 16) else none
      else if c = 's' then (readStr r).map fun (x, r) => (.string x, r)
      else if c = '[' then (unrenderList fuel r).map fun (xs, r) => (.array xs, r)
      else if c = '{' then (unrenderMembers fuel r).map fun (ms, r) => (.object ms, r)
      else none
def unrenderList : Nat → List Char → Option (List (Value Num) × List Char)
  | 0, _ => none
  | fuel + 1, s =>
    match s with
    | [] => none
    | c :: r =>
      if c = ']' then some ([], r)
      else
        match unrender fuel s with
        | none => none
        | some (v, r) => (unrenderList fuel r).map fun (vs, r) => (v :: vs, r)
def unrenderMembers : Nat → List Char → Option (List (List Char × Value Num) × List Char)
  | 0, _ => none
  | fuel + 1, s =>
    match s with
    | [] => none
    | c :: r =>
      if c = '}' then some ([], r)
      else if c = 's' then
        match readStr r with
        | none => none
        | some (k, r) =>
          match unrender fuel r with
          | none => none
          | some (v, r) => (unrenderMembers fuel r).map fun (ms, r) => ((k, v) :: ms, r)
      else none
end

def unrenderAll (s : String) : Option (Value Num) :=
  match unrender (2 * s.length + 2) s.toList with
  | some (v, []) => some v
  | _ => none

/-! ### types -/

def kindOf (c : Char) : Option NumKind :=
  if c = 'a' then some .u8 else if c = 'b' then some .u16 else if c = 'c' then some .u32
  else if c = 'd' then some .u64 else if c = 'e' then some .usize else if c = 'f' then some .i8
  else if c = 'g' then some .i16 else if c = 'h' then some .i32 else if c = 'i' then some .i64
  else if c = 'j' then some .f32 else if c = 'k' then some .f64 else none

mutual
def readTy : Nat → List Char → Option (Ty × List Char)
  | 0, _ => none
  | fuel + 1, s =>
    match s with
    | [] => none
    | c :: r =>
      if c = 'B' then some (.bool, r)
      else if c = 'S' then some (.str, r)
      else if c = 'n' then
        match r with
        | k :: r => (kindOf k).map fun k => (.num k, r)
        | [] => none
      else if c = 'O' then (readTy fuel r).map fun (t, r) => (.opt t, r)
      else if c = 'V' then (readTy fuel r).map fun (t, r) => (.vec t, r)
      else if c = '{' then
        match r with
        | _ :: r => (readFields fuel r).map fun (fs, r) => (.named fs, r)
        | [] => none
      else if c = '(' then (readTys fuel r).map fun (ts, r) => (.tuple ts, r)
      else if c = '<' then (readNames fuel r).map fun (ns, r) => (.enum ns, r)
      else none
def readFields : Nat → List Char → Option (List (Key × Ty) × List Char)
  | 0, _ => none
  | fuel + 1, s =>
    match s with
    | [] => none
    | c :: r =>
      if c = '}' then some ([], r)
      else if c = 's' then
        match readStr r with
        | none => none
        | some (k, r) =>
          match readTy fuel r with
          | none => none
          | some (t, r) => (readFields fuel r).map fun (fs, r) => ((k, t) :: fs, r)
      else none
def readTys : Nat → List Char → Option (List Ty × List Char)
  | 0, _ => none
  | fuel + 1, s =>
    match s with
    | [] => none
    | c :: r =>
      if c = ')' then some ([], r)
      else
        match readTy fuel s with
        | none => none
        | some (t, r) => (readTys fuel r).map fun (ts, r) => (t :: ts, r)
def readNames : Nat → List Char → Option (List Key × List Char)
  | 0, _ => none
  | fuel + 1, s =>
    match s with
    | [] => none
    | c :: r =>
      if c = '>' then some ([], r)
      else if c = 's' then
        match readStr r with
        | none => none
        | some (k, r) => (readNames fuel r).map fun (ns, r) => (k :: ns, r)
      else none
end

def readTyAll (s : String) : Option Ty :=
  match readTy (2 * s.length + 2) s.toList with
  | some (t, []) => some t
  | _ => none

/-! ### typed values -/

def takeUntil (stop : Char) : List Char → List Char → Option (List Char × List Char)
  | [], _ => none
  | c :: r, acc => if c = stop then some (acc.reverse, r) else takeUntil stop r (c :: acc)

def readInt (s : List Char) : Option (Int × List Char) :=
  match takeUntil ';' s [] with
  | none => none
  | some (ds, r) => (String.ofList ds).toInt?.map fun i => (i, r)

mutual
def readVal : Nat → List Char → Option (TVal × List Char)
  | 0, _ => none
  | fuel + 1, s =>
    match s with
    | [] => none
    | c :: r =>
      if c = 'T' then some (.bool true, r)
      else if c = 'F' then some (.bool false, r)
      else if c = 'i' then (readInt r).map fun (i, r) => (.int i, r)
      else if c = 'f' then
        if (r.take 8).length = 8 then (unhex16 (r.take 8)).map fun b => (.f32 b, r.drop 8) else none
      else if c = 'd' then
        if (r.take 16).length = 16 then (unhex16 (r.take 16)).map fun b => (.f64 b, r.drop 16) else none
      else if c = 's' then (readStr r).map fun (x, r) => (.str x, r)
      else if c = 'N' then some (.none, r)
      else if c = 'S' then (readVal fuel r).map fun (v, r) => (.some v, r)
      else if c = '[' then (readVals ']' fuel r).map fun (vs, r) => (.vec vs, r)
      else if c = '(' then (readVals ')' fuel r).map fun (vs, r) => (.fields vs, r)
      else if c = 'v' then (readInt r).map fun (i, r) => (.variant i.toNat, r)
      else none
def readVals (close : Char) : Nat → List Char → Option (List TVal × List Char)
  | 0, _ => none
  | fuel + 1, s =>
    match s with
    | [] => none
    | c :: r =>
      if c = close then some ([], r)
      else
        match readVal fuel s with
        | none => none
        | some (v, r) => (readVals close fuel r).map fun (vs, r) => (v :: vs, r)
end

def readValAll (s : String) : Option TVal :=
  match readVal (2 * s.length + 2) s.toList with
  | some (v, []) => some v
  | _ => none

def hexN (digits n : Nat) : List Char :=
  (List.range digits).map fun i => C13.hexNibble (n / 16 ^ (digits - 1 - i) % 16)

mutual
def renderVal : TVal → List Char
  | .bool true => ['T']
  | .bool false => ['F']
  | .int i => 'i' :: ((toString i).toList ++ [';'])
  | .f32 b => 'f' :: hexN 8 b
  | .f64 b => 'd' :: hexN 16 b
  | .str s => 's' :: (hexChars s ++ ['.'])
  | .none => ['N']
  | .some v => 'S' :: renderVal v
  | .vec vs => '[' :: (renderVals vs ++ [']'])
  | .fields vs => '(' :: (renderVals vs ++ [')'])
  | .variant i => 'v' :: ((toString i).toList ++ [';'])
def renderVals : List TVal → List Char
  | [] => []
  | v :: vs => renderVal v ++ renderVals vs
end

def renderRes : Except ParseError TVal → String
  | .ok v => String.ofList (renderVal v)
  | .error _ => "ERR"

/-! ### token trees -/

mutual
def readTok : Nat → List Char → Option (Tok Num × List Char)
  | 0, _ => none
  | fuel + 1, s =>
    match s with
    | [] => none
    | c :: r =>
      if c = 'N' then some (.null, r)
      else if c = ',' then some (.comma, r)
      else if c = ':' then some (.colon, r)
      else if c = '[' then (readToks ']' fuel r).map fun (ts, r) => (.group .brack ts, r)
      else if c = '{' then (readToks '}' fuel r).map fun (ts, r) => (.group .brace ts, r)
      else if c = 'l' then (readStr r).map fun (x, r) => (.lit x, r)
      else if c = 'e' then
        match takeUntil '.' r [] with
        | none => none
        | some (_, r) => (unrender fuel r).map fun (v, r) => (.expr v, r)
      else none
def readToks (close : Char) : Nat → List Char → Option (List (Tok Num) × List Char)
  | 0, _ => none
  | fuel + 1, s =>
    match s with
    | [] => if close = '$' then some ([], []) else none
    | c :: r =>
      if c = close then some ([], r)
      else
        match readTok fuel s with
        | none => none
        | some (t, r) => (readToks close fuel r).map fun (ts, r) => (t :: ts, r)
end

/-- the argument of `json!( … )`: a token list up to the end of the field -/
def readToksAll (s : String) : Option (List (Tok Num)) :=
  match readToks '$' (2 * s.length + 2) s.toList with
  | some (ts, []) => some ts
  | _ => none

/-! ### decidable forms of the hypotheses of `from_to` -/

def nodupB : List Key → Bool
  | [] => true
  | k :: ks => !ks.contains k && nodupB ks

mutual
def keysDistinctB : Ty → Bool
  | .opt t => keysDistinctB t
  | .vec t => keysDistinctB t
  | .named fs => nodupB (fs.map (·.1)) && keysDistinctFieldsB fs
  | .tuple ts => keysDistinctListB ts
  | .enum names => nodupB names
  | _ => true
def keysDistinctFieldsB : List (Key × Ty) → Bool
  | [] => true
  | (_, t) :: fs => keysDistinctB t && keysDistinctFieldsB fs
def keysDistinctListB : List Ty → Bool
  | [] => true
  | t :: ts => keysDistinctB t && keysDistinctListB ts
end

mutual
/-- an integer that `as f64` changes -/
def hasInexactInt : TVal → Bool
  | .int i => roundF64 i != i
  | .some v => hasInexactInt v
  | .vec vs => hasInexactIntList vs
  | .fields vs => hasInexactIntList vs
  | _ => false
def hasInexactIntList : List TVal → Bool
  | [] => false
  | v :: vs => hasInexactInt v || hasInexactIntList vs
end

mutual
/-- `Some(None)` of an `Option<Option<_>>` -/
def hasSomeNone : TVal → Bool
  | .some .none => true
  | .some v => hasSomeNone v
  | .vec vs => hasSomeNoneList vs
  | .fields vs => hasSomeNoneList vs
  | _ => false
def hasSomeNoneList : List TVal → Bool
  | [] => false
  | v :: vs => hasSomeNone v || hasSomeNoneList vs
end

/-! ### dispatch -/

def dispatch (fn : String) (args : List String) (impl : String) : Option Verdict :=
  match fn, args with
  | "c14_ty", [tyS, valS] =>
    match readTyAll tyS, readValAll valS with
    | some ty, some v =>
      if !hasTy ty v then some { model := "BADARGS-ILLTYPED" } else
      let j := toJson ty v
      let m := String.ofList (render j) ++ "|" ++ renderRes (fromJson ty j)
      -- spec: the implementation's JSON has the documented shape and the value comes back
      let verdict : Bool × String :=
        match impl.splitOn "|" with
        | [ij, irt] =>
          match unrenderAll ij with
          | none => (false, "shape")
          | some iv =>
            if !shapeOk ty iv then (false, "shape")
            else if irt == valS then (true, "")
            else if impl != m then (false, "roundtrip")
            -- the implementation lost the value exactly as the model says it must:
            else if hasInexactInt v then (false, "int-beyond-2^53")
            else if hasSomeNone v then (false, "nested-option-some-none")
            else if !keysDistinctB ty then (true, "")   -- outside the property: two fields share a key
            else (false, "roundtrip")
        | _ => (false, if impl == "COMPILE-ERROR" then "compile-error" else "panic")
      some { model := m, spec := some verdict.1, reason := verdict.2 }
    | _, _ => some { model := "BADARGS" }
  | "c14_from", [tyS, jS] =>
    match readTyAll tyS, unrenderAll jS with
    | some ty, some j => some { model := renderRes (fromJson ty j), spec := some (impl != "PANIC" && impl != "COMPILE-ERROR") }
    | _, _ => some { model := "BADARGS" }
  | "c14_lit", [tokS] =>
    match readToksAll tokS with
    | none => some { model := "BADARGS" }
    | some toks =>
      let m := match expandJson toks with
        | some v => String.ofList (render v)
        | none => "COMPILE-ERROR"
      -- spec: for a literal of the documented grammar, the value its JSON text denotes
      let spec : Option Bool :=
        match toks with
        | [t] =>
          match parseLit t with
          | some l => some (impl == String.ofList (render l.value))
          | none => none
        | _ => none
      some { model := m, spec := spec, reason := if spec == some false then "json-literal" else "" }
  | _, _ => none

end Humphrey.Driver.C14
