import HumphreyModel.Driver.Util
import HumphreyModel.Model.Http

/-! Canonical text forms shared by the HTTP drivers (must match `harness/src/c02.rs`). -/
namespace Humphrey.Driver.HttpD
open Humphrey Humphrey.Driver Humphrey.Http Humphrey.IO

def hx (b : Bytes) : String := if b.isEmpty then "~" else hex b

def fnv (b : Bytes) : UInt64 :=
  b.foldl (fun h x => (h ^^^ x.toUInt64) * 0x100000001b3) 0xcbf29ce484222325

def hex64 (n : UInt64) : String :=
  String.ofList ((List.range 16).map (fun i =>
    hexDigit ((n >>> ((15 - i) * 4).toUInt64) &&& 15).toUInt8))

def hxl (b : Bytes) : String :=
  if b.length > 64 then s!"#{b.length}:{hex64 (fnv b)}" else hx b

def unhx (s : String) : Option Bytes := if s == "~" then some [] else unhex s

/-- Cut specification of `harness/src/httpgen.rs::apply_cuts`. -/
def applyCuts (bytes : Bytes) (spec : String) : List Bytes :=
  let n := bytes.length
  let cuts : List Nat :=
    if spec == "w" then []
    else if spec == "1" then (List.range n).filter (· ≥ 1)
    else if spec.startsWith "k" then
      let k := max 1 ((spec.drop 1).toString.toNat?.getD 1)
      (List.range n).filter (fun i => i ≥ 1 && i % k == 0)
    else if spec.startsWith "c" then
      let xs := ((spec.drop 1).toString.splitOn ".").filterMap (·.toNat?)
      let xs := xs.filter (fun i => i > 0 && i < n)
      (xs.mergeSort (· ≤ ·)).eraseDups
    else []
  let rec go (prev : Nat) (rest : Bytes) : List Nat → List Bytes
    | [] => [rest]
    | c :: cs => rest.take (c - prev) :: go c (rest.drop (c - prev)) cs
  (go 0 bytes cuts).filter (!·.isEmpty)

/-- `ip oracle` argument: `hex(entry):hex(canonical)|-` pairs separated by `;`, or `-`. -/
def parseOracle (s : String) : List (Bytes × Option Bytes) :=
  if s == "-" then []
  else (s.splitOn ";").filterMap (fun p =>
    match p.splitOn ":" with
    | [k, v] => (unhex k).map (fun kb => (kb, if v == "-" then none else unhex v))
    | _ => none)

def oracleFn (m : List (Bytes × Option Bytes)) (e : Bytes) : Option Bytes :=
  match m.find? (fun p => p.1 = e) with
  | some (_, r) => r
  | none => none

def insertUniq (x : Bytes) : List Bytes → List Bytes
  | [] => [x]
  | y :: ys => if x = y then y :: ys else if bytesLt x y then x :: y :: ys else y :: insertUniq x ys

def canonRequest (q : Request) : String :=
  let names := q.headers.foldl (fun acc h => insertUniq h.name.lower acc) []
  let hs := names.map (fun n =>
    hx n ++ "=" ++ ";".intercalate ((q.headers.getAll ⟨n⟩).map hx))
  let ck := (cookies q).map (fun (k, v) => hx k ++ "=" ++ hx v)
  let content := match q.content with | some c => hxl c | none => "-"
  s!"OK {String.fromUTF8! (ByteArray.mk q.method.name.toArray)} {hx q.uri} {hx q.query} {hx q.version} H[{",".intercalate hs}] C[{content}] A[{hx q.address.origin}/{";".intercalate (q.address.proxies.map hx)}/{q.address.port}] K[{";".intercalate ck}]"

def errName : ReqErr → String
  | .request => "ERR:Request" | .stream => "ERR:Stream"
  | .disconnected => "ERR:Disconnected" | .timeout => "ERR:Timeout"

end Humphrey.Driver.HttpD
