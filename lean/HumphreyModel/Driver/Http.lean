import HumphreyModel.Driver.Util
import HumphreyModel.Model.Http

/-! Canonical text forms shared by the HTTP drivers (must match `harness/src/c02.rs`). -/
namespace Humphrey.Driver.HttpD
open Humphrey Humphrey.Driver Humphrey.Http Humphrey.IO

def hx (b : Bytes) : String := if b.isEmpty then "~" else hex b

def fnv (b : Bytes) : UInt64 :=
  b.foldl (fun h x => (h ^^^ x.toUInt64) * 0x100000001b3) 0xcbf29ce484222325

def hex64 (n : UInt64) : String :=
  String.ofList ((List.range 16).map (fun i =>
    hexDigit ((n >>> ((15 - i) * 4).toUInt64) &&& 15).toUInt8))

def hxl (b : Bytes) : String :=
  if b.length > 64 then s!"#{b.length}:{hex64 (fnv b)}" else hx b

def unhx (s : String) : Option Bytes := if s == "~" then some [] else unhex s


/-! ## Compact byte strings (`hexz`, must match `harness/src/c02.rs::unhexz`)

Large payloads stay out of the case line: a byte string is a `_`-separated sequence of segments, each either plain hex,
`Z<len>.<seed>` (`len` bytes of the fixed pseudo-random pattern `patByte seed`) or `Y<count>.<hex>` (the hex block
repeated `count` times). A string without `_`, `Z`, `Y` is plain hex as before. -/

def patByte (seed : UInt32) (i : Nat) : UInt8 :=
  let x : UInt32 := i.toUInt32 * 2654435761 + seed
  ((x >>> 24) ^^^ (x >>> 11)).toUInt8

def patBytes (len seed : Nat) : Bytes :=
  let s := seed.toUInt32
  (List.range len).map (patByte s)

def hexzLimit : Nat := 64 * 1024 * 1024

def unhexzSeg (seg : String) : Option Bytes :=
  if seg.startsWith "Z" then
    match (seg.drop 1).toString.splitOn "." with
    | [len, seed] =>
      match len.toNat?, seed.toNat? with
      | some l, some s => if l > hexzLimit then none else some (patBytes l s)
      | _, _ => none
    | _ => none
  else if seg.startsWith "Y" then
    match (seg.drop 1).toString.splitOn "." with
    | [count, h] =>
      match count.toNat?, unhex h with
      | some c, some b => if c * b.length > hexzLimit then none else some (List.replicate c b).flatten
      | _, _ => none
    | _ => none
  else unhex seg

def unhexz (s : String) : Option Bytes :=
  ((s.splitOn "_").mapM unhexzSeg).map List.flatten

/-- Segments of `n` bytes (the last one shorter); `n = 0`: one segment. Linear, no deep recursion. -/
def chunkEvery (n : Nat) (b : Bytes) : List Bytes :=
  if n == 0 then [b]
  else
    let (acc, cur, _) := b.foldl
      (fun (st : List Bytes × Bytes × Nat) x =>
        let (acc, cur, m) := st
        if m + 1 == n then ((x :: cur).reverse :: acc, [], 0) else (acc, x :: cur, m + 1))
      (([] : List Bytes), ([] : Bytes), 0)
    (if cur.isEmpty then acc else cur.reverse :: acc).reverse

/-- Run-length form of a list of rendered entries: a maximal run of `n ≥ 2` equal consecutive entries `e` is written
`e*n` (long keep-alive sessions repeat the same response thousands of times). -/
def rleItem (s : String) (n : Nat) : String := if n == 1 then s else s!"{s}*{n}"

def rle : List String → List String
  | [] => []
  | x :: rest =>
    let (acc, cur, n) := rest.foldl
      (fun (st : List String × String × Nat) y =>
        let (acc, cur, n) := st
        if y == cur then (acc, cur, n + 1) else (rleItem cur n :: acc, y, 1))
      (([] : List String), x, 1)
    (rleItem cur n :: acc).reverse

/-- Cut specification of `harness/src/httpgen.rs::apply_cuts`. -/
def applyCuts (bytes : Bytes) (spec : String) : List Bytes :=
  let n := bytes.length
  let cuts : List Nat :=
    if spec == "w" then []
    else if spec == "1" then (List.range n).filter (· ≥ 1)
    else if spec.startsWith "k" then
      let k := max 1 ((spec.drop 1).toString.toNat?.getD 1)
      (List.range n).filter (fun i => i ≥ 1 && i % k == 0)
    else if spec.startsWith "c" then
      let xs := ((spec.drop 1).toString.splitOn ".").filterMap (·.toNat?)
      let xs := xs.filter (fun i => i > 0 && i < n)
      (xs.mergeSort (· ≤ ·)).eraseDups
    else []
  let rec go (prev : Nat) (rest : Bytes) : List Nat → List Bytes
    | [] => [rest]
    | c :: cs => rest.take (c - prev) :: go c (rest.drop (c - prev)) cs
  (go 0 bytes cuts).filter (!·.isEmpty)

/-- `ip oracle` argument: `hex(entry):hex(canonical)|-` pairs separated by `;`, or `-`. -/
def parseOracle (s : String) : List (Bytes × Option Bytes) :=
  if s == "-" then []
  else (s.splitOn ";").filterMap (fun p =>
    match p.splitOn ":" with
    | [k, v] => (unhex k).map (fun kb => (kb, if v == "-" then none else unhex v))
    | _ => none)

def oracleFn (m : List (Bytes × Option Bytes)) (e : Bytes) : Option Bytes :=
  match m.find? (fun p => p.1 = e) with
  | some (_, r) => r
  | none => none

/-- The same oracle as a bucket table (a forwarded chain of a thousand distinct addresses asks a thousand questions of a
thousand-entry list otherwise). Build it ONCE per case with a `let`, then pass `tab.lookup` as `parseIp`. -/
structure OracleTab where
  buckets : Array (List (Bytes × Option Bytes))

def oracleHash (b : Bytes) : Nat :=
  ((b.foldl (fun (h : UInt64) x => (h ^^^ x.toUInt64) * 0x100000001b3) 0xcbf29ce484222325) % 1024).toNat

def mkOracleTab (m : List (Bytes × Option Bytes)) : OracleTab :=
  -- filled from the back so that, within a bucket, the order of `m` (first match wins) is kept
  ⟨m.reverse.foldl (fun (a : Array (List (Bytes × Option Bytes))) p =>
      let i := oracleHash p.1
      a.set! i (p :: a[i]!)) (Array.replicate 1024 [])⟩

def OracleTab.lookup (t : OracleTab) (e : Bytes) : Option Bytes :=
  match (t.buckets[oracleHash e]!).find? (fun p => p.1 = e) with
  | some (_, r) => r
  | none => none

def insertUniq (x : Bytes) : List Bytes → List Bytes
  | [] => [x]
  | y :: ys => if x = y then y :: ys else if bytesLt x y then x :: y :: ys else y :: insertUniq x ys

def canonRequest (q : Request) : String :=
  let names := q.headers.foldl (fun acc h => insertUniq h.name.lower acc) []
  let hs := names.map (fun n =>
    hx n ++ "=" ++ ";".intercalate ((q.headers.getAll ⟨n⟩).map hx))
  let ck := (cookies q).map (fun (k, v) => hx k ++ "=" ++ hx v)
  let content := match q.content with | some c => hxl c | none => "-"
  s!"OK {String.fromUTF8! (ByteArray.mk q.method.name.toArray)} {hx q.uri} {hx q.query} {hx q.version} H[{",".intercalate hs}] C[{content}] A[{hx q.address.origin}/{";".intercalate (q.address.proxies.map hx)}/{q.address.port}] K[{";".intercalate ck}]"

def errName : ReqErr → String
  | .request => "ERR:Request" | .stream => "ERR:Stream"
  | .disconnected => "ERR:Disconnected" | .timeout => "ERR:Timeout"

end Humphrey.Driver.HttpD
