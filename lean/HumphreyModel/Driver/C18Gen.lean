import HumphreyModel.Driver.Util

/-!
Compact byte-string descriptions for the LENGTH sweeps of C18 (inputs up to a mebibyte do not fit a case line as
hex). A description is a `+`-separated list of segments; the harness (`harness/src/c18a.rs`, `Seg`) expands the
same description with the same rules and hands the bytes to the real code:

  `x<hex>`        these bytes (`x` alone: none)
  `<n>*<hex>`     the pattern `<hex>` (at least one byte) repeated cyclically, `n` bytes in all
  `<n>r<seed>`    `n` pseudo-random bytes: the little-endian bytes of the splitmix64 stream of `seed`
                  (`common::Rng::new(seed).bytes(n)`)
  `<n>b<seed>`    `n` pseudo-random Base64 symbols: `ALPHABET[byte % 64]` over the same stream
  `<n>c<start>`   the counting bytes `start, start+1, …` (mod 256)

Long outputs are compared by length and FNV-1a (64 bit): `#<len>:<16 hex digits>` when longer than 64 bytes,
plain hex otherwise (`hl`). Everything here is a loop with an accumulator: a mebibyte must not cost stack.
-/
namespace Humphrey.Driver.Gen
open Humphrey.Driver

def rngNew (seed : UInt64) : UInt64 := (seed * 0x9E3779B97F4A7C15) ^^^ 0xD1B54A32D192ED03

/-- One step of `Rng::next`: the new state and the output word. -/
def rngNext (s : UInt64) : UInt64 × UInt64 :=
  let s := s + 0x9E3779B97F4A7C15
  let z := (s ^^^ (s >>> 30)) * 0xBF58476D1CE4E5B9
  let z := (z ^^^ (z >>> 27)) * 0x94D049BB133111EB
  (s, z ^^^ (z >>> 31))

/-- `n` more bytes of the stream (each passed through `f`), pushed onto the reversed accumulator.
`w` holds the `k` bytes of the current word not yet used. -/
def randRev (f : UInt8 → UInt8) : Nat → UInt64 → UInt64 → Nat → Bytes → Bytes
  | 0, _, _, _, acc => acc
  | n + 1, s, _, 0, acc =>
    let (s', z) := rngNext s
    randRev f n s' (z >>> 8) 7 (f z.toUInt8 :: acc)
  | n + 1, s, w, k + 1, acc => randRev f n s (w >>> 8) k (f w.toUInt8 :: acc)

def b64Alphabet : Array UInt8 :=
  "ABCDEFGHIJKLMNOPQRSTUVWXYZabcdefghijklmnopqrstuvwxyz0123456789+/".toUTF8.data

def patRev (pat : Array UInt8) : Nat → Nat → Bytes → Bytes
  | 0, _, acc => acc
  | n + 1, i, acc => patRev pat n (if i + 1 == pat.size then 0 else i + 1) (pat[i]! :: acc)

def countRev : Nat → UInt8 → Bytes → Bytes
  | 0, _, acc => acc
  | n + 1, c, acc => countRev n (c + 1) (c :: acc)

/-- One segment pushed onto the reversed accumulator. -/
def segRev (seg : String) (acc : Bytes) : Option Bytes :=
  if seg.startsWith "x" then
    (unhex (seg.drop 1).toString).map (fun b => b.reverse ++ acc)
  else
    let cs := seg.toList
    let digits := cs.takeWhile Char.isDigit
    match (String.ofList digits).toNat?, cs.drop digits.length with
    | some n, '*' :: rest =>
      match unhex (String.ofList rest) with
      | some (p :: ps) => some (patRev (p :: ps).toArray n 0 acc)
      | _ => none
    | some n, 'r' :: rest =>
      (String.ofList rest).toNat?.map (fun seed => randRev id n (rngNew seed.toUInt64) 0 0 acc)
    | some n, 'b' :: rest =>
      (String.ofList rest).toNat?.map (fun seed =>
        randRev (fun x => b64Alphabet[(x % 64).toNat]!) n (rngNew seed.toUInt64) 0 0 acc)
    | some n, 'c' :: rest =>
      (String.ofList rest).toNat?.map (fun st => countRev n st.toUInt8 acc)
    | _, _ => none

/-- The bytes a description stands for. -/
def bytesOf (spec : String) : Option Bytes :=
  ((spec.splitOn "+").foldlM (fun acc seg => segRev seg acc) []).map List.reverse

def fnv (b : Bytes) : UInt64 :=
  b.foldl (fun h x => (h ^^^ x.toUInt64) * 0x100000001b3) 0xcbf29ce484222325

def hex16 (h : UInt64) : String :=
  String.ofList ((List.range 16).map (fun i => hexDigit ((h >>> (60 - 4 * i).toUInt64).toUInt8 &&& 15)))

/-- Hex when short, `#len:fnv` when longer than 64 bytes. -/
def hl (b : Bytes) : String :=
  if b.length > 64 then s!"#{b.length}:{hex16 (fnv b)}" else hex b

end Humphrey.Driver.Gen
