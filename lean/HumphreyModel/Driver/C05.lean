import HumphreyModel.Driver.Util
import HumphreyModel.Model.Glob

namespace Humphrey.Driver.C05
open Humphrey Humphrey.Driver

def dispatch (fn : String) (args : List String) (impl : String) : Option Verdict :=
  match fn, args with
  -- `route`: the same question asked through `String::route_matches` (route.rs), the entry point routing uses
  | "route", [p, t] | "glob", [p, t] =>
    match (unhex p).bind utf8?, (unhex t).bind utf8? with
    | some p, some t =>
      let m := boolStr (Glob.wildcardMatch p.toList t.toList)
      -- `wildcard_match_iff_glob` makes the model the spec: any other answer violates C05
      some { model := m, spec := some (impl == m) }
    | _, _ => some { model := "BADARGS" }
  | _, _ => none

end Humphrey.Driver.C05
