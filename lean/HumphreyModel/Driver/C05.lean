import HumphreyModel.Driver.Util
import HumphreyModel.Model.Glob

namespace Humphrey.Driver.C05
open Humphrey Humphrey.Driver

/-- `n` copies of `u` in front of `acc` (a loop: tail call, `u` is short or `n` is small). -/
def repPrepend : Nat → List Char → List Char → List Char
  | 0, _, acc => acc
  | n + 1, u, acc => repPrepend n u (u ++ acc)

/-- One run-length segment: `R<count>*<hex>` = `count` copies of the UTF-8 text `hex`; plain `<hex>` = one copy.
Every segment is valid UTF-8 on its own. -/
def parseSeg (s : List Char) : Option (Nat × List Char) :=
  match s with
  | 'R' :: rest =>
    let digits := rest.takeWhile (· != '*')
    match rest.dropWhile (· != '*') with
    | '*' :: h => do
      let n ← (String.ofList digits).toNat?
      let u ← (unhexAux h []).bind utf8?
      pure (n, u.toList)
    | _ => none
  | h => do
    let u ← (unhexAux h []).bind utf8?
    pure (1, u.toList)

/-- A run-length encoded text: segments separated by `,` (the empty field is the empty text). Long repetitive
strings (a wildcard that must absorb two million characters) stay a few bytes in the case line; the harness expands
the same encoding the same way (`c05.rs::expand`). -/
def expand (field : String) : Option (List Char) := do
  let segs ← (field.splitOn ",").mapM (fun s => parseSeg s.toList)
  pure (segs.foldr (fun (s : Nat × List Char) acc => repPrepend s.1 s.2 acc) [])

def dispatch (fn : String) (args : List String) (impl : String) : Option Verdict :=
  match fn, args with
  -- `route`: the same question asked through `String::route_matches` (route.rs), the entry point routing uses
  | "route", [p, t] | "glob", [p, t] =>
    match (unhex p).bind utf8?, (unhex t).bind utf8? with
    | some p, some t =>
      let m := boolStr (Glob.wildcardMatch p.toList t.toList)
      -- `wildcard_match_iff_glob` makes the model the spec: any other answer violates C05
      some { model := m, spec := some (impl == m) }
    | _, _ => some { model := "BADARGS" }
  -- the same two entry points on run-length encoded (long) patterns and texts
  | "router", [p, t] | "globr", [p, t] =>
    match expand p, expand t with
    | some p, some t =>
      let m := boolStr (Glob.wildcardMatch p t)
      some { model := m, spec := some (impl == m) }
    | _, _ => some { model := "BADARGS" }
  | _, _ => none

end Humphrey.Driver.C05
