import HumphreyModel.Driver.Util
import HumphreyModel.Model.Pool
import HumphreyModel.Spec.Pool

/-!
Trace acceptance for C08. A case is `pool, N, script, panicking ids, event log`; the implementation's
output is the harness's end-of-run summary. The log (tokens written by `harness/src/c08.rs` from the
H3 events) is replayed through `Pool.step`; an event the model does not allow at that point is a
disagreement between model and code and is reported with its index (`REJECT@i:token`).
The verdict's `model` field is the same summary computed from the model's end state; `spec` judges
the implementation's summary alone (`PoolSpec.Summary.ok`).
-/
namespace Humphrey.Driver.C08
open Humphrey Humphrey.Driver Humphrey.Pool

def natOf (cs : List Char) : Option Nat :=
  if cs.isEmpty then none else (String.ofList cs).toNat?

/-- `k.w` -/
def pairOf (cs : List Char) : Option (Nat × Nat) :=
  match (String.ofList cs).splitOn "." with
  | [a, b] => match a.toNat?, b.toNat? with
    | some x, some y => some (x, y)
    | _, _ => none
  | _ => none

structure RS where
  s : State := init
  maxRun : Nat := 0
  stopPanicked : Bool := false

def stepL (c : Cfg) (r : RS) (l : Label) : Option RS :=
  match step c r.s l with
  | some s' => some { r with s := s', maxRun := max r.maxRun (runningCount s'.workers) }
  | none => none

def check (r : RS) (b : Bool) : Option RS := if b then some r else none

/-- One token of the event log. `none` = the model does not allow this event here. -/
def token (c : Cfg) (r : RS) (t : String) : Option RS :=
  match t.toList with
  | [] => none
  | 's' :: [] => some r
  | 't' :: [] => check r (r.s.life == .stopped)
  | 'h' :: [] => check r (r.s.caller == .dropRec && r.s.life == .started)
  | 'E' :: [] => stepL c r (.submit r.s.submitted.length)
  | 'T' :: [] => if stopPanics r.s then some { r with stopPanicked := true } else stepL c r .stop
  | 'D' :: [] => stepL c r .dropBegin
  | 'H' :: [] => stepL c r .dropDetachRecovery
  | 'X' :: [] => stepL c r .dropSender
  | 'S' :: rest => match natOf rest with
    | some n => if n == c.n then stepL c r .start else none
    | none => none
  | 'r' :: rest =>
    match natOf rest.dropLast, rest.getLast? with
    | some w, some kind =>
      (stepL c r (.recv w)).bind fun r' =>
        check r' (match r'.s.workers[w]?, kind with
          | some (.got (some (.task _))), 't' => true
          | some (.got (some .shutdown)), 's' => true
          | some (.got none), 'd' => true
          | _, _ => false)
    | _, _ => none
  | 'b' :: rest => match pairOf rest with
    | some (k, w) => check r (r.s.workers[w]? == some (.running k))
    | none => none
  | 'e' :: rest => match pairOf rest with
    | some (k, w) => check r (r.s.workers[w]? == some (.running k) && !c.panics k)
    | none => none
  | 'c' :: rest => match pairOf rest with
    | some (k, w) => check r (r.s.workers[w]? == some (.running k) && c.panics k)
    | none => none
  | ch :: rest =>
    match natOf rest with
    | none => none
    | some w =>
      match ch with
      | 'q' => stepL c r (.reqLock w)
      | 'l' => stepL c r (.lock w)
      | 'u' => stepL c r (.unlock w)
      | 'n' => stepL c r (.run w)
      | 'f' => stepL c r (.finish w)
      | 'p' => stepL c r (.panic w)
      | 'm' => stepL c r (.markerSend w)
      | 'x' => stepL c r (.exit w)
      | 'R' => stepL c r (.recRecv w)
      | 'J' => (check r (r.s.recov == .joining w)).bind fun r => stepL c r .recJoin
      | 'P' => (check r (r.s.recov == .respawning w)).bind fun r => stepL c r .recRespawn
      -- the detach loop runs inside one critical section; its first iteration stands for the step
      | 'd' => if w == 0 then stepL c r .dropDetach else check r (r.s.caller == .dropTx)
      | _ => none

def replay (c : Cfg) : RS → Nat → List String → Except String RS
  | r, _, [] => .ok r
  | r, i, t :: ts =>
    match token c r t with
    | some r' => replay c r' (i + 1) ts
    | none => .error s!"REJECT@{i}:{t}"

def countChar (s : String) (p : Char → Bool) : Nat := (s.toList.filter p).length

/-- `q`, `r`, `s` are `p` with another panic payload (literal message, formatted message, non-string value); `M` / `m`
in a script register a monitor and are no pool operation. -/
def isTaskLetter (ch : Char) : Bool :=
  ch == 'e' || ch == 'p' || ch == 'q' || ch == 'r' || ch == 's' || ch == 'b'

/-- The summary in the harness's format, read off the model's end state. -/
def modelSummary (c : Cfg) (script : String) (r : RS) : String :=
  let s := r.s
  let runs := (List.range s.submitted.length).map fun k => toString (s.started.count k)
  let hasBarrier := script.toList.contains 'b'
  let barrier := if !hasBarrier then "na" else if r.maxRun == c.n then "ok" else "notreached"
  let caller := if s.caller == .done then "returned" else "indrop"
  let base := s!"runs={",".intercalate runs};exited={exitedCount s.workers};caller={caller};barrier={barrier};stoppanic={if r.stopPanicked then 1 else 0}"
  -- end-state predicates on the model side: nothing can move any more and every task is accounted for
  let done := s.submitted.all fun k => s.finished.contains k || s.panicked.contains k
  let base := if terminalB c s then base else base ++ ";model-not-terminal"
  if done then base else base ++ ";model-tasks-left"

def parseSummary (impl : String) : Option PoolSpec.Summary :=
  if impl == "WEDGED" then some { wedged := true, runs := [], exited := 0, barrierTimeout := false }
  else
    let kv := (impl.splitOn ";").map fun f => match f.splitOn "=" with
      | [a, b] => (a, b)
      | _ => ("", "")
    match kv.lookup "runs", kv.lookup "exited", kv.lookup "caller", kv.lookup "barrier" with
    | some runs, some ex, some "returned", some bar =>
      let rs := if runs.isEmpty then some [] else (runs.splitOn ",").mapM String.toNat?
      match rs, ex.toNat? with
      | some rs, some e => some { wedged := false, runs := rs, exited := e, barrierTimeout := bar == "timeout" }
      | _, _ => none
    | _, _, _, _ => none

def dispatch (fn : String) (args : List String) (impl : String) : Option Verdict :=
  match fn, args with
  | "pool", [n, script, panics, log] =>
    match n.toNat? with
    | none => some { model := "BADARGS" }
    | some n =>
      let ids := if panics.isEmpty then some [] else (panics.splitOn ",").mapM String.toNat?
      match ids with
      | none => some { model := "BADARGS" }
      | some ids =>
        let c : Cfg := { n := n, panics := fun k => ids.contains k }
        let toks := (log.splitOn " ").filter (fun t => !t.isEmpty)
        let tasks := countChar script isTaskLetter
        let workers := if script.toList.contains 'S' then n else 0
        let spec := match parseSummary impl with
          | some s => some (s.ok tasks workers)
          | none => some false
        match replay c {} 0 toks with
        | .error e => some { model := e, spec := spec }
        | .ok r => some { model := modelSummary c script r, spec := spec }
  | _, _ => none

end Humphrey.Driver.C08
