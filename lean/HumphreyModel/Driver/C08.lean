import HumphreyModel.Driver.Util
import HumphreyModel.Model.Pool
import HumphreyModel.Spec.Pool

/-!
Trace acceptance for C08. A case is `pool, N, script, panicking ids, event log`; the implementation's
output is the harness's end-of-run summary. The log (tokens written by `harness/src/c08.rs` from the
H3 events) is replayed through `Pool.step`; an event the model does not allow at that point is a
disagreement between model and code and is reported with its index (`REJECT@i:token`).
The verdict's `model` field is the same summary computed from the model's end state; `spec` judges
the implementation's summary alone (`PoolSpec.Summary.ok`).

Scripts OUTSIDE the model: the transition system (and every theorem about it) describes ONE run of the pool, `start` is
enabled only in `created`. A script that starts the pool more than once, or stops it more than once, is not replayed
through the model (worker ids are reused by every run, so its log is not a word over `Label`): the verdict carries no
model comparison (`model := impl`) and the case is judged by the executable spec alone — `Summary.ok` with N workers
per start on the implementation's summary and `LogCounts.ok` on counts read off its event log. The same holds for a
script whose log was not kept (`-`, more than 5 000 tasks): summary alone.

A REPLAYED case (`./check C08 --replay`) carries the event log of the replay run behind its summary (`…|relog=<log>`):
the stored log field belongs to the run that was recorded, so the replay's own log is the one that is judged.

Task letters may carry a repeat count (`e1000`); `runs=` is run-length encoded (`1x1000`) above 64 tasks.
-/
namespace Humphrey.Driver.C08
open Humphrey Humphrey.Driver Humphrey.Pool

def natOf (cs : List Char) : Option Nat :=
  if cs.isEmpty then none else (String.ofList cs).toNat?

/-- `k.w` -/
def pairOf (cs : List Char) : Option (Nat × Nat) :=
  match (String.ofList cs).splitOn "." with
  | [a, b] => match a.toNat?, b.toNat? with
    | some x, some y => some (x, y)
    | _, _ => none
  | _ => none

structure RS where
  s : State := init
  maxRun : Nat := 0
  stopPanicked : Bool := false

def stepL (c : Cfg) (r : RS) (l : Label) : Option RS :=
  match step c r.s l with
  | some s' => some { r with s := s', maxRun := max r.maxRun (runningCount s'.workers) }
  | none => none

def check (r : RS) (b : Bool) : Option RS := if b then some r else none

/-- One token of the event log. `none` = the model does not allow this event here. -/
def token (c : Cfg) (r : RS) (t : String) : Option RS :=
  match t.toList with
  | [] => none
  | 's' :: [] => some r
  | 't' :: [] => check r (r.s.life == .stopped)
  | 'h' :: [] => check r (r.s.caller == .dropRec && r.s.life == .started)
  | 'E' :: [] => stepL c r (.submit r.s.submitted.length)
  | 'T' :: [] => if stopPanics r.s then some { r with stopPanicked := true } else stepL c r .stop
  | 'D' :: [] => stepL c r .dropBegin
  | 'H' :: [] => stepL c r .dropDetachRecovery
  | 'X' :: [] => stepL c r .dropSender
  | 'S' :: rest => match natOf rest with
    | some n => if n == c.n then stepL c r .start else none
    | none => none
  | 'r' :: rest =>
    match natOf rest.dropLast, rest.getLast? with
    | some w, some kind =>
      (stepL c r (.recv w)).bind fun r' =>
        check r' (match r'.s.workers[w]?, kind with
          | some (.got (some (.task _))), 't' => true
          | some (.got (some .shutdown)), 's' => true
          | some (.got none), 'd' => true
          | _, _ => false)
    | _, _ => none
  | 'b' :: rest => match pairOf rest with
    | some (k, w) => check r (r.s.workers[w]? == some (.running k))
    | none => none
  | 'e' :: rest => match pairOf rest with
    | some (k, w) => check r (r.s.workers[w]? == some (.running k) && !c.panics k)
    | none => none
  | 'c' :: rest => match pairOf rest with
    | some (k, w) => check r (r.s.workers[w]? == some (.running k) && c.panics k)
    | none => none
  | ch :: rest =>
    match natOf rest with
    | none => none
    | some w =>
      match ch with
      | 'q' => stepL c r (.reqLock w)
      | 'l' => stepL c r (.lock w)
      | 'u' => stepL c r (.unlock w)
      | 'n' => stepL c r (.run w)
      | 'f' => stepL c r (.finish w)
      | 'p' => stepL c r (.panic w)
      | 'm' => stepL c r (.markerSend w)
      | 'x' => stepL c r (.exit w)
      | 'R' => stepL c r (.recRecv w)
      | 'J' => (check r (r.s.recov == .joining w)).bind fun r => stepL c r .recJoin
      | 'P' => (check r (r.s.recov == .respawning w)).bind fun r => stepL c r .recRespawn
      -- the detach loop runs inside one critical section; its first iteration stands for the step
      | 'd' => if w == 0 then stepL c r .dropDetach else check r (r.s.caller == .dropTx)
      | _ => none

def replay (c : Cfg) : RS → Nat → List String → Except String RS
  | r, _, [] => .ok r
  | r, i, t :: ts =>
    match token c r t with
    | some r' => replay c r' (i + 1) ts
    | none => .error s!"REJECT@{i}:{t}"

def countChar (s : String) (p : Char → Bool) : Nat := (s.toList.filter p).length

/-- `q`, `r`, `s` are `p` with another panic payload (literal message, formatted message, non-string value); `h` / `x` are
held until the caller opens the gate, then return / panic; `M` / `m` in a script register a monitor and are no pool
operation. -/
def isTaskLetter (ch : Char) : Bool :=
  ch == 'e' || ch == 'p' || ch == 'q' || ch == 'r' || ch == 's' || ch == 'b' || ch == 'h' || ch == 'x'

/-- Number of task submissions in a script: a task letter counts once, or as often as the decimal number behind it
says. State: (total, current letter is a task letter, digits read so far for it). -/
def taskCount (script : String) : Nat :=
  let close (st : Nat × Bool × Option Nat) : Nat :=
    match st with
    | (tot, true, none) => tot + 1
    | (tot, true, some k) => tot + k
    | (tot, false, _) => tot
  close (script.toList.foldl (fun st ch =>
    if ch.isDigit then
      let d := ch.toNat - '0'.toNat
      match st with
      | (tot, t, none) => (tot, t, some d)
      | (tot, t, some k) => (tot, t, some (k * 10 + d))
    else (close st, isTaskLetter ch, none)) (0, false, none))

def rle : List Nat → List (Nat × Nat) → List (Nat × Nat)
  | [], acc => acc.reverse
  | x :: xs, (y, k) :: acc => if x == y then rle xs ((y, k + 1) :: acc) else rle xs ((x, 1) :: (y, k) :: acc)
  | x :: xs, [] => rle xs [(x, 1)]

/-- `runs=` field: plain up to 64 tasks, run-length encoded above. -/
def runsField (runs : List Nat) : String :=
  if runs.length > 64 then ",".intercalate ((rle runs []).map fun (v, k) => s!"{v}x{k}")
  else ",".intercalate (runs.map toString)

/-- How often each of the first `n` task ids occurs in `xs`, in one pass per 4096 ids (the lists are long). -/
def countsUpTo (n : Nat) (xs : List Nat) : List Nat :=
  let arr := xs.foldl (fun (a : Array Nat) k => if k < a.size then a.modify k (· + 1) else a) (Array.replicate n 0)
  arr.toList

/-- The summary in the harness's format, read off the model's end state. -/
def modelSummary (c : Cfg) (script : String) (r : RS) : String :=
  let s := r.s
  let runs := countsUpTo s.submitted.length s.started
  let hasBarrier := script.toList.contains 'b'
  let barrier := if !hasBarrier then "na" else if r.maxRun == c.n then "ok" else "notreached"
  let caller := if s.caller == .done then "returned" else "indrop"
  let base := s!"runs={runsField runs};exited={exitedCount s.workers};caller={caller};barrier={barrier};stoppanic={if r.stopPanicked then 1 else 0}"
  -- a settle point `W` waits for the recovery of every panic: `panic_recovery_restores` (plus fairness) says it comes
  let base := if script.toList.contains 'W' then base ++ ";settle=ok" else base
  -- end-state predicates on the model side: nothing can move any more and every task is accounted for
  let doneCounts := countsUpTo s.submitted.length (s.finished ++ s.panicked)
  let done := doneCounts.all (· ≥ 1)
  let base := if terminalB c s then base else base ++ ";model-not-terminal"
  if done then base else base ++ ";model-tasks-left"

def parseRuns (runs : String) : Option (List Nat) :=
  if runs.isEmpty then some []
  else
    (runs.splitOn ",").foldlM (fun (acc : List Nat) f =>
      match f.splitOn "x" with
      | [a] => a.toNat?.map fun v => acc ++ [v]
      | [a, b] => match a.toNat?, b.toNat? with
        | some v, some k => some (acc ++ List.replicate k v)
        | _, _ => none
      | _ => none) []

def parseSummary (impl : String) : Option PoolSpec.Summary :=
  if impl == "WEDGED" then some { wedged := true, runs := [], exited := 0, barrierTimeout := false }
  else
    let kv := (impl.splitOn ";").map fun f => match f.splitOn "=" with
      | [a, b] => (a, b)
      | _ => ("", "")
    match kv.lookup "runs", kv.lookup "exited", kv.lookup "caller", kv.lookup "barrier" with
    | some runs, some ex, some "returned", some bar =>
      match parseRuns runs, ex.toNat? with
      | some rs, some e => some { wedged := false, runs := rs, exited := e, barrierTimeout := bar == "timeout",
                                  settleTimeout := kv.lookup "settle" == some "timeout" }
      | _, _ => none
    | _, _, _, _ => none

/-- Counts that can be read off a log whatever run a worker id belongs to (`PoolSpec.LogCounts`). -/
def logCounts (toks : List String) : PoolSpec.LogCounts :=
  toks.foldl (fun (l : PoolSpec.LogCounts) t =>
    match t.toList with
    | 'b' :: rest => match pairOf rest with
      | some (k, _) => { l with bodies := k :: l.bodies }
      | none => l
    | 'p' :: _ => { l with unwound := l.unwound + 1 }
    | 'm' :: _ => { l with markers := l.markers + 1 }
    | 'P' :: _ => { l with respawns := l.respawns + 1 }
    | 'x' :: _ => { l with exits := l.exits + 1 }
    | 'S' :: _ => { l with starts := l.starts + 1 }
    | _ => l) { bodies := [], unwound := 0, markers := 0, respawns := 0, exits := 0, starts := 0 }

def dispatch (fn : String) (args : List String) (impl : String) : Option Verdict :=
  match fn, args with
  | "pool", [n, script, panics, log0] =>
    -- a replayed case carries the log of the replay run behind its summary; that log is the one to judge
    let (impl1, log, wrap) := match impl.splitOn "|relog=" with
      | [a, b] => (a, b, fun (m : String) => m ++ "|relog=" ++ b)
      | _ => (impl, log0, fun (m : String) => m)
    match n.toNat? with
    | none => some { model := "BADARGS" }
    | some n =>
      let ids := if panics.isEmpty then some [] else (panics.splitOn ",").mapM String.toNat?
      match ids with
      | none => some { model := "BADARGS" }
      | some ids =>
        let tasks := taskCount script
        let starts := countChar script (· == 'S')
        let stops := countChar script (· == 'T')
        let workers := n * starts
        let (spec, reason) := match parseSummary impl1 with
          | some s => (s.ok tasks workers, s.failed tasks workers)
          | none => (false, if impl1 == "CHILD-DIED" then "process-died" else "unreadable-summary")
        if log == "-" then
          -- the log was not kept: no model comparison, summary alone
          some { model := impl, spec := some spec, reason := reason }
        else
          let toks := (log.splitOn " ").filter (fun t => !t.isEmpty)
          if starts > 1 || stops > 1 then
            -- outside the model (see the header): executable spec on the implementation's summary and log counts
            let lc := logCounts toks
            let lok := lc.ok n tasks ids.length && lc.starts == starts
            let reason := if !spec then reason else if !lok then "log-counts" else ""
            some { model := impl, spec := some (spec && lok), reason := reason }
          else
            -- membership in the panicking set: the ids are ascending, an array of flags makes the test O(1)
            let flags := ids.foldl (fun (a : Array Bool) k => if k < a.size then a.set! k true else a) (Array.replicate tasks false)
            let c : Cfg := { n := n, panics := fun k => flags.getD k false }
            match replay c {} 0 toks with
            | .error e => some { model := wrap e, spec := some spec, reason := reason }
            | .ok r => some { model := wrap (modelSummary c script r), spec := some spec, reason := reason }
  | _, _ => none

end Humphrey.Driver.C08
