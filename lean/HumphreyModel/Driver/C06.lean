import HumphreyModel.Driver.Util
import HumphreyModel.Model.Fs
import HumphreyModel.Model.Glob

/-!
C06 driver. One case = one request to one handler against one world.

`serve_dir            <tree> <dir> <route> <uri> <tag>`
`serve_as_file_path   <tree> <dir> <->     <uri> <tag>`
`directory_handler    <tree> <dir> <pattern> <uri> <tag>`
`file_handler         <tree> <file> <-> <uri> <->`

`<tree>`  the world root's entries: `F<hex name>:<hex content>;` for a file, `D<hex name>{ … }` for a
          directory. Every canary file's content contains the bytes `CANARY`.
`<dir>`   hex of the directory text relative to the world root (the harness prefixes the work directory).
`<uri>`, `<route>`, `<pattern>` hex of UTF-8 text.
`<tag>`   `-`, or `P<0|1>:<hex path>`: the harness claims that the URI is the proper spelling of the object
          at that relative path inside the directory (`1` = with trailing slash). The claim is re-checked
          here (object exists, names plain, the URI denotes the path) and ignored when it does not hold.

Output: `200|<hex content-type or ->|<length>|<fnv1a32>|<canary 0/1>`, `301|<hex Location>|<canary>`,
`<status>|<canary>`, `PANIC`.

`Verdict.spec` judges the IMPLEMENTATION's output by the property: no canary bytes; a 200 body is the
content of a regular file inside the directory (length and hash of one of them); no panic on a URI that
matches the route pattern; a verified `P` case must be answered exactly as the theorems of `Props/C06.lean`
prove the model answers (file intact with the MIME type of its extension, 301 to the slash form, index
rule).
-/
namespace Humphrey.Driver.C06
open Humphrey Humphrey.Driver Humphrey.Fs

def isHexChar (c : Char) : Bool := (hexVal c).isSome

/-- Entries up to the closing `}` (or the end of input at the top level). -/
partial def parseEntries (s : List Char) (acc : List (Name × Node)) : Option (List (Name × Node) × List Char) :=
  match s with
  | [] => some (acc.reverse, [])
  | '}' :: rest => some (acc.reverse, rest)
  | 'F' :: rest =>
    let nm := rest.takeWhile isHexChar
    match rest.dropWhile isHexChar with
    | ':' :: r =>
      let ct := r.takeWhile isHexChar
      match r.dropWhile isHexChar with
      | ';' :: r' =>
        match unhexAux nm [], unhexAux ct [] with
        | some n, some c => parseEntries r' ((n, .file c) :: acc)
        | _, _ => none
      | _ => none
    | _ => none
  -- `G<name>:<length>x<byte>;` — a file of `length` copies of one byte (large files)
  | 'G' :: rest =>
    let nm := rest.takeWhile isHexChar
    match rest.dropWhile isHexChar with
    | ':' :: r =>
      let ds := r.takeWhile Char.isDigit
      match r.dropWhile Char.isDigit with
      | 'x' :: r1 =>
        let bt := r1.takeWhile isHexChar
        match r1.dropWhile isHexChar with
        | ';' :: r' =>
          match unhexAux nm [], unhexAux bt [], (String.ofList ds).toNat? with
          | some n, some [b], some len => parseEntries r' ((n, .file (List.replicate len b)) :: acc)
          | _, _, _ => none
        | _ => none
      | _ => none
    | _ => none
  | 'D' :: rest =>
    let nm := rest.takeWhile isHexChar
    match rest.dropWhile isHexChar with
    | '{' :: r =>
      match unhexAux nm [], parseEntries r [] with
      | some n, some (children, r') => parseEntries r' ((n, .dir children) :: acc)
      | _, _ => none
    | _ => none
  | _ => none

def parseTree (s : String) : Option Node :=
  match parseEntries s.toList [] with
  | some (es, []) => some (.dir es)
  | _ => none

def fnvLen : UInt32 → Nat → List UInt8 → UInt32 × Nat
  | h, n, [] => (h, n)
  | h, n, x :: rest => fnvLen ((h ^^^ x.toUInt32) * 16777619) (n + 1) rest

def canaryMark : Bytes := [67, 65, 78, 65, 82, 89]   -- "CANARY"

def hasCanary : Bytes → Bool
  | [] => false
  | b :: rest => canaryMark.isPrefixOf (b :: rest) || hasCanary rest

def optHex : Option Bytes → String
  | some b => if b.isEmpty then "e" else hex b
  | none => "-"

def render : Resp → String
  | .ok ct body _ =>
    let (h, n) := fnvLen 2166136261 0 body
    s!"200|{optHex ct}|{n}|{h.toNat}|{boolStr (hasCanary body)}"
  | .moved loc => s!"301|{hex loc}|0"
  | .notFound => "404|0"
  | .internalError => "500|0"
  | .panic => "PANIC"

/-- (length, hash) of every regular file below a node. -/
partial def fileSigs : Node → List (Nat × Nat)
  | .file c => let (h, n) := fnvLen 2166136261 0 c; [(n, h.toNat)]
  | .dir es => es.flatMap (fun e => fileSigs e.2)

def plainName (n : Name) : Bool :=
  !n.isEmpty && !n.contains 47 && !n.contains 0 && n != [46] && !hasDotDot n && !n.contains 58

inductive Handler | serveDir | serveAsFilePath | directoryHandler

/-- Is the `P` claim true? The object exists inside the directory, its names are plain, the path is valid
UTF-8, and the URI denotes it for this handler. -/
def tagHolds (h : Handler) (world : Node) (dir : Bytes) (route uri : List Char) (slash : Bool)
    (path : Bytes) : Bool :=
  let comps := if path.isEmpty then [] else components path
  let dirNode := (walk world [] (components (match h with
    | .serveAsFilePath => stripOneEndSlash dir
    | _ => trimEndSlash dir))).bind (lookup world)
  match dirNode with
  | some (.dir es) =>
    match lookup (.dir es) comps with
    | some obj =>
      let shapeOk := match obj with
        | .file _ => !slash && !comps.isEmpty
        | .dir _ => slash || !comps.isEmpty
      let text := if slash && !comps.isEmpty then path ++ [47] else path
      let denotes := match h with
        | .serveAsFilePath => utf8 uri == 47 :: text && !slash
        | .serveDir =>
          match stripPrefix (stripStarSuffix route) uri with
          | some rest => (Percent.decode (utf8 rest)).map trimStartSlash == some text
          | none => false
        | .directoryHandler =>
          match stripMatched route uri with
          | some rest => (Percent.decode (utf8 rest)).map trimStartSlash == some text
          | none => false
      shapeOk && comps.all plainName && Bytes.utf8Valid path && denotes
    | none => false
  | _ => false

def parseTag (t : String) : Option (Bool × Bytes) :=
  match t.toList with
  | 'P' :: s :: ':' :: rest => (unhexAux rest []).map (fun p => (s == '1', p))
  | _ => none

def judge (h : Handler) (world : Node) (dir : Bytes) (route uri : List Char) (tag : String)
    (model impl : String) : Bool × String :=
  let f := impl.splitOn "|"
  let dirNode := (walk world [] (components (trimEndSlash dir))).bind (lookup world)
  let sigs := match dirNode with
    | some n => fileSigs n
    | none => []
  let canarySeen := f.getLast? == some "1"
  let matched := match h with
    | .directoryHandler => Glob.wildcardMatch route uri
    | _ => true
  if canarySeen then (false, "canary")
  else if impl == "PANIC" then (if matched then (false, "panic") else (true, ""))
  else
    let inside := match f with
      | ["200", _, n, hsh, _] => sigs.contains (n.toNat!, hsh.toNat!)
      | _ => true
    if !inside then (false, "outside")
    else
      match parseTag tag with
      | some (slash, path) =>
        if tagHolds h world dir route uri slash path && impl != model then (false, "proper-path") else (true, "")
      | none => (true, "")

def run (h : Handler) (tree dir route uri tag impl : String) : Verdict :=
  match parseTree tree, unhex dir, (unhex route).bind utf8?, (unhex uri).bind utf8? with
  | some world, some dir, some route, some uri =>
    let route := route.toList
    let uri := uri.toList
    let m := render (match h with
      | .serveDir => serveDir world dir uri route
      | .serveAsFilePath => serveAsFilePath world dir uri
      | .directoryHandler => directoryHandler world dir uri route)
    let (ok, why) := judge h world dir route uri tag m impl
    { model := m, spec := some ok, reason := why }
  | _, _, _, _ => { model := "BADARGS" }

def dispatch (fn : String) (args : List String) (impl : String) : Option Verdict :=
  match fn, args with
  | "serve_dir", [tree, dir, route, uri, tag] => some (run .serveDir tree dir route uri tag impl)
  | "serve_as_file_path", [tree, dir, _, uri, tag] => some (run .serveAsFilePath tree dir "" uri tag impl)
  -- the async twins (humphrey built with `--features tokio`) must behave exactly like the threaded handlers
  | "serve_dir_tokio", [tree, dir, route, uri, tag] => some (run .serveDir tree dir route uri tag impl)
  | "serve_as_file_path_tokio", [tree, dir, _, uri, tag] => some (run .serveAsFilePath tree dir "" uri tag impl)
  | "directory_handler", [tree, dir, pat, uri, tag] => some (run .directoryHandler tree dir pat uri tag impl)
  | "file_handler", [tree, file, _, _, _] =>
    match parseTree tree, unhex file with
    | some world, some file =>
      let m := render (fileHandler world file)
      -- the configured file is the operator's choice; the property speaks of directory routes only
      some { model := m, spec := none }
    | _, _ => some { model := "BADARGS" }
  | _, _ => none

end Humphrey.Driver.C06
