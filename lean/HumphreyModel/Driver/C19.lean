import HumphreyModel.Driver.C02
import HumphreyModel.Driver.C16
import HumphreyModel.Model.Blacklist
import HumphreyModel.Spec.Blacklist

/-!
Driver for C19. Case functions:

* `bl <mode> <list> <peer> <route> <cache> <request> <ip-oracle> <fresh>`       (in-process: the connection condition
  on a real loopback socket, `Request::from_stream`, the route's pub handler)
  implementation output: `<admitted 0|1> <response> up=<0|1>`
* `bl_e2e <same arguments>`                                                      (the `humphrey` binary, a real client)
  implementation output: `CLOSED` (end of stream before any byte) or `<response> up=<0|1>`

`mode` = `block|forbidden`; `list` = `-` or `;`-joined hex of the canonical text of each listed address; `peer` = the
canonical text of the address the client connects from; `route` = `file|directory|proxy|redirect`;
`cache` = `<size limit>,<time limit>,<now>,<host>,<prime>` with `prime` = `-` or `<t0>:<size>:<fill>` (before the request the
cache received `set(request.uri, host, pattern(size, fill), text/plain)` at time `t0`; size limit 0 = cache off);
`request` = hex of the request bytes; `ip-oracle` as in C02 (`IpAddr::from_str` on every forwarded entry);
`fresh` = the response the remainder of the handler gives to any client (computed by the generator from what it put
behind the route).  `<response>` = `<status>:<fnv1a64 of the body>:<hex Location or ->` or `PANIC`;
`up` says whether the proxy's upstream saw a request.

`Verdict.spec`: the implementation's observation (closed / 403 / content) judged by `BlacklistSpec.Holds` for the peer and
the forwarded addresses; a contacted upstream on behalf of a listed party is a violation as well.
-/
namespace Humphrey.Driver.C19
open Humphrey Humphrey.Driver Humphrey.Driver.HttpD Humphrey.Http Humphrey.Blacklist

def forbiddenBody : Bytes := strBytes "<h1>403 Forbidden</h1>"

def renderOutcome : Outcome → String
  | .closedNoResponse => "CLOSED"
  | .forbidden403 => s!"403:{hex64 (fnv forbiddenBody)}:-"
  | .served (.cached it) => s!"200:{hex64 (fnv it.data)}:-"
  | .served (.fresh rest) => rest
  | .panic => "PANIC"

def isServed : Outcome → Bool
  | .served _ => true
  | _ => false

structure Case where
  cfg : BlCfg
  peer : Ip
  hs : Headers
  route : Route
  isProxy : Bool
  oracle : Bytes → Option Ip

def parseList (s : String) : Option (List Ip) :=
  if s == "-" then some [] else (s.splitOn ";").mapM unhex

def parseCase (mode list peer route cache req oracle fresh : String) : Option Case := do
  let m ← if mode == "block" then some Mode.block else if mode == "forbidden" then some Mode.forbidden else none
  let l ← parseList list
  let bs ← unhex req
  let tab := mkOracleTab (parseOracle oracle)
  let orc := tab.lookup
  let env : Env := ⟨strBytes peer, 0, orc⟩
  let q ← match C02.parseChunks env [bs] with
    | .ok (q, _) => some q
    | _ => none
  let uri ← utf8? q.uri
  let cc ← match cache.splitOn "," with
    | [limit, tl, now, host, prime] => do
      let limit ← limit.toNat?; let tl ← tl.toNat?; let now ← now.toNat?; let host ← host.toNat?
      let c0 := Cache.empty limit tl
      let c ← if prime == "-" then some c0 else
        match prime.splitOn ":" with
        | [t0, size, fill] => do
          let t0 ← t0.toNat?; let size ← size.toNat?; let fill ← fill.toNat?
          match Cache.set t0 c0 uri host (C16.mkData size fill) 3 with
          | .ok c => some c
          | .panic => none
        | _ => none
      some (⟨now, c, uri, host⟩ : CacheCtx)
    | _ => none
  let r ← if route == "file" then some (Route.file cc fresh)
    else if route == "directory" then some (Route.directory cc fresh)
    else if route == "proxy" then some (Route.proxy fresh)
    else if route == "redirect" then some (Route.redirect fresh)
    else none
  some ⟨⟨m, l⟩, strBytes peer, q.headers, r, route == "proxy", orc⟩

def upFlag (c : Case) (o : Outcome) : String :=
  if c.isProxy && isServed o then "up=1" else "up=0"

/-- What the implementation let the client observe, read off its canonical output. -/
def obsOf (admitted : Bool) (resp : String) : BlacklistSpec.Obs :=
  if !admitted then .closed
  else if resp == "PANIC" then .closed
  else if resp.startsWith "403:" then .forbidden
  else .content

/-- Judge an observation by the property; the reason names the violated clause. -/
def judge (c : Case) (obs : BlacklistSpec.Obs) (up : Bool) : Bool × String :=
  let fwd := forwarded c.oracle c.hs
  let peerListed := c.cfg.list.contains c.peer
  let fwdListed := fwd.any (fun a => c.cfg.list.contains a)
  if decide (BlacklistSpec.Holds (c.cfg.mode == .block) c.cfg.list c.peer fwd obs) then
    if up && (peerListed || fwdListed) then (false, "upstream-contacted-for-listed") else (true, "")
  else if peerListed then
    (false, if obs == .content then "listed-peer-served"
            else if c.cfg.mode == .block then "listed-peer-answered-in-block-mode"
            else "listed-peer-not-answered-403")
  else if fwdListed then
    (false, if obs == .content then "forwarded-listed-served" else "forwarded-listed-not-answered-403")
  else (false, "unlisted-client-refused")

def dispatch (fn : String) (args : List String) (impl : String) : Option Verdict :=
  match fn, args with
  | "bl", [mode, list, peer, route, cache, req, oracle, fresh] =>
    match parseCase mode list peer route cache req oracle fresh with
    | none => some { model := "BADARGS" }
    | some c =>
      let adm := admits c.cfg c.peer
      let r := respond c.oracle c.cfg c.peer c.hs c.route
      let model := s!"{boolStr adm} {renderOutcome r} {upFlag c r}"
      let (spec, reason) := match impl.splitOn " " with
        | [a, resp, up] => judge c (obsOf (a == "1") resp) (a == "1" && up == "up=1")
        | _ => (false, "malformed-output")
      some { model := model, spec := some spec, reason := reason }
  | "bl_e2e", [mode, list, peer, route, cache, req, oracle, fresh] =>
    match parseCase mode list peer route cache req oracle fresh with
    | none => some { model := "BADARGS" }
    | some c =>
      let o := handle c.oracle c.cfg c.peer c.hs c.route
      let model := if o == .closedNoResponse then "CLOSED" else s!"{renderOutcome o} {upFlag c o}"
      let (spec, reason) :=
        if impl == "CLOSED" then judge c .closed false
        else match impl.splitOn " " with
          | [resp, up] => judge c (obsOf true resp) (up == "up=1")
          | _ => (false, "malformed-output")
      some { model := model, spec := some spec, reason := reason }
  | _, _ => none

end Humphrey.Driver.C19
