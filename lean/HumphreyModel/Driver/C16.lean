import HumphreyModel.Driver.Util
import HumphreyModel.Model.Cache

/-!
Driver for C16. Case functions (all numbers decimal; keys contain none of `,;| ` or TAB):

* `cache_seq <limit> <timeLimit> <ops>` — one whole operation sequence on a fresh cache; after every
  operation the state summary and a lookup sweep over all keys ever stored (at the operation's time).
* `cache_log <limit> <timeLimit> <ops>` — the same without the sweep (lock-ordered logs of threads).
* `cache_serve <limit> <timeLimit> <reqs>` — handler level: `cache_check` + `inner_file_handler`.

`ops`: `;`-separated `s,<t>,<key>,<host>,<size>,<fill>,<mime>` | `g,<t>,<key>,<host>`; the bytes of a store
are `(fill + i) mod 256` for `i < size`.  `reqs`: `;`-separated `r,<t>,<uri>,<host>,<size>,<fill>,<mime>` (the
file behind the uri currently holds those bytes).
Output: `;`-joined records `<result>|<size counter>|<key,host …>[|<sweep>]`; result of a store `ok`, of a
lookup `none` or `key,host,len,fnv1a32,mime,time`; a sweep entry is `-` or `len,fnv1a32,mime,time`; a panic
is the record `PANIC`, which ends the output.  A request's result is `len,fnv1a32,mime`.

`Verdict.spec` judges the IMPLEMENTATION's output by the property alone (abstract map of last stores):
a lookup answers nothing or the latest store for the key, never older than the time limit; a store that
fits is retrievable at once; the retrievable total stays within the limit; no panic when all stores fit and
the clock has not gone backwards.
-/
namespace Humphrey.Driver.C16
open Humphrey Humphrey.Driver Humphrey.Cache

inductive POp where
  | set (t : Nat) (key : String) (host size fill mime : Nat)
  | get (t : Nat) (key : String) (host : Nat)

def parseOp (s : String) : Option POp :=
  match s.splitOn "," with
  | [k, t, key, host, size, fill, mime] =>
    if k == "s" || k == "r" then do
      let t ← t.toNat?; let host ← host.toNat?; let size ← size.toNat?
      let fill ← fill.toNat?; let mime ← mime.toNat?
      some (.set t key host size fill mime)
    else none
  | ["g", t, key, host] => do
    let t ← t.toNat?; let host ← host.toNat?
    some (.get t key host)
  | _ => none

def parseOps (s : String) : Option (List POp) :=
  if s.isEmpty then some [] else (s.splitOn ";").mapM parseOp

/-- `mkDataGo fill i acc` prepends bytes `i-1, …, 0` of the pattern. -/
def mkDataGo (fill : Nat) : Nat → List UInt8 → List UInt8
  | 0, acc => acc
  | i + 1, acc => mkDataGo fill i ((fill + i).toUInt8 :: acc)

/-- The bytes of a store: `(fill + i) mod 256` for `i < size`. -/
def mkData (size fill : Nat) : List UInt8 := mkDataGo fill size []

/-- FNV-1a of `mkData size fill` without building the list (judge only). -/
def fnvPattern (fill : Nat) : Nat → Nat → UInt32 → UInt32
  | 0, _, h => h
  | n + 1, i, h => fnvPattern fill n (i + 1) ((h ^^^ (fill + i).toUInt8.toUInt32) * 16777619)

/-- FNV-1a (32 bit) and the length in one pass. -/
def fnvLen : UInt32 → Nat → List UInt8 → UInt32 × Nat
  | h, n, [] => (h, n)
  | h, n, x :: rest => fnvLen ((h ^^^ x.toUInt32) * 16777619) (n + 1) rest

def fnv (b : List UInt8) : UInt32 := (fnvLen 2166136261 0 b).1

def summary (it : Item) : String :=
  let (h, n) := fnvLen 2166136261 0 it.data
  s!"{n},{h.toNat},{it.mime},{it.time}"

def stateStr (c : Cache) : String :=
  s!"{c.size}|" ++ " ".intercalate (c.data.map fun it => s!"{it.route},{it.host}")

def sweepStr (now : Nat) (c : Cache) (ever : List (String × Nat)) : String :=
  " ".intercalate (ever.map fun k =>
    match get now c k.1 k.2 with
    | .ok (some it) => summary it
    | .ok none => "-"
    | .panic => "PANIC")

/-- Replay on the model. `ever` = keys stored so far, in order of first store. -/
def replay (sweep : Bool) : Cache → List (String × Nat) → List POp → List String → List String
  | _, _, [], acc => acc.reverse
  | c, ever, op :: ops, acc =>
    match op with
    | .set t key host size fill mime =>
      match set t c key host (mkData size fill) mime with
      | .panic => ("PANIC" :: acc).reverse
      | .ok c' =>
        let ever' := if ever.contains (key, host) then ever else ever ++ [(key, host)]
        let r := "ok|" ++ stateStr c' ++ (if sweep then "|" ++ sweepStr t c' ever' else "")
        replay sweep c' ever' ops (r :: acc)
    | .get t key host =>
      match get t c key host with
      | .panic => ("PANIC" :: acc).reverse
      | .ok o =>
        let res := match o with
          | some it => s!"{it.route},{it.host}," ++ summary it
          | none => "none"
        let r := res ++ "|" ++ stateStr c ++ (if sweep then "|" ++ sweepStr t c ever else "")
        replay sweep c ever ops (r :: acc)

/-- Handler level on the model. -/
def replayServe : Cache → List POp → List String → List String
  | _, [], acc => acc.reverse
  | c, op :: ops, acc =>
    match op with
    | .set t uri host size fill mime =>
      match serve t c uri host (mkData size fill) mime with
      | .panic => ("PANIC" :: acc).reverse
      | .ok (c', s) =>
        let r := s!"{s.body.length},{(fnv s.body).toNat},{s.mime}|" ++ stateStr c'
        replayServe c' ops (r :: acc)
    | .get .. => ("BADOP" :: acc).reverse

/-! ### The property's own judgement of an output -/

structure Abs where
  key : String × Nat
  sum : String      -- `len,hash,mime,time` of the last store
  len : Nat
  time : Nat

structure JState where
  abs : List Abs := []                -- one entry per key ever stored, in order of first store
  hypOk : Bool := true                -- all stores so far fit the limit and the clock never went back
  lastT : Nat := 0

def absPut (abs : List Abs) (a : Abs) : List Abs :=
  if abs.any (·.key == a.key) then abs.map (fun x => if x.key == a.key then a else x) else abs ++ [a]

/-- Is `ans` (`-`/`none` or a summary string) an allowed answer for `key` at time `now`? -/
def allowedAns (abs : List Abs) (timeLimit now : Nat) (key : String × Nat) (ans : String) : Bool :=
  ans == "-" || ans == "none" ||
  match abs.find? (·.key == key) with
  | some a => ans == a.sum && a.time ≤ now && now - a.time ≤ timeLimit
  | none => false

def ansLen (ans : String) : Nat :=
  match ans.splitOn "," with
  | l :: _ => l.toNat?.getD 0
  | [] => 0

/-- Judge the records of an implementation output. `some false` = the property is violated. -/
def judge (sweep : Bool) (limit timeLimit : Nat) : JState → List POp → List String → Bool
  | _, [], [] => true
  | _, [], _ :: _ => false                          -- more records than operations
  | _, _ :: _, [] => false                          -- output stops without a panic
  | st, op :: ops, rec :: recs =>
    let (t, fits) := match op with
      | .set t _ _ size _ _ => (t, decide (size ≤ limit))
      | .get t _ _ => (t, true)
    let hypOk := st.hypOk && fits && decide (st.lastT ≤ t)
    if rec == "PANIC" then
      -- a panic is acceptable only outside the hypotheses, and it ends the output
      !hypOk && recs.isEmpty
    else
      let secs := rec.splitOn "|"
      let res := secs.headD ""
      let (okRes, abs) := match op with
        | .set t key host size fill mime =>
          let hsh := fnvPattern fill size 0 2166136261
          (res == "ok", absPut st.abs ⟨(key, host), s!"{size},{hsh.toNat},{mime},{t}", size, t⟩)
        | .get t key host =>
          (res == "none" ||
            (res.startsWith s!"{key},{host}," &&
             allowedAns st.abs timeLimit t (key, host) ((res.drop (s!"{key},{host},".length)).toString)), st.abs)
      let okSweep :=
        if sweep then
          match secs with
          | [_, _, _, sw] =>
            let entries := if sw.isEmpty then [] else sw.splitOn " "
            entries.length == abs.length &&
            (entries.zip abs).all (fun (e, a) =>
              if e == "PANIC" then !hypOk
              else allowedAns abs timeLimit t a.key e &&
                -- a store that fits is retrievable immediately
                (match op with
                 | .set _ key host size _ _ => !(a.key == (key, host) && size ≤ limit) || e == a.sum
                 | .get .. => true)) &&
            -- the retrievable total stays within the limit
            decide ((entries.map ansLen).foldl (· + ·) 0 ≤ limit)
          | _ => false
        else true
      okRes && okSweep && judge sweep limit timeLimit { abs := abs, hypOk := hypOk, lastT := t } ops recs

/-- Handler level: every answer is either the file's current contents (miss) or the contents of the last
miss for the same (uri, host), provided that was stored (it fitted the limit) and is within the time limit. -/
def judgeServe (limit timeLimit : Nat) : List Abs → List POp → List String → Bool
  | _, [], [] => true
  | _, [], _ :: _ => false
  | _, _ :: _, [] => false
  | abs, op :: ops, rec :: recs =>
    match op with
    | .get .. => false
    | .set t uri host size fill mime =>
      if rec == "PANIC" then false else
      let res := (rec.splitOn "|").headD ""
      let cur := s!"{size},{(fnvPattern fill size 0 2166136261).toNat},{mime}"
      let isMiss := res == cur
      let isHit := limit > 0 && match abs.find? (·.key == (uri, host)) with
        | some a => a.sum == res && a.time ≤ t && t - a.time ≤ timeLimit
        | none => false
      -- a miss stores the current contents when they fit; a hit leaves the abstract map unchanged. When
      -- both readings are possible (the file still equals the stored copy) the judge cannot tell whether the
      -- entry was re-stored, and takes the newer store time (the permissive reading).
      let abs' := if isMiss then (if size ≤ limit then absPut abs ⟨(uri, host), cur, size, t⟩ else abs) else abs
      (isMiss || isHit) && judgeServe limit timeLimit abs' ops recs

def dispatch (fn : String) (args : List String) (impl : String) : Option Verdict :=
  match fn, args with
  | "cache_seq", [l, tl, ops] | "cache_log", [l, tl, ops] =>
    match l.toNat?, tl.toNat?, parseOps ops with
    | some l, some tl, some ops =>
      let sweep := fn == "cache_seq"
      let m := ";".intercalate (replay sweep (empty l tl) [] ops [])
      let recs := if impl.isEmpty then [] else impl.splitOn ";"
      some { model := m, spec := some (m == impl || judge sweep l tl {} ops recs) }
    | _, _, _ => some { model := "BADARGS" }
  | "cache_serve", [l, tl, ops] =>
    match l.toNat?, tl.toNat?, parseOps ops with
    | some l, some tl, some ops =>
      let m := ";".intercalate (replayServe (empty l tl) ops [])
      let recs := if impl.isEmpty then [] else impl.splitOn ";"
      some { model := m, spec := some (m == impl || judgeServe l tl [] ops recs) }
    | _, _, _ => some { model := "BADARGS" }
  | _, _ => none

end Humphrey.Driver.C16
