import HumphreyModel.Driver.Http
import HumphreyModel.Model.Response
import HumphreyModel.Spec.HttpMsg
import HumphreyModel.Model.Client

namespace Humphrey.Driver.C07
open Humphrey Humphrey.Driver Humphrey.Driver.HttpD Humphrey.Http Humphrey.IO

def canonResponse (r : Response) : String :=
  let names := r.headers.foldl (fun acc h => insertUniq h.name.lower acc) []
  let hs := names.map (fun n => hx n ++ "=" ++ ";".intercalate ((r.headers.getAll ⟨n⟩).map hx))
  s!"OK {hx r.version} {r.status} H[{",".intercalate hs}] B[{hxl r.body}]"

def respErrName : RespErr → String
  | .response => "ERR:Response" | .stream => "ERR:Stream"

def parseRespChunks (chunks : List Bytes) : String :=
  match parseResponse readerSource (⟨[], chunks⟩ : Reader) with
  | .panic => "PANIC"
  | .err e => respErrName e
  | .ok (r, _) => canonResponse r

def optField (s : String) : Option (Option Bytes) :=
  if s == "-" then some none else (unhx s).map some

def buildItems (items : String) : Option Headers :=
  if items == "-" then some []
  else (items.splitOn ",").mapM (fun it =>
    match it.splitOn "." with
    | ["h", n, v] => do
      let n ← unhex n; let v ← unhx v
      pure ⟨HName.ofName n, v⟩
    | ["c", n, v, e, a, d, p, s, h, ss] => do
      let n ← unhx n; let v ← unhx v
      let e ← optField e; let d ← optField d; let p ← optField p
      let a ← (if a == "-" then some none else a.toNat?.map some)
      let ss ← (match ss with
        | "S" => some (some SameSite.strict) | "L" => some (some SameSite.lax)
        | "N" => some (some SameSite.none) | "-" => some none | _ => none)
      pure (SetCookie.toHeader { name := n, value := v, expires := e, maxAge := a, domain := d,
                                 path := p, secure := s == "1", httpOnly := h == "1", sameSite := ss })
    | _ => none)

/-- One hop of a scripted chain: status, Location (redirect) or body (final). -/
def parseHops (s : String) : Option (List (Nat × Option Bytes × Bytes)) :=
  (s.splitOn ",").mapM (fun h =>
    match h.splitOn ":" with
    | [c, l, b] => do
      let c ← c.toNat?
      let l ← (if l == "-" then some none else (unhex l).map some)
      let b ← unhx b
      pure (c, l, b)
    | _ => none)

/-- The scripted origin server of the harness: `/h<i>…` is answered with hop `i`. -/
def chainNet (hops : List (Nat × Option Bytes × Bytes)) (r : CReq) : Option Response :=
  let digits := ((r.uri.drop 2).takeWhile Bytes.isDigit)
  let idx := if r.uri.take 2 == strBytes "/h" && !digits.isEmpty then Bytes.digitsValue digits 0 else hops.length
  match hops[idx]? with
  | some (c, some loc, _) =>
    some ⟨strBytes "HTTP/1.1", c, [⟨hLocation, loc⟩, ⟨hContentLength, strBytes "0"⟩], []⟩
  | some (c, none, body) =>
    some ⟨strBytes "HTTP/1.1", c, [⟨hContentLength, Bytes.natToBytes body.length⟩, ⟨HName.ofName (strBytes "X-Hop"), Bytes.natToBytes idx⟩], body⟩
  | none => some ⟨strBytes "HTTP/1.1", 404, [⟨hContentLength, strBytes "0"⟩], []⟩

def dispatch (fn : String) (args : List String) (impl : String) : Option Verdict :=
  match fn, args with
  | "resp_parse", [bytes, cuts, expect] =>
    match unhex bytes with
    | some bs =>
      let m := parseRespChunks (applyCuts bs cuts)
      some { model := m, spec := if expect == "-" then none else some (impl == expect),
             reason := "parse-differs-from-what-was-sent" }
    | none => some { model := "BADARGS" }
  | "resp_ser", [version, code, items, body] =>
    match unhex version, code.toNat?, buildItems items, unhx body with
    | some v, some c, some hs, some b =>
      let r : Response := ⟨v, c, hs, b⟩
      let ser := serializeResponse r
      let model := s!"{hx ser} | {parseRespChunks [ser]}"
      -- spec: the implementation's bytes are a valid message for this response, and parse back
      let (spec, reason) :=
        match impl.splitOn " | " with
        | [serHex, back] =>
          match unhx serHex with
          | some implSer =>
            match Spec.checkSerialization v c (hs.map (fun h => (h.name.lower, h.value))) b implSer with
            | some why => (some false, why)
            | none =>
              let hasCl := (hs.get hContentLength).isSome
              if (hasCl || b.isEmpty) && back != canonResponse r then (some false, "parse-back")
              else (some true, "")
          | none => (some false, "unreadable")
        | _ => (some false, "panic-or-garbage")
      some { model := model, spec := spec, reason := reason }
    | _, _, _, _ => some { model := "BADARGS" }
  | "client", [followS, url, hops] =>
    match (unhex url).bind parseUrl, parseHops hops with
    | some r0, some hs =>
      let followB := followS == "1"
      let (final, log) := clientSend (chainNet hs) followB (hs.length + 2) r0
      let resp := match final with | some r => canonResponse r | none => "ERR"
      let m := s!"{resp} | {",".intercalate (log.map (fun r => hx r.line))}"
      -- spec: with following on, the client must end at the chain's final (non-redirect) response
      let want := match hs.getLast? with
        | some (c, none, body) =>
          some ⟨strBytes "HTTP/1.1", c, [⟨hContentLength, Bytes.natToBytes body.length⟩,
                ⟨HName.ofName (strBytes "X-Hop"), Bytes.natToBytes (hs.length - 1)⟩], body⟩
        | _ => none
      let spec : Option Bool :=
        if impl == "PORT-80-UNAVAILABLE" then none
        else if followB then
          (match want with
           | some w => some ((impl.splitOn " | ").head? == some (canonResponse w))
           | none => none)
        else some (impl == m)
      some { model := if impl == "PORT-80-UNAVAILABLE" then impl else m, spec := spec,
             reason := "client-did-not-end-at-the-final-response" }
    | _, _ => some { model := "BADARGS" }
  | _, _ => none

end Humphrey.Driver.C07
