#!/usr/bin/env python3
"""seedrun.py <mNN> <k> <seed-id> <Cxx> [more Cyy…]: confirm a seeded change in its scratch worktree, then apply it to /repo,
run the named checks, undo it, and store everything under /verif/seeded/<seed-id>/."""
import subprocess, sys, os, re, shutil, json, glob, time
m, k, sid, props = sys.argv[1], sys.argv[2], sys.argv[3], sys.argv[4:]
W = f"/tmp/{m}"
out = f"{W}/out"
patch = f"{out}/patch{k}.diff"
demo = f"{out}/demo{k}"
CR = {"humphrey": "humphrey", "humphrey_ws": "humphrey-ws", "humphrey_json": "humphrey-json", "humphrey_auth": "humphrey-auth", "humphrey_server": "humphrey-server"}
def sh(cmd, cwd=None, env=None, timeout=1800):
    p = subprocess.run(cmd, shell=True, cwd=cwd, env=env, stdout=subprocess.PIPE, stderr=subprocess.STDOUT, text=True, timeout=timeout)
    return p.returncode, p.stdout
readme = ""
for f in glob.glob(demo + "/README*"):
    readme += open(f, errors="replace").read()
mt = re.search(r"cargo test .*?-p (\S+).*?--test (\S+)", readme)
env = dict(os.environ, CARGO_NET_OFFLINE="true")
if "humphrey_verif" in readme:
    env["RUSTFLAGS"] = "--cfg humphrey_verif"
def run_demo():
    if not mt:
        return None, "no 'cargo test -p X --test Y' command found in README"
    crate, test = mt.group(1), mt.group(2)
    d = os.path.join(W, CR.get(crate, crate), "tests")
    os.makedirs(d, exist_ok=True)
    copied = []
    rs = glob.glob(demo + "/*.rs")
    names = [os.path.basename(f)[:-3] for f in rs]
    for f in rs:
        dst = os.path.join(d, os.path.basename(f))
        if test not in names and f == rs[0]:
            dst = os.path.join(d, test + ".rs")   # the README renames the file when copying it
        shutil.copy(f, dst); copied.append(dst)
    feat = ""
    mf = re.search(r"cargo test[^\n]*--features (\S+)[^\n]*--test " + re.escape(test), readme)
    if mf: feat = f" --features {mf.group(1)}"
    rc, o = sh(f"cargo test -p {crate}{feat} --test {test} --offline -- --test-threads=1", cwd=W, env=env)
    for c in copied: os.remove(c)
    try: os.rmdir(d)
    except OSError: pass
    return rc, o[-1500:]
def suite():
    rc, o = sh("cargo test --workspace --no-fail-fast --offline", cwd=W, env=dict(os.environ, CARGO_NET_OFFLINE="true"))
    passed = len(re.findall(r"^test .* \.\.\. ok$", o, re.M))
    failed = [l for l in re.findall(r"^test (.*) \.\.\. FAILED$", o, re.M) if "test_url_parser" not in l]
    return passed, failed
res = {"seed": sid, "worktree": W, "patch": patch, "properties": props}
STAGE = os.environ.get("SEED_STAGE", "all")   # confirm | check | all
saved = f"{out}/confirm{k}.json"
if STAGE == "check" and os.path.exists(saved):
    res = json.load(open(saved)); res["properties"] = props
    ok = res.get("confirmed")
    print(f"[{sid}] (confirmed earlier: {ok})")
sh("git checkout -q -- .", cwd=W)
if not (STAGE == "check" and os.path.exists(saved)):
  rc0, o0 = run_demo()
  res["demo_without_change"] = {"exit": rc0, "tail": o0[-400:] if o0 else o0}
  rc, o = sh(f"git apply {patch}", cwd=W)
  if rc != 0:
      print("PATCH DOES NOT APPLY in scratch", o); sys.exit(1)
  p, f = suite()
  res["suite_with_change"] = {"passed": p, "unexpected_failures": f}
  rc1, o1 = run_demo()
  res["demo_with_change"] = {"exit": rc1, "tail": o1[-400:] if o1 else o1}
  sh("git checkout -q -- .", cwd=W)
  ok = (p >= 99 and not f and rc0 == 0 and rc1 not in (0, None))
  res["confirmed"] = ok
  print(f"[{sid}] suite passed={p} unexpected={f} demo without={rc0} with={rc1} confirmed={ok}")
if STAGE == "confirm":
    json.dump(res, open(saved, "w"), indent=1); sys.exit(0 if res.get("confirmed") else 1)
# apply to /repo, run checks, undo
rc, o = sh(f"git -C /repo apply {patch}")
if rc != 0:
    print("PATCH DOES NOT APPLY to /repo", o); sys.exit(1)
res["checks"] = {}
try:
    for pr in props:
        t = time.time()
        rc, o = sh(f"./check {pr}", cwd="/verif")
        viol = [l for l in o.splitlines() if l.startswith("VIOLATION")]
        res["checks"][pr] = {"exit": rc, "violation": viol[:1], "wall_s": round(time.time() - t, 1)}
        detail = ""
        if viol:
            mm = re.search(r"replay=(\S+)", viol[0])
            if mm and os.path.exists(mm.group(1)):
                rp = json.load(open(mm.group(1)))
                detail = rp.get("kind", "") + " " + str(rp.get("spec_verdict", "")) + " " + json.dumps(rp.get("case", {}).get("args_text", ""))[:200]
                res["checks"][pr]["replay_kind"] = rp.get("kind"); res["checks"][pr]["spec_verdict"] = rp.get("spec_verdict")
                res["checks"][pr]["replay_case"] = rp.get("case", {}).get("args_text", "")
        print(f"   check {pr}: exit={rc} {viol[:1]} {detail}")
finally:
    sh("git -C /repo checkout -- .")
    rc, o = sh("git -C /repo status --short")
    if o.strip(): print("WARNING /repo not clean:", o)
d = f"/verif/seeded/{sid}"
os.makedirs(d, exist_ok=True)
shutil.copy(patch, f"{d}/patch.diff")
if os.path.isdir(demo):
    shutil.copytree(demo, f"{d}/demo", dirs_exist_ok=True)
notes = open(f"{out}/notes.txt", errors="replace").read() if os.path.exists(f"{out}/notes.txt") else ""
meta = {"id": sid, "breaks_property": props[0], "what_it_needs_to_manifest": "see notes (excerpt below)", "notes_excerpt": notes[:3000],
        "what_was_run": res}
json.dump(meta, open(f"{d}/meta.json", "w"), indent=1)
