#!/usr/bin/env python3
"""refactor_run.py <rNN> <Cxx,Cyy,…>: for every behaviour-preserving patch /tmp/rNN/out/patchK.diff (two per listed property, in
order) apply it to /repo, run the checks of every property anchored in a file it touches (plus the listed one), undo, and report.
The checks must stay quiet; anything else is a false alarm to analyse. Patches are stored under /verif/refactors/<rNN>-K.diff."""
import json, os, re, subprocess, sys, glob, shutil
os.chdir("/verif")
r, assigned = sys.argv[1], sys.argv[2].split(",")
def sh(c):
    p = subprocess.run(c, shell=True, stdout=subprocess.PIPE, stderr=subprocess.STDOUT, text=True)
    return p.returncode, p.stdout
props = [json.loads(l) for l in open("properties.jsonl")]
if sh("git -C /repo status --porcelain --untracked-files=no")[1].strip():
    print("/repo is not clean"); sys.exit(2)
os.makedirs("refactors", exist_ok=True)
alarms = []
patches = sorted(glob.glob(f"/tmp/{r}/out/patch*.diff"), key=lambda p: int(re.search(r"patch(\d+)", p).group(1)))
for i, p in enumerate(patches):
    k = int(re.search(r"patch(\d+)", p).group(1))
    files = re.findall(r"^\+\+\+ b/(\S+)", open(p).read(), re.M)
    todo = []
    if (k - 1) // 2 < len(assigned): todo.append(assigned[(k - 1) // 2])
    for pr in props:
        anch = pr["anchors"]["files"]
        if any(f in anch or f.replace("src/tokio/", "src/") in anch for f in files) and pr["id"] not in todo:
            todo.append(pr["id"])
    rc, o = sh(f"git -C /repo apply {p}")
    if rc != 0:
        print(f"{r}-{k}: PATCH DOES NOT APPLY {o[:200]}"); continue
    res = []
    try:
        for pr in todo:
            rc, o = sh(f"./check {pr}")
            v = [l for l in o.splitlines() if l.startswith("VIOLATION")]
            res.append((pr, rc, v[0][:150] if v else ""))
    finally:
        sh("git -C /repo checkout -- .")
    shutil.copy(p, f"refactors/{r}-{k}.diff")
    bad = [x for x in res if x[1] != 0]
    print(f"{r}-{k}: files={','.join(os.path.basename(f) for f in files)} :: " + " ".join(f"{a}={'quiet' if b == 0 else 'ALARM ' + c}" for a, b, c in res), flush=True)
    if bad: alarms.append((f"{r}-{k}", bad))
print("alarms:", alarms)
