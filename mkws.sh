#!/bin/bash
# mkws.sh <name>: scratch workspace /tmp/<name>/{verif,repo} for independent work on one property.
set -e
ws=/tmp/$1
rm -rf $ws; mkdir -p $ws
git -C /repo worktree prune
git -C /repo worktree add -q -B ws-$1 $ws/repo HEAD
rsync -a --exclude .git --exclude work --exclude replays --exclude 'harness/target' --exclude 'harness-tokio/target' --exclude 'harness/target-one' --exclude 'lean/.lake' /verif/ $ws/verif/
git -C /verif rev-parse --short HEAD > $ws/verif/.base
echo $ws
