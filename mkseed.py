#!/usr/bin/env python3
"""mkseed.py <mNN> <Cxx> [Cyy…]: scratch worktree /tmp/mNN of /repo with TASK.md holding ONLY the text of the named properties."""
import sys, json, subprocess, os
HARD = "--hard" in sys.argv or "--hard2" in sys.argv
HARD2 = "--hard2" in sys.argv
TWO = "--two" in sys.argv
argv = [a for a in sys.argv if a not in ("--hard", "--hard2", "--two")]
m, ids = argv[1], argv[2:]
W = f"/tmp/{m}"
subprocess.run(f"git -C /repo worktree add -q --detach {W} HEAD", shell=True, check=True)
props = {json.loads(l)["id"]: json.loads(l) for l in open("/verif/properties.jsonl")}
t = ["# Task\n",
"You are given a checkout of the Rust project w-henderson/Humphrey in this directory (a scratch git worktree: work ONLY here) and the text of "
"semantic properties of it below. For EACH property listed, produce " + ("TWO changes (in different functions, with different mechanisms, as unlike each other as you can make them)" if TWO else "ONE change") + " to the project's source that\n",
"* breaks the property (the changed code really violates it on some input / schedule / history),",
"* still compiles, and leaves the project's own test suite passing (`CARGO_NET_OFFLINE=true cargo test --workspace --no-fail-fast --offline`: 99 tests pass; the doc-test `test_url_parser`-style network failures, if any appear without your change too, do not count),",
"* looks like a realistic commit a maintainer could make (a refactor, an optimisation, a 'simplification', a fix for something else) — not sabotage, no dead code, no special-casing of magic inputs,",
"* needs something SPECIFIC to manifest (a particular size, boundary, ordering, timing, configuration or input shape), so that casual testing would not notice,",
"* is NOT the most obvious edit of the most obvious line: prefer the less-visited paths named in the property's anchors (the tokio twin of a function, a helper in another file, an error path, a boundary condition, a rarely-used configuration option, an interaction between two features).\n",
"Code under `#[cfg(humphrey_verif)]` is test instrumentation: leave it alone and do not rely on it.\n",
] + ([
"Assume the project is additionally guarded by a differential test harness that, for each property, generates small-exhaustive and random inputs (requests, byte splits, configurations, operation sequences, schedules) and compares the code with a reference model. Choose changes whose manifestation needs an input class such a harness is UNLIKELY to generate: a rare combination of two features, a size or count threshold well above 'small', a specific alignment or boundary, an unusual but legal configuration value, a second use of an object after a particular first use, a less common platform-independent error path. It must still be a realistic commit, and your demonstration must still be deterministic.\n",
] if HARD else []) + ([
"This time do NOT rely on a size or count threshold (long inputs, many items) to hide the change. Prefer semantic subtleties: the ORDER of two checks or two side effects, which of two errors wins, state carried from one call to the next on the same object, idempotence (doing something twice), defaults when an optional item is absent vs present-but-empty, the interaction of two optional features that are rarely enabled together, case / whitespace / Unicode subtleties, signedness and off-by-one at numeric boundaries of ordinary magnitude, behaviour at exactly-equal comparisons, and cleanup on early-return paths.\n",
] if HARD2 else []) + [
"For each change write, under `out/` in this directory (create it):",
"* `out/patchK.diff` (K = 1, 2, …; `git diff` of ONLY that change against HEAD; then `git checkout -- .` before starting the next one),",
"* `out/demoK/` — a self-contained demonstration: one integration test file `<name>.rs` for the affected crate plus `README.md` containing the exact command line `cargo test -p <crate> --test <name>` (add `--features tokio` inside that command if needed), where copying the file into `<crate-dir>/tests/` makes the test PASS on the unchanged code and FAIL with the patch applied. The test must be deterministic and finish within a minute, use only the crate's public API and the standard library, and bind only to 127.0.0.1 ports chosen by the OS (port 0) where it needs sockets,",
"* `out/notes.txt` — per change: which property, the mechanism, what exactly is needed for it to manifest, why the suite does not notice.\n",
"Verify yourself, in this worktree, that with each patch the suite still passes and the demo fails, and without it the demo passes. Leave the worktree clean (`git checkout -- .`, no stray files outside `out/`) when you finish. There is no network. Do not look outside this directory (in particular not at /verif or /repo).\n",
"# Properties\n"]
for i in ids:
    t.append("```json\n" + json.dumps(props[i], indent=1) + "\n```\n")
open(f"{W}/TASK.md", "w").write("\n".join(t))
print(W)
