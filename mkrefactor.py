#!/usr/bin/env python3
"""mkrefactor.py <rNN> <Cxx> [Cyy…]: scratch worktree /tmp/rNN of /repo with TASK.md (ONLY the text of the named properties)
asking for behaviour-PRESERVING changes; used to measure false alarms of the checks (they must stay quiet on these)."""
import sys, json, subprocess
m, ids = sys.argv[1], sys.argv[2:]
W = f"/tmp/{m}"
subprocess.run(f"git -C /repo worktree add -q --detach {W} HEAD", shell=True, check=True)
props = {json.loads(l)["id"]: json.loads(l) for l in open("/verif/properties.jsonl")}
t = ["# Task\n",
"You are given a checkout of the Rust project w-henderson/Humphrey in this directory (a scratch git worktree: work ONLY here) and the text of "
"semantic properties of it below. For EACH property listed, produce TWO independent changes to the project's source, in the code the property is anchored in, that\n",
"* PRESERVE the property and, more strictly, preserve all externally observable behaviour of the public API (same return values, same bytes written, same errors, same panics/no panics, same ordering), for every input,",
"* are realistic commits a maintainer could make: a refactor (extract a helper, replace a loop by iterator adaptors or vice versa, rename locals, reorder independent statements, early returns), a micro-optimisation (avoid a clone or an allocation, reserve capacity, use a slice instead of a Vec), a readability change, a clippy fix, comments/doc changes, a different but equivalent std API,",
"* are NOT trivial whitespace-only edits: each should touch real logic of the anchored functions (10-60 changed lines is typical),",
"* compile (also with `--features tokio` for the `humphrey` crate) and leave the project's own test suite passing (`CARGO_NET_OFFLINE=true cargo test --workspace --no-fail-fast --offline`: 99 tests pass; the network-dependent `test_url_parser` failure that appears without your change too does not count).\n",
"Be careful to really preserve behaviour: think about empty inputs, boundaries, non-ASCII text, error paths, ordering of side effects and of writes. If you are not sure a change is equivalent, do not use it.",
"Code under `#[cfg(humphrey_verif)]` is test instrumentation: keep every such item and call exactly where it is relative to the statements around it (you may re-indent it), and do not change the signatures of functions it calls or that are `pub`.\n",
"For each change write, under `out/` in this directory (create it): `out/patchK.diff` (K = 1, 2, …; `git diff` of ONLY that change against HEAD; then `git checkout -- .` before the next one) and a paragraph in `out/notes.txt` (which property's code, what was changed, why it is behaviour-preserving).",
"Leave the worktree clean when you finish (no stray files outside `out/`). There is no network. Do not look outside this directory (in particular not at /verif or /repo).\n",
"# Properties\n"]
for i in ids:
    t.append("```json\n" + json.dumps(props[i], indent=1) + "\n```\n")
open(f"{W}/TASK.md", "w").write("\n".join(t))
print(W)
