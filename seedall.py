#!/usr/bin/env python3
"""seedall.py [id-prefix…]: regression run of every stored seeded change: apply seeded/<id>/patch.diff to /repo, run the
check(s) of the properties it breaks, undo, and print one line per change. Exit 1 if any change is no longer caught.
/repo must be clean; nothing else may use /repo or ./check while this runs."""
import json, os, subprocess, sys, glob, re
ROOT = os.environ.get("SEEDALL_ROOT", "")   # "" = the real /verif and /repo; "/tmp/x1" = a scratch copy (mkws.sh)
os.chdir(f"{ROOT}/verif")
def sh(c):
    p = subprocess.run(c, shell=True, stdout=subprocess.PIPE, stderr=subprocess.STDOUT, text=True)
    return p.returncode, p.stdout
if sh(f"git -C {ROOT}/repo status --porcelain --untracked-files=no")[1].strip():
    print(f"{ROOT}/repo is not clean"); sys.exit(2)
missed = []
for d in sorted(glob.glob("seeded/*/")):
    sid = os.path.basename(d.rstrip("/"))
    if sys.argv[1:] and not any(sid.startswith(a) for a in sys.argv[1:]):
        continue
    meta = json.load(open(d + "meta.json"))
    props = meta.get("what_was_run", {}).get("properties") or [meta["breaks_property"]]
    rc, o = sh(f"git -C {ROOT}/repo apply {ROOT}/verif/{d}patch.diff")
    if rc != 0:
        print(f"{sid}: PATCH DOES NOT APPLY"); missed.append(sid); continue
    try:
        res = []
        for pr in props:
            rc, o = sh(f"./check {pr}")
            v = [l for l in o.splitlines() if l.startswith("VIOLATION")]
            res.append((pr, rc, v[0][:120] if v else "-"))
    finally:
        sh(f"git -C {ROOT}/repo checkout -- .")
    caught = any(rc == 1 and v != "-" for _, rc, v in res)
    print(f"{sid}: {'caught' if caught else 'MISSED'} " + " | ".join(f"{p} exit={rc} {v}" for p, rc, v in res), flush=True)
    if not caught: missed.append(sid)
print("missed:", missed)
sys.exit(1 if missed else 0)
