//! C18 (HTTP dates and SHA-1 halves): `humphrey::http::date::DateTime::{from, to_string}` on every
//! day of 1970..=9999 and `humphrey_ws::verif::SHA1Hash::hash` on every padding/block-boundary length.
use crate::c18a::{desc_bytes, desc_parse, desc_str, sweep_lengths, Seg, SWEEP_P};
use crate::common::*;
use humphrey::http::address::Address;
use humphrey::http::date::DateTime;
use humphrey::http::headers::Headers;
use humphrey::http::method::Method;
use humphrey::http::Request;
use humphrey::stream::{MockIo, Stream};
use humphrey_ws::stream::WebsocketStream;
use humphrey_ws::verif::SHA1Hash;
use humphrey_ws::websocket_handler;
use std::io::{Error, Read, Write};
use std::net::SocketAddr;
use std::sync::{Arc, Mutex};
use std::time::Duration;

/// Last second of 9999-12-31.
const T_MAX: i64 = 253402300799;
const LAST_DAY: i64 = T_MAX / 86400;

fn date_impl(t: i64) -> String {
    match guarded(|| {
        let d = DateTime::from(t);
        format!("{};{};{};{};{};{};{};{}", d.year, d.month, d.day, d.weekday, d.hour, d.minute, d.second, d.to_string())
    }) {
        Ok(s) if !s.contains('\t') && !s.contains('\n') => s,
        Ok(_) => "BADCHARS".into(),
        Err(_) => "PANIC".into(),
    }
}

fn sha1_impl(m: &[u8]) -> String {
    match guarded(|| m.hash()) {
        Ok(d) => hex(&d),
        Err(_) => "PANIC".into(),
    }
}

/// A socket that has nothing to read and records what is written to it.
struct Sink(Arc<Mutex<Vec<u8>>>);

impl Read for Sink {
    fn read(&mut self, _buf: &mut [u8]) -> std::io::Result<usize> {
        Ok(0)
    }
}

impl Write for Sink {
    fn write(&mut self, buf: &[u8]) -> std::io::Result<usize> {
        self.0.lock().unwrap().extend_from_slice(buf);
        Ok(buf.len())
    }
    fn flush(&mut self) -> std::io::Result<()> {
        Ok(())
    }
}

impl MockIo for Sink {
    fn peer_addr(&self) -> Result<SocketAddr, Error> {
        Ok("127.0.0.1:40000".parse().unwrap())
    }
    fn shutdown(&self) -> std::io::Result<()> {
        Ok(())
    }
    fn set_timeout(&self, _timeout: Option<Duration>) -> std::io::Result<()> {
        Ok(())
    }
    fn set_nonblocking(&self, _nonblocking: bool) -> std::io::Result<()> {
        Ok(())
    }
}

/// The public path to SHA-1 + Base64: the closure returned by `websocket_handler` on an upgrade request whose
/// `Sec-WebSocket-Key` is `key`. Output: hex of everything written to the socket (the 101 response with the
/// accept value) or `PANIC`.
fn wsacc_impl(key: &str) -> String {
    let written = Arc::new(Mutex::new(Vec::new()));
    let sink = Sink(written.clone());
    let key = key.to_string();
    let r = guarded(move || {
        let mut headers = Headers::new();
        headers.add("Host", "localhost");
        headers.add("Upgrade", "websocket");
        headers.add("Connection", "Upgrade");
        headers.add("Sec-WebSocket-Key", key);
        headers.add("Sec-WebSocket-Version", "13");
        let request = Request {
            method: Method::Get,
            uri: "/ws".into(),
            query: String::new(),
            version: "HTTP/1.1".into(),
            headers,
            content: None,
            address: Address::new("127.0.0.1:40000").unwrap(),
        };
        let handler = websocket_handler(|_stream: WebsocketStream, _state: Arc<()>| {});
        handler(request, Stream::Mock(Box::new(sink)), Arc::new(()));
    });
    if r.is_err() {
        return "PANIC".into();
    }
    let w = written.lock().unwrap();
    hex(&w)
}

/// Re-execute one case (`fn`, args…) on the implementation.
pub fn exec(f: &[String]) -> Option<String> {
    match (f[0].as_str(), f.len()) {
        ("date", 2) => Some(date_impl(f[1].parse::<i64>().ok()?)),
        ("sha1", 2) => Some(sha1_impl(&unhex(&f[1]))),
        ("sha1g", 2) => Some(sha1_impl(&desc_bytes(&desc_parse(&f[1])?))),
        ("wsacc", 2) => Some(wsacc_impl(std::str::from_utf8(&desc_bytes(&desc_parse(&f[1])?)).ok()?)),
        _ => None,
    }
}

/// Independent reference: civil date from a day count (era/day-of-era algorithm, 0 = 1970-01-01).
/// Returns (year, month 1..=12, day).
fn civil_from_days(z: i64) -> (i64, i64, i64) {
    let z = z + 719468;
    let era = if z >= 0 { z } else { z - 146096 } / 146097;
    let doe = z - era * 146097;
    let yoe = (doe - doe / 1460 + doe / 36524 - doe / 146096) / 365;
    let y = yoe + era * 400;
    let doy = doe - (365 * yoe + yoe / 4 - yoe / 100);
    let mp = (5 * doy + 2) / 153;
    let d = doy - (153 * mp + 2) / 5 + 1;
    let m = if mp < 10 { mp + 3 } else { mp - 9 };
    (if m <= 2 { y + 1 } else { y }, m, d)
}

fn days_from_civil(y: i64, m: i64, d: i64) -> i64 {
    let y = if m <= 2 { y - 1 } else { y };
    let era = if y >= 0 { y } else { y - 399 } / 400;
    let yoe = y - era * 400;
    let mp = if m > 2 { m - 3 } else { m + 9 };
    let doy = (153 * mp + 2) / 5 + d - 1;
    let doe = yoe * 365 + yoe / 4 - yoe / 100 + doy;
    era * 146097 + doe - 719468
}

fn reference_date(t: i64) -> String {
    const DN: [&str; 7] = ["Sun", "Mon", "Tue", "Wed", "Thu", "Fri", "Sat"];
    const MN: [&str; 12] = ["Jan", "Feb", "Mar", "Apr", "May", "Jun", "Jul", "Aug", "Sep", "Oct", "Nov", "Dec"];
    let days = t.div_euclid(86400);
    let sod = t.rem_euclid(86400);
    let (y, m, d) = civil_from_days(days);
    let w = (days + 4).rem_euclid(7);
    let (h, mi, s) = (sod / 3600, sod / 60 % 60, sod % 60);
    format!("{};{};{};{};{};{};{};{}, {:02} {} {:04} {:02}:{:02}:{:02} GMT", y, m - 1, d, w, h, mi, s,
            DN[w as usize], d, MN[(m - 1) as usize], y, h, mi, s)
}

fn run_date(out: &mut Out, t: i64, kind: &str) {
    let r = date_impl(t);
    out.count(&format!("date:{}", kind));
    if (0..=T_MAX).contains(&t) {
        // direct judgement against the independent Rust reference (the Lean spec judges it again)
        if r != reference_date(t) {
            out.count("date:DIFFERS-FROM-RUST-REFERENCE");
        }
        let f: Vec<&str> = r.split(';').collect();
        if f.len() == 8 {
            out.count(&format!("date:month={}", f[1]));
            out.count(&format!("date:weekday={}", f[3]));
        } else {
            out.count(&format!("date:result={}", r));
        }
    } else {
        out.count("date:outside-1970..9999(model-only)");
    }
    out.case(&["date", &t.to_string()], &r, (0..=T_MAX).contains(&t));
}

fn run_sha1(out: &mut Out, m: &[u8], kind: &str) {
    let r = sha1_impl(m);
    out.count(&format!("sha1:{}", kind));
    let tail = m.len() % 64;
    out.count(if tail < 55 { "sha1:len%64<55(pad-in-block)" } else if tail == 55 { "sha1:len%64=55(exact-fit)" } else { "sha1:len%64>55(extra-block)" });
    out.count(&format!("sha1:blocks={}", match (m.len() + 9 + 63) / 64 { n @ 1..=4 => n.to_string(), 5..=18 => "5-18".into(), _ => ">18".into() }));
    out.case(&["sha1", &hex(m)], &r, true);
}

fn sha1_counts(out: &mut Out, len: usize, kind: &str) {
    out.count(&format!("sha1:{}", kind));
    let tail = len % 64;
    out.count(if tail < 55 { "sha1:len%64<55(pad-in-block)" } else if tail == 55 { "sha1:len%64=55(exact-fit)" } else { "sha1:len%64>55(extra-block)" });
    out.count(&format!("sha1:blocks={}", match (len + 9 + 63) / 64 { n @ 1..=4 => n.to_string(), 5..=18 => "5-18".into(), _ => ">18".into() }));
}

fn near_p(n: usize) -> String {
    if n <= 400 {
        "0..400".into()
    } else {
        format!("near-{}", SWEEP_P.iter().min_by_key(|p| (**p as i64 - n as i64).abs()).unwrap())
    }
}

/// SHA-1 on a described message (LENGTH sweeps).
fn run_sha1g(out: &mut Out, segs: &[Seg], kind: &str) {
    let m = desc_bytes(segs);
    let r = sha1_impl(&m);
    sha1_counts(out, m.len(), kind);
    out.count(&format!("sha1:len:{}", near_p(m.len())));
    out.case(&["sha1g", &desc_str(segs)], &r, true);
}

/// The handshake on a described key (hashes key + 36-byte GUID).
fn run_wsacc(out: &mut Out, segs: &[Seg]) {
    let key = desc_bytes(segs);
    let r = wsacc_impl(std::str::from_utf8(&key).expect("keys are ASCII"));
    out.count("fn=wsacc");
    out.count(&format!("wsacc:hashed-len:{}", near_p(key.len() + 36)));
    out.count(if r == "PANIC" { "wsacc:PANIC" } else if r.is_empty() { "wsacc:nothing-written" } else { "wsacc:response" });
    sha1_counts(out, key.len() + 36, "through-handshake");
    out.case(&["wsacc", &desc_str(segs)], &r, true);
}

/// LENGTH sweeps of SHA-1: directly and through the WebSocket handshake (message = key + GUID), every length
/// 0..=300 and P-72..=P+72 around each P of `SWEEP_P`.
fn sha1_length_sweeps(out: &mut Out, thorough: bool, seed: u64) {
    let lens = sweep_lengths(|_| 72);
    let sd = |l: usize, k: u64| seed.wrapping_mul(1000003).wrapping_add(l as u64 * 16 + k) % 1_000_000_007;
    for &l in &lens {
        // quick tier at 1 MiB: the direct digests for all of P-72..=P+72, the handshake for P-8..=P+8
        let direct_only = !thorough && l > 100_000 && (l as i64 - (1i64 << 20)).abs() > 8;
        // direct: lengths 0..=1100 are covered in full above; here the neighbourhoods of the larger P
        if l > 1100 {
            let contents = [Seg::Rand(l, sd(l, 0)), Seg::Pat(l, vec![0]), Seg::Pat(l, vec![0xff]), Seg::Pat(l, vec![0x80]), Seg::Count(l, 0)];
            let n = if thorough { contents.len() } else if l > 100_000 { 1 } else { 2 };
            for k in 0..n {
                let c = if k == 0 || thorough { contents[k].clone() } else { contents[1 + l % 4].clone() };
                run_sha1g(out, &[c], "length-sweep");
            }
        }
        // through the handshake: the key is 36 bytes shorter than the hashed message; random Base64 symbols, and (for
        // the short ones) every key length itself up to 300
        if l >= 36 && !direct_only {
            run_wsacc(out, &[Seg::B64(l - 36, sd(l, 1))]);
            if thorough && l > 300 {
                run_wsacc(out, &[Seg::Pat(l - 36, b"AQIDBAUGBwgJCgsMDQ4PEC==".to_vec())]);
            }
        }
    }
    for l in 301..=336usize {
        run_wsacc(out, &[Seg::B64(l - 36, sd(l, 1))]);
    }
    run_wsacc(out, &[Seg::Lit(b"dGhlIHNhbXBsZSBub25jZQ==".to_vec())]);
    out.extra.insert(
        "sha1_length_sweeps".into(),
        format!("hashed lengths 0..=336 and P-72..=P+72 for P in {:?}: directly (sha1g, above 1100) and through websocket_handler (wsacc, key = length - 36{})",
            SWEEP_P, if thorough { "" } else { "; at 1 MiB only P-8..=P+8 in the quick tier" }),
    );
}

pub fn gen(out: &mut Out, thorough: bool, seed: u64) {
    let mut rng = Rng::new(seed);
    sha1_length_sweeps(out, thorough, seed);
    // ---- dates: timestamps around every power of two and of ten (the widths of the intermediate integers and of the
    // decimal fields), 72 either side; inside 1970..9999 they are judged, outside only compared with the model
    for k in 0..=62u32 {
        for d in -72i64..=72 {
            run_date(out, (1i64 << k) + d, "around-power-of-two");
            if k >= 8 {
                run_date(out, -(1i64 << k) + d, "around-power-of-two");
            }
        }
    }
    let mut p10 = 1i64;
    for _ in 0..=18 {
        for d in -72i64..=72 {
            run_date(out, p10 + d, "around-power-of-ten");
        }
        p10 = p10.saturating_mul(10);
    }

    // ---- SHA-1: every length 0..=1100 (all padding / block-boundary cases), several contents each
    for len in 0..=1100usize {
        run_sha1(out, &vec![0u8; len], "len0..1100:zeros");
        run_sha1(out, &vec![0xffu8; len], "len0..1100:ff");
        run_sha1(out, &vec![0x80u8; len], "len0..1100:80");
        let inc: Vec<u8> = (0..len).map(|i| i as u8).collect();
        run_sha1(out, &inc, "len0..1100:counting");
        for _ in 0..2 {
            run_sha1(out, &rng.bytes(len), "len0..1100:random");
        }
    }
    // the RFC's own vectors
    run_sha1(out, b"abc", "rfc-vector");
    run_sha1(out, b"abcdbcdecdefdefgefghfghighijhijkijkljklmklmnlmnomnopnopq", "rfc-vector");
    run_sha1(out, &vec![b'a'; 1_000_000 / if thorough { 1 } else { 16 }], "rfc-vector-a-repeated");
    // random long messages
    let (n_long, max_long) = if thorough { (60, 1usize << 20) } else { (120, 1usize << 16) };
    for i in 0..n_long {
        let len = if i % 4 == 0 { max_long - (rng.below(130) as usize) } else { rng.range(1101, max_long as u64) as usize };
        run_sha1(out, &rng.bytes(len), "random-long");
    }
    if thorough {
        for _ in 0..400 {
            let len = rng.range(1101, 1 << 16) as usize;
            run_sha1(out, &rng.bytes(len), "random-long");
        }
    }

    // ---- dates: every day 1970-01-01 ..= 9999-12-31 at 00:00:00 and 23:59:59 (thorough).
    // Quick: every day of 1970..=2400 (one full 400-year cycle and more), every 5th day afterwards (5 is
    // coprime to 7, 365 and 366, so weekdays and days-of-year rotate), and for every year 1970..=9999 the
    // days Feb 28, Feb 29 (where it exists), Mar 1, Dec 31 and Jan 1.
    let dense_until = days_from_civil(2401, 1, 1);
    let mut n_days = 0u64;
    for day in 0..=LAST_DAY {
        if thorough || day < dense_until || day % 5 == 0 {
            run_date(out, day * 86400, "every-day-00:00:00");
            run_date(out, day * 86400 + 86399, "every-day-23:59:59");
            n_days += 1;
        }
    }
    for y in 1970..=9999i64 {
        let mar1 = days_from_civil(y, 3, 1);
        let jan1 = days_from_civil(y, 1, 1);
        for day in [jan1, mar1 - 2, mar1 - 1, mar1, days_from_civil(y, 12, 31)] {
            run_date(out, day * 86400, "year/feb-mar-boundary-00:00:00");
            run_date(out, day * 86400 + 86399, "year/feb-mar-boundary-23:59:59");
        }
    }
    out.extra.insert("date_day_block".into(),
        format!("{} of the {} days 1970-01-01..=9999-12-31 at 00:00:00 and 23:59:59 ({}); Jan 1, Feb 28/29, Mar 1, Dec 31 of every year",
            n_days, LAST_DAY + 1, if thorough { "all" } else { "all days of 1970..=2400, every 5th day afterwards" }));
    // every second of selected days
    let mut sel: Vec<(i64, i64, i64)> = vec![(1970, 1, 1), (2000, 2, 29), (2000, 3, 1), (9999, 12, 31)];
    if thorough {
        sel.extend_from_slice(&[
            (1970, 12, 31), (1971, 1, 1), (1972, 2, 28), (1972, 2, 29), (1972, 3, 1), (1999, 12, 31), (2000, 1, 1),
            (2000, 2, 28), (2000, 12, 31), (2001, 1, 1), (2001, 2, 28), (2001, 3, 1), (2038, 1, 19), (2038, 1, 20),
            (2099, 12, 31), (2100, 1, 1), (2100, 2, 28), (2100, 3, 1), (2100, 12, 31), (2400, 2, 28), (2400, 2, 29),
            (2400, 3, 1), (2399, 12, 31), (2400, 1, 1), (2400, 12, 31), (2401, 1, 1), (4000, 2, 29), (9999, 1, 1),
            (9999, 2, 28), (9999, 3, 1), (9600, 2, 29), (9900, 2, 28), (9900, 3, 1), (2024, 2, 29), (2023, 2, 28),
            (2023, 3, 1),
        ]);
    }
    for (y, m, d) in &sel {
        let base = days_from_civil(*y, *m, *d) * 86400;
        for s in 0..86400 {
            run_date(out, base + s, "every-second-of-selected-day");
        }
    }
    out.extra.insert("date_selected_days".into(), format!("{:?}", sel));
    // random timestamps of the property's range
    let n = if thorough { 3_000_000 } else { 200_000 };
    for _ in 0..n {
        run_date(out, rng.below(T_MAX as u64 + 1) as i64, "random");
    }
    // outside the property's range: model correspondence only (negative timestamps exercise the
    // truncating-division fix-ups, years >= 10000 the unpadded year, the extremes the casts)
    for t in [-1i64, -86400, -86401, -951868800, -951868801, -62135596800, -62167219200, T_MAX + 1, 1 << 40, 1 << 45,
              2005949145599, 2005949145600, i64::MAX, i64::MIN, i64::MIN + 951868800, i64::MIN + 951868799] {
        run_date(out, t, "out-of-range-fixed");
    }
    for _ in 0..2000 {
        let t = match rng.below(3) {
            0 => -(rng.below(100_000_000_000) as i64),
            1 => T_MAX + 1 + rng.below(1 << 42) as i64,
            _ => rng.next() as i64,
        };
        run_date(out, t, "out-of-range-random");
    }
}
