//! `hv <property> <tier> <seed> <cases-file> <stats-file>`: run the real Humphrey code on generated
//! cases and write one line per case (`fn<TAB>args...<TAB>impl-output`) for the Lean driver.
mod alloc;
mod common;
#[cfg(feature = "c12")]
mod c12;
#[cfg(feature = "c06")]
mod c06;
#[cfg(feature = "c20")]
mod c20_scn;
#[cfg(feature = "c20")]
mod c20;
#[cfg(feature = "c14")]
mod c14;
#[cfg(feature = "c11")]
mod c11;
#[cfg(feature = "c19")]
mod c19;
#[cfg(feature = "c03")]
mod c03;
mod worker;
#[cfg(feature = "c01")]
mod c01;
#[cfg(feature = "c04")]
mod c04;
#[cfg(feature = "c13")]
mod c13;
#[cfg(feature = "c08")]
mod c08;
#[cfg(feature = "c09")]
mod c09;
#[cfg(feature = "c15")]
mod c15;
#[cfg(feature = "c10")]
mod c10;
#[cfg(feature = "c16")]
mod c16;
#[cfg(feature = "c17")]
mod c17;
#[cfg(feature = "c18")]
mod c18;
#[cfg(feature = "c18")]
mod c18a; // C18: percent-encoding + Base64 half
#[cfg(feature = "c18")]
mod c18b; // C18: dates + SHA-1 half
#[cfg(feature = "c02")]
mod c02;
#[cfg(feature = "c05")]
mod c05;
#[cfg(feature = "c07")]
mod c07;
mod httpgen;
mod tables;

#[global_allocator]
static GLOBAL: alloc::Counting = alloc::Counting;

/// Direct execution of one case inside this process.
fn exec_inproc(prop: &str, f: &[String]) -> Option<String> {
    match prop {
        #[cfg(feature = "c03")]
        "C03" => c03::exec(f),
        _ => exec(prop, f),
    }
}

fn exec(prop: &str, f: &[String]) -> Option<String> {
    match prop {
        #[cfg(feature = "c03")]
        "C03" => c03::exec_isolated(f),
        #[cfg(feature = "c01")]
        "C01" | "C04" => c01::exec(f),
        #[cfg(feature = "c02")]
        "C02" => c02::exec(f),
        #[cfg(feature = "c05")]
        "C05" => c05::exec(f),
        #[cfg(feature = "c07")]
        "C07" => c07::exec(f),
        #[cfg(feature = "c18")]
        "C18" => c18::exec(f),
        #[cfg(feature = "c17")]
        "C17" => c17::exec(f),
        #[cfg(feature = "c16")]
        "C16" => c16::exec(f),
        #[cfg(feature = "c09")]
        "C09" => c09::exec(f),
        #[cfg(feature = "c10")]
        "C10" => c10::exec(f),
        #[cfg(feature = "c15")]
        "C15" => c15::exec(f),
        #[cfg(feature = "c08")]
        "C08" => c08::exec(f),
        #[cfg(feature = "c13")]
        "C13" => c13::exec(f),
        #[cfg(feature = "c19")]
        "C19" => c19::exec(f),
        #[cfg(feature = "c11")]
        "C11" => c11::exec(f),
        #[cfg(feature = "c14")]
        "C14" => c14::exec(f),
        #[cfg(feature = "c20")]
        "C20" => c20::exec(f),
        #[cfg(feature = "c06")]
        "C06" => c06::exec(f),
        #[cfg(feature = "c12")]
        "C12" => c12::exec(f),
        _ => None,
    }
}

fn main() {
    let args: Vec<String> = std::env::args().collect();
    if args.len() == 2 && args[1] == "tables" {
        print!("{}", tables::render());
        return;
    }
    if args.len() == 3 && args[1] == "__worker" {
        std::panic::set_hook(Box::new(|_| {}));
        worker::worker_main(&args[2], exec_inproc);
        return;
    }
    #[cfg(feature = "c12")]
    if args.len() == 2 && args[1] == "__c12child" {
        // private sub-command: one child process per batch of async-app scenarios (see c12.rs)
        c12::child();
        return;
    }
    #[cfg(feature = "c20")]
    if args.len() == 2 && args[1] == "__c20child" {
        // private sub-command: one child process per batch of shutdown scenarios (see c20.rs)
        c20::child();
        return;
    }
    #[cfg(feature = "c08")]
    if args.len() == 2 && args[1] == "__c08child" {
        // private sub-command: one child process per batch of pool scripts (see c08.rs)
        c08::child();
        return;
    }
    if args.len() < 6 {
        eprintln!("usage: hv <property> <quick|thorough> <seed> <cases-file> <stats-file>");
        std::process::exit(2);
    }
    // panics inside the code under test are caught per case; keep stderr quiet
    std::panic::set_hook(Box::new(|_| {}));
    if args[2] == "replay" {
        // hv <property> replay <seed> <cases-in> <cases-out>: re-run the implementation on stored cases
        let text = std::fs::read_to_string(&args[4]).unwrap_or_default();
        let mut o = String::new();
        for line in text.lines() {
            if line.is_empty() || line.starts_with('#') {
                continue;
            }
            let mut f: Vec<String> = line.split('\t').map(|x| x.to_string()).collect();
            f.pop(); // stored implementation output
            let r = exec(&args[1], &f).unwrap_or_else(|| "UNSUPPORTED".into());
            o += &f.join("\t");
            o.push('\t');
            o += &r;
            o.push('\n');
        }
        std::fs::write(&args[5], o).unwrap();
        return;
    }
    let thorough = args[2] == "thorough";
    let seed: u64 = args[3].parse().unwrap_or(1);
    let mut out = common::Out::new(&args[4]);
    match args[1].as_str() {
        #[cfg(feature = "c01")]
        "C01" => c01::gen(&mut out, thorough, seed),
        #[cfg(feature = "c03")]
        "C03" => c03::gen(&mut out, thorough, seed),
        #[cfg(feature = "c04")]
        "C04" => c04::gen(&mut out, thorough, seed),
        #[cfg(feature = "c02")]
        "C02" => c02::gen(&mut out, thorough, seed),
        #[cfg(feature = "c05")]
        "C05" => c05::gen(&mut out, thorough, seed),
        #[cfg(feature = "c07")]
        "C07" => c07::gen(&mut out, thorough, seed),
        #[cfg(feature = "c18")]
        "C18" => c18::gen(&mut out, thorough, seed),
        #[cfg(feature = "c17")]
        "C17" => c17::gen(&mut out, thorough, seed),
        #[cfg(feature = "c16")]
        "C16" => c16::gen(&mut out, thorough, seed),
        #[cfg(feature = "c09")]
        "C09" => c09::gen(&mut out, thorough, seed),
        #[cfg(feature = "c10")]
        "C10" => c10::gen(&mut out, thorough, seed),
        #[cfg(feature = "c15")]
        "C15" => c15::gen(&mut out, thorough, seed),
        #[cfg(feature = "c08")]
        "C08" => c08::gen(&mut out, thorough, seed),
        #[cfg(feature = "c13")]
        "C13" => c13::gen(&mut out, thorough, seed),
        #[cfg(feature = "c19")]
        "C19" => c19::gen(&mut out, thorough, seed),
        #[cfg(feature = "c11")]
        "C11" => c11::gen(&mut out, thorough, seed),
        #[cfg(feature = "c14")]
        "C14" => c14::gen(&mut out, thorough, seed),
        #[cfg(feature = "c20")]
        "C20" => c20::gen(&mut out, thorough, seed),
        #[cfg(feature = "c06")]
        "C06" => c06::gen(&mut out, thorough, seed),
        #[cfg(feature = "c12")]
        "C12" => c12::gen(&mut out, thorough, seed),
        other => {
            eprintln!("unknown property {}", other);
            std::process::exit(2);
        }
    }
    out.finish(&args[5]);
}
