//! Child-process execution of cases that may abort the process or never return.
//! `hv __worker <property>` reads `fn<TAB>args…` lines on stdin and answers one line per case on stdout.
use std::io::{BufRead, BufReader, Write};
use std::process::{Child, Command, Stdio};
use std::sync::mpsc::{channel, Receiver};
use std::time::Duration;

pub fn worker_main(prop: &str, exec: fn(&str, &[String]) -> Option<String>) {
    crate::alloc::limit_address_space(2 << 30);
    let stdin = std::io::stdin();
    let stdout = std::io::stdout();
    let mut out = stdout.lock();
    for line in stdin.lock().lines() {
        let line = match line { Ok(l) => l, Err(_) => break };
        let f: Vec<String> = line.split('\t').map(|x| x.to_string()).collect();
        let r = exec(prop, &f).unwrap_or_else(|| "UNSUPPORTED".into());
        let _ = writeln!(out, "{}", r);
        let _ = out.flush();
    }
}

struct Proc {
    child: Child,
    rx: Receiver<Option<String>>,
}

fn spawn(prop: &str) -> Proc {
    let mut child = Command::new(std::env::current_exe().unwrap())
        .arg("__worker")
        .arg(prop)
        .stdin(Stdio::piped())
        .stdout(Stdio::piped())
        .stderr(Stdio::null())
        .spawn()
        .expect("spawn worker");
    let stdout = child.stdout.take().unwrap();
    let (tx, rx) = channel();
    std::thread::spawn(move || {
        let mut r = BufReader::new(stdout);
        loop {
            let mut line = String::new();
            match r.read_line(&mut line) {
                Ok(0) | Err(_) => {
                    let _ = tx.send(None);
                    break;
                }
                Ok(_) => {
                    if tx.send(Some(line.trim_end_matches('\n').to_string())).is_err() {
                        break;
                    }
                }
            }
        }
    });
    Proc { child, rx }
}

/// Run every case (a list of fields) in a worker process. A case on which the worker dies yields `ABORT`,
/// one that does not answer within `timeout` yields `TIMEOUT`; the worker is restarted and the rest continue.
pub fn run_cases(prop: &str, cases: &[Vec<String>], timeout: Duration) -> Vec<String> {
    let mut results: Vec<String> = Vec::with_capacity(cases.len());
    let mut i = 0;
    const BATCH: usize = 64;
    while i < cases.len() {
        let mut p = spawn(prop);
        let mut stdin = p.child.stdin.take().unwrap();
        'proc: loop {
            let end = (i + BATCH).min(cases.len());
            let mut buf = String::new();
            for c in &cases[i..end] {
                buf.push_str(&c.join("\t"));
                buf.push('\n');
            }
            if stdin.write_all(buf.as_bytes()).is_err() || stdin.flush().is_err() {
                // the worker is gone: the case it was on is the culprit (handled by the read below)
            }
            for _ in i..end {
                match p.rx.recv_timeout(timeout) {
                    Ok(Some(line)) => {
                        results.push(line);
                        i += 1;
                    }
                    Ok(None) => {
                        results.push("ABORT".into());
                        i += 1;
                        let _ = p.child.kill();
                        let _ = p.child.wait();
                        break 'proc;
                    }
                    Err(_) => {
                        results.push("TIMEOUT".into());
                        i += 1;
                        let _ = p.child.kill();
                        let _ = p.child.wait();
                        break 'proc;
                    }
                }
            }
            if i >= cases.len() {
                drop(stdin);
                let _ = p.child.wait();
                break 'proc;
            }
        }
    }
    results
}
