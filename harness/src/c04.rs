//! C04: routing order. Generated applications (0..4 host sub-apps x 0..6 routes each, plus default), every
//! handler answering with its own id, one request per connection through the real `client_handler`.
use crate::c01::{emit_conn, sub_spec, tokio_conn_cases, TOKIO_EVERY};
use crate::common::*;

const PATTERNS: &[&str] = &[
    "/", "/a", "/a/b", "/a/*", "/*", "*", "/a*", "*b", "/*/b", "/a/*/c", "/**", "/a**b", "*/*", "/ab", "/a/b/*",
    "/é/*", "/*.html", "/x*y*z", "", "/a/", "/*?", "/A",
];
const PATHS: &[&str] = &[
    "/", "/a", "/a/b", "/a/b/c", "/ab", "/b", "/a/", "/a/x/c", "/x.html", "/a/x.html", "/é/ü", "/xyz", "/x1y2z", "//", "/A",
    "/a/b?q=/zzz", "/?x", "/a?*", "/nothing/here",
];
const HOST_PATTERNS: &[&str] = &["example.com", "*.example.com", "a.*", "*:8080", "localhost", "*.com", "ex*le.com", "é.example.com"];
const HOSTS: &[&str] = &["", "example.com", "a.example.com", "a.b.example.com", "example.com:8080", "localhost", "other.org", "a.x", "é.example.com", "EXAMPLE.COM"];

pub fn gen(out: &mut Out, thorough: bool, seed: u64) {
    let mut rng = Rng::new(seed ^ 0xC04);
    let napps = if thorough { 20_000 } else { 1_200 };
    for app_i in 0..napps {
        // every 8th application (quick) also runs on the tokio runtime, all of its HTTP requests
        TOKIO_EVERY.with(|e| e.set(if app_i % 8 == 0 && (thorough || app_i < 1200) && app_i < 2400 { 1 } else { 0 }));
        let mut id = 0;
        let mut subs: Vec<String> = Vec::new();
        let nsub = rng.below(5);
        let mut mk = |rng: &mut Rng, host: &str, id: &mut u32| {
            let nr = rng.below(7);
            // shadowing: sometimes repeat a pattern already used
            let mut routes: Vec<(String, String, String)> = Vec::new();
            for _ in 0..nr {
                *id += 1;
                let p = if !routes.is_empty() && rng.chance(1, 5) { routes[rng.below(routes.len() as u64) as usize].0.clone() } else { rng.pick(PATTERNS).to_string() };
                routes.push((p, format!("i{}", id), "0".into()));
            }
            let nw = rng.below(3);
            let mut ws: Vec<(String, String)> = Vec::new();
            for _ in 0..nw {
                *id += 1;
                ws.push((rng.pick(PATTERNS).to_string(), format!("{}", id)));
            }
            sub_spec(host, &routes, &ws)
        };
        for _ in 0..nsub {
            let h = *rng.pick(HOST_PATTERNS);
            subs.push(mk(&mut rng, h, &mut id));
        }
        subs.push(mk(&mut rng, "*", &mut id));
        let cfg = subs.join("|");
        out.count(&format!("subapps={}", nsub));
        for _ in 0..14 {
            let host = *rng.pick(HOSTS);
            let path = *rng.pick(PATHS);
            let ws = rng.chance(1, 5);
            let method = if ws { "GET" } else { *rng.pick(&["GET", "GET", "POST", "DELETE", "OPTIONS"]) };
            let mut b = format!("{} {} HTTP/1.1\r\n", method, path);
            if !host.is_empty() {
                b += &format!("{}: {}\r\n", rng.pick(&["Host", "host", "HOST"]), host);
            }
            if ws {
                b += "Upgrade: websocket\r\nConnection: Upgrade\r\n";
            }
            if method == "POST" {
                b += "Content-Length: 0\r\n";
            }
            b += "\r\n";
            let bytes = b.into_bytes();
            emit_conn(out, &cfg, false, &[format!("d{}", hex(&bytes))], ("127.0.0.1", 40000), &bytes, if ws { "ws" } else { "http" }, nsub >= 1);
        }
    }
    tokio_conn_cases(out);
}
