//! C04: routing order. Generated applications (0..4 host sub-apps x 0..6 routes each, plus default), every
//! handler answering with its own id, one request per connection through the real `client_handler`.
use crate::c01::{emit_conn, sub_spec, tokio_conn_cases, TOKIO_EVERY};
use crate::common::*;

const PATTERNS: &[&str] = &[
    "/", "/a", "/a/b", "/a/*", "/*", "*", "/a*", "*b", "/*/b", "/a/*/c", "/**", "/a**b", "*/*", "/ab", "/a/b/*",
    "/é/*", "/*.html", "/x*y*z", "", "/a/", "/*?", "/A",
];
const PATHS: &[&str] = &[
    "/", "/a", "/a/b", "/a/b/c", "/ab", "/b", "/a/", "/a/x/c", "/x.html", "/a/x.html", "/é/ü", "/xyz", "/x1y2z", "//", "/A",
    "/a/b?q=/zzz", "/?x", "/a?*", "/nothing/here",
    // request targets that are not in origin form (asterisk form, absolute form, no leading slash): patterns are matched
    // against them exactly as registered
    "*", "http://example.com/a/b", "a", "ab", "a/b", "xb",
];
// host patterns are compared with the Host value as the client wrote it, byte for byte: spellings with capitals on either side
const HOST_PATTERNS: &[&str] = &["example.com", "*.example.com", "a.*", "*:8080", "localhost", "*.com", "ex*le.com", "é.example.com",
                                 "Api.Example.com", "*.Example.COM", "LOCALHOST", "É.example.com",
                                 // the absolute form of a name (trailing dot) is a different string
                                 "example.com.", "*.example.com.",
                                 // patterns that match the EMPTY string: a request WITHOUT a Host header still goes to the default app
                                 "", "**"];
const HOSTS: &[&str] = &["", "example.com", "a.example.com", "a.b.example.com", "example.com:8080", "localhost", "other.org", "a.x", "é.example.com", "EXAMPLE.COM",
                         "Api.Example.com", "api.example.com", "API.EXAMPLE.COM", "x.Example.COM", "x.example.com", "LOCALHOST", "Localhost", "É.example.com",
                         "example.com.", "a.example.com.", "example.com.:8080", "."];

// ---------------------------------------------------------------------------------------------
// large applications and long values

#[derive(Clone, Copy, PartialEq, Debug)]
enum Pos {
    First,
    Middle,
    Last,
    Absent,
}
const POSITIONS: [Pos; 4] = [Pos::First, Pos::Last, Pos::Absent, Pos::Middle];

/// `n` filler items with `item` put first / in the middle / last / nowhere.
fn place<T>(n: usize, pos: Pos, mut fill: impl FnMut(usize) -> T, item: T) -> Vec<T> {
    let at = match pos {
        Pos::First => Some(0),
        Pos::Middle => Some(n / 2),
        Pos::Last => Some(n),
        Pos::Absent => None,
    };
    let mut v = Vec::with_capacity(n + 1);
    let mut item = Some(item);
    for i in 0..n {
        if Some(i) == at {
            v.push(item.take().unwrap());
        }
        v.push(fill(i));
    }
    if Some(n) == at {
        v.push(item.take().unwrap());
    }
    v
}

/// Filler route patterns: pairwise different, none matches `/target/x`; `/r<i>/zz` matches exactly the filler `i` when
/// `i % 3 == 1`, `/zz/q<i>` when `i % 3 == 2`.
fn fill_route(i: usize) -> String {
    match i % 3 {
        0 => format!("/r{}", i),
        1 => format!("/r{}/*", i),
        _ => format!("*/q{}", i),
    }
}

/// Filler host patterns: none matches `t.example.com`; `n<i>.example.org` / `x.n<i>.net` / `n<i>.x` match the filler `i`.
fn fill_host(i: usize) -> String {
    match i % 3 {
        0 => format!("n{}.example.org", i),
        1 => format!("*.n{}.net", i),
        _ => format!("n{}.*", i),
    }
}

fn request_bytes(rng: &mut Rng, host: &str, path: &str, ws: bool) -> Vec<u8> {
    let method = if ws { "GET" } else { *rng.pick(&["GET", "GET", "POST", "DELETE"]) };
    let mut b = format!("{} {} HTTP/1.1\r\n", method, path);
    if !host.is_empty() {
        b += &format!("{}: {}\r\n", rng.pick(&["Host", "host"]), host);
    }
    if ws {
        b += "Upgrade: websocket\r\nConnection: Upgrade\r\n";
    }
    if method == "POST" {
        b += "Content-Length: 0\r\n";
    }
    b += "\r\n";
    b.into_bytes()
}

/// Applications with MANY host sub-apps and MANY routes (hundreds to thousands): the host that matches is the first /
/// the last / in the middle / absent, and so is the matching route inside it, inside the default sub-app, and among
/// the WebSocket routes; requests also aim at fillers at random indices.
fn big_apps(out: &mut Out, thorough: bool, rng: &mut Rng) {
    let counts: &[usize] = if thorough { &[100, 128, 255, 256, 257, 1000, 1024, 4096] } else { &[100, 257, 1000] };
    let rounds = 2;
    let mut app_i = 0usize;
    for round in 0..rounds {
        for (hi, &nhosts) in counts.iter().enumerate() {
            for (pi, &hpos) in POSITIONS.iter().enumerate() {
                app_i += 1;
                // sizes and positions of the other lists rotate against the host dimension
                let nroutes = counts[(hi + pi + round) % counts.len()];
                let ndefault = counts[(hi + 2 * pi + round + 1) % counts.len()];
                let nws = [3, counts[(pi + round) % counts.len()]][(app_i / 2) % 2];
                let rpos = POSITIONS[(pi + hi + round + 1) % 4];
                let dpos = POSITIONS[(2 * pi + hi + round) % 4];
                let wpos = POSITIONS[(pi + 3 * hi + round + 2) % 4];
                let dwpos = POSITIONS[(3 * pi + hi + round + 3) % 4];
                TOKIO_EVERY.with(|e| e.set(if app_i % 4 == 1 { 1 } else { 0 }));
                let mut id = 0u32;
                let mut next = || {
                    id += 1;
                    id
                };
                let target_route = *rng.pick(&["/target/x", "/target/*", "*/x", "/*", "*", "/t*t/x"]);
                let mk_routes = |n: usize, pos: Pos, off: usize, shadow: bool, next: &mut dyn FnMut() -> u32| -> Vec<(String, String, String)> {
                    let mut pats = place(n, pos, |i| fill_route(off + i), target_route.to_string());
                    if shadow {
                        // a later route that matches too: never the one chosen while an earlier one matches
                        pats.push("/*".to_string());
                    }
                    pats.into_iter().map(|p| (p, format!("i{}", next()), "0".to_string())).collect()
                };
                let mk_ws = |n: usize, pos: Pos, off: usize, next: &mut dyn FnMut() -> u32| -> Vec<(String, String)> {
                    place(n, pos, |i| fill_route(off + i), "/target/*".to_string()).into_iter().map(|p| (p, format!("{}", next()))).collect()
                };
                let target_host = *rng.pick(&["t.example.com", "*.example.com", "t.*", "t.ex*le.com"]);
                let shadow = rng.chance(1, 2);
                let target_sub = sub_spec(target_host, &mk_routes(nroutes, rpos, 0, shadow, &mut next), &mk_ws(nws, wpos, 0, &mut next));
                let mut subs: Vec<String> = Vec::new();
                let fillers: Vec<String> = (0..nhosts)
                    .map(|i| {
                        // fillers answer everything (`/*`) or nothing: a request wrongly routed to one is seen
                        let routes: Vec<(String, String, String)> = if i % 2 == 0 { vec![("/*".to_string(), format!("i{}", next()), "0".to_string())] } else { vec![] };
                        let ws: Vec<(String, String)> = if i % 5 == 0 { vec![("*".to_string(), format!("{}", next()))] } else { vec![] };
                        sub_spec(&fill_host(i), &routes, &ws)
                    })
                    .collect();
                let mut fillers = fillers.into_iter();
                subs.extend(place(nhosts, hpos, |_| fillers.next().unwrap(), target_sub));
                if rng.chance(1, 2) {
                    // a second sub-app whose host matches as well: it must never be consulted
                    subs.push(sub_spec("*.example.com", &[("*".to_string(), format!("i{}", next()), "0".to_string())], &[("*".to_string(), format!("{}", next()))]));
                }
                subs.push(sub_spec("*", &mk_routes(ndefault, dpos, 100_000, rng.chance(1, 3), &mut next), &mk_ws(3, dwpos, 100_000, &mut next)));
                let cfg = subs.join("|");
                out.count(&format!("big:hosts={} host-position={:?}", nhosts, hpos));
                out.count(&format!("big:routes={} route-position={:?}", nroutes, rpos));
                out.count(&format!("big:default-routes={} route-position={:?}", ndefault, dpos));
                let j = |rng: &mut Rng, n: usize| rng.below(n as u64 + 2) as usize;
                let mut reqs: Vec<(String, String, bool)> = vec![
                    ("t.example.com".into(), "/target/x".into(), false),
                    ("t.example.com".into(), "/target/x?q=/r1/zz".into(), false),
                    ("t.example.com".into(), "/target/x".into(), true),
                    ("t.example.com".into(), "/nothing/here".into(), false),
                    ("t.example.com".into(), "/nothing/here".into(), true),
                    ("".into(), "/target/x".into(), false),
                    ("zzz.invalid".into(), "/target/x".into(), rng.chance(1, 2)),
                ];
                // fillers at random indices (also one past the end): hosts, routes of the target, routes of the default
                for _ in 0..2 {
                    let h = j(rng, nhosts);
                    let host = match h % 3 { 0 => format!("n{}.example.org", h), 1 => format!("x.n{}.net", h), _ => format!("n{}.x", h) };
                    reqs.push((host, "/target/x".into(), rng.chance(1, 3)));
                    let r = j(rng, nroutes);
                    reqs.push(("t.example.com".into(), if r % 3 == 2 { format!("/zz/q{}", r) } else { format!("/r{}/zz", r) }, rng.chance(1, 4)));
                    let d = 100_000 + j(rng, ndefault);
                    reqs.push((if rng.chance(1, 2) { "t.example.com".into() } else { "".into() }, if d % 3 == 2 { format!("/zz/q{}", d) } else { format!("/r{}/zz", d) }, false));
                }
                // the last filler exactly
                reqs.push(("t.example.com".into(), format!("/r{}/zz", (nroutes - 1) / 3 * 3 + 1), false));
                for (host, path, ws) in reqs {
                    let bytes = request_bytes(rng, &host, &path, ws);
                    emit_conn(out, &cfg, false, &[format!("d{}", hex(&bytes))], ("127.0.0.1", 40000), &bytes, if ws { "big-ws" } else { "big-http" }, true);
                }
            }
        }
    }
    TOKIO_EVERY.with(|e| e.set(0));
}

/// Long Host values, long paths, long patterns (hundreds of bytes to 64 KiB; up to 1 MiB in the thorough tier): a wildcard
/// absorbs the long part, or pattern and value are the same long literal, or differ in their last character.
fn long_values(out: &mut Out, thorough: bool, rng: &mut Rng) {
    let mut lens: Vec<usize> = vec![100, 255, 256, 257, 1000, 1024, 4096, 8192, 8193, 65_536];
    if thorough {
        lens.extend_from_slice(&[16_384, 65_537, 262_144, 1 << 20]);
    }
    for (li, &l) in lens.iter().enumerate() {
        TOKIO_EVERY.with(|e| e.set(if l <= 8193 && li % 2 == 0 { 1 } else { 0 }));
        let unit = ["a", "é", "ab/", "x."][li % 4];
        let long: String = unit.repeat(l / unit.len());
        let long_path = format!("/{}", long);
        let long_host = format!("{}.example.com", long.replace('/', "-"));
        let host_sub = sub_spec(
            "*.example.com",
            &[("/files/*".into(), "i1".into(), "0".into()), (long_path.clone(), "i2".into(), "0".into()), ("*.html".into(), "i3".into(), "0".into())],
            &[("/ws/*".into(), "4".into())],
        );
        let lit_host_sub = sub_spec(&long_host.replace(".example.com", ".example.org"), &[("/*".into(), "i5".into(), "0".into())], &[("*".into(), "6".into())]);
        let default = sub_spec("*", &[("/files/*/end".into(), "i7".into(), "0".into()), (format!("{}*", long_path), "i8".into(), "0".into())], &[(long_path.clone(), "9".into())]);
        let cfg = format!("{}|{}|{}", lit_host_sub, host_sub, default);
        out.count(&format!("long:length={}", l));
        let lit_host = long_host.replace(".example.com", ".example.org");
        let mut near = long_path.clone();
        near.pop();
        near.push('Z');
        let mut near_host = lit_host.clone();
        near_host.pop();
        near_host.push('x');
        let reqs: Vec<(String, String, bool)> = vec![
            // a wildcard in the host pattern absorbs a long label; literal long host; the same with another last character
            (long_host.clone(), "/files/a".into(), false),
            (lit_host.clone(), "/anything".into(), false),
            (lit_host.clone(), "/anything".into(), true),
            (near_host.clone(), "/files/a".into(), false),
            // a wildcard in the route absorbs a long path; long literal route; near miss; long query (never routed on)
            ("a.example.com".into(), format!("/files/{}", long), false),
            ("a.example.com".into(), format!("/files/{}/end", long), false),
            ("a.example.com".into(), long_path.clone(), false),
            ("a.example.com".into(), near.clone(), false),
            ("a.example.com".into(), format!("{}.html", long_path), false),
            ("a.example.com".into(), format!("/files/a?{}", long), false),
            ("a.example.com".into(), format!("/none?{}", long_path), false),
            ("a.example.com".into(), format!("/ws/{}", long), true),
            ("".into(), format!("{}/more", long_path), false),
            ("".into(), long_path.clone(), true),
            ("".into(), near.clone(), true),
            (long_host.clone(), long_path.clone(), false),
        ];
        for (ri, (host, path, ws)) in reqs.into_iter().enumerate() {
            // above 8 KiB the case lines get large (pattern, request and dispatched request are all in them): every
            // third request only, rotating with the length
            if l > 8193 && (ri + li) % 3 != 0 {
                continue;
            }
            let bytes = request_bytes(rng, &host, &path, ws);
            emit_conn(out, &cfg, false, &[format!("d{}", hex(&bytes))], ("127.0.0.1", 40000), &bytes, if ws { "long-ws" } else { "long-http" }, true);
        }
    }
    TOKIO_EVERY.with(|e| e.set(0));
}

pub fn gen(out: &mut Out, thorough: bool, seed: u64) {
    let mut rng = Rng::new(seed ^ 0xC04);
    let napps = if thorough { 20_000 } else { 1_200 };
    for app_i in 0..napps {
        // every 8th application (quick) also runs on the tokio runtime, all of its HTTP requests
        TOKIO_EVERY.with(|e| e.set(if app_i % 8 == 0 && (thorough || app_i < 1200) && app_i < 2400 { 1 } else { 0 }));
        let mut id = 0;
        let mut subs: Vec<String> = Vec::new();
        let nsub = rng.below(5);
        let mut mk = |rng: &mut Rng, host: &str, id: &mut u32| {
            let nr = rng.below(7);
            // shadowing: sometimes repeat a pattern already used
            let mut routes: Vec<(String, String, String)> = Vec::new();
            for _ in 0..nr {
                *id += 1;
                let p = if !routes.is_empty() && rng.chance(1, 5) { routes[rng.below(routes.len() as u64) as usize].0.clone() } else { rng.pick(PATTERNS).to_string() };
                routes.push((p, format!("i{}", id), "0".into()));
            }
            let nw = rng.below(3);
            let mut ws: Vec<(String, String)> = Vec::new();
            for _ in 0..nw {
                *id += 1;
                ws.push((rng.pick(PATTERNS).to_string(), format!("{}", id)));
            }
            sub_spec(host, &routes, &ws)
        };
        for _ in 0..nsub {
            let h = *rng.pick(HOST_PATTERNS);
            subs.push(mk(&mut rng, h, &mut id));
        }
        subs.push(mk(&mut rng, "*", &mut id));
        let cfg = subs.join("|");
        out.count(&format!("subapps={}", nsub));
        for _ in 0..14 {
            let host = *rng.pick(HOSTS);
            let path = *rng.pick(PATHS);
            let ws = rng.chance(1, 5);
            let method = if ws { "GET" } else { *rng.pick(&["GET", "GET", "POST", "DELETE", "OPTIONS"]) };
            let mut b = format!("{} {} HTTP/1.1\r\n", method, path);
            if !host.is_empty() {
                b += &format!("{}: {}\r\n", rng.pick(&["Host", "host", "HOST"]), host);
            }
            if ws {
                b += "Upgrade: websocket\r\nConnection: Upgrade\r\n";
            }
            if method == "POST" {
                b += "Content-Length: 0\r\n";
            }
            b += "\r\n";
            let bytes = b.into_bytes();
            emit_conn(out, &cfg, false, &[format!("d{}", hex(&bytes))], ("127.0.0.1", 40000), &bytes, if ws { "ws" } else { "http" }, nsub >= 1);
        }
        // several requests on ONE kept-alive connection, each with a Host (and path) of its own, possibly ending in an upgrade:
        // every request is routed by its own Host value, not by what an earlier request on the connection selected
        for _ in 0..3 {
            let n = rng.range(2, 5) as usize;
            let mut all: Vec<u8> = Vec::new();
            for k in 0..n {
                let host = *rng.pick(HOSTS);
                let path = *rng.pick(PATHS);
                let last = k + 1 == n;
                let ws = last && rng.chance(1, 3);
                let mut b = format!("GET {} HTTP/1.1\r\n", path);
                if !host.is_empty() { b += &format!("Host: {}\r\n", host); }
                if ws { b += "Upgrade: websocket\r\nConnection: Upgrade\r\n"; }
                else if !last { b += "Connection: keep-alive\r\n"; }
                b += "\r\n";
                all.extend(b.into_bytes());
            }
            crate::c01::NREQ.with(|c| c.set(n));
            emit_conn(out, &cfg, false, &[format!("d{}", hex(&all))], ("127.0.0.1", 40000), &all, "keep-alive-hosts", nsub >= 1);
            crate::c01::NREQ.with(|c| c.set(1));
        }
    }
    big_apps(out, thorough, &mut rng);
    long_values(out, thorough, &mut rng);
    tokio_conn_cases(out);
}
