//! C01 / C04: the real `client_handler` (through the hook `verif_client_handler`) on a scripted socket.
use crate::c02::{canon_request, hx, unhexz};
use crate::common::*;
use crate::httpgen::*;
use humphrey::app::{verif_client_handler, verif_error_handler, ErrorHandler};
use humphrey::http::cors::Cors;
use humphrey::http::headers::HeaderType;
use humphrey::http::method::Method;
use humphrey::http::{Request, Response, StatusCode};
use humphrey::monitor::MonitorConfig;
use humphrey::route::SubApp;
use humphrey::stream::{MockIo, Stream};
use std::cell::Cell;
use std::collections::VecDeque;
use std::io::{Read, Write};
use std::net::SocketAddr;
use std::sync::{Arc, Mutex};
use std::time::Duration;

pub enum Ev {
    Data(Vec<u8>),
    Idle,
}

pub struct MockConn {
    events: VecDeque<Ev>,
    written: Arc<Mutex<Vec<Vec<u8>>>>,
    timeout: Cell<bool>,
    peer: SocketAddr,
    /// call counters and "the previous write was cut short by us" (see `write`)
    nreads: u64,
    nwrites: u64,
    partial: bool,
}

impl Read for MockConn {
    fn read(&mut self, buf: &mut [u8]) -> std::io::Result<usize> {
        if buf.is_empty() {
            return Ok(0);
        }
        // every third call is interrupted by a signal (EINTR): nothing is consumed, the caller must retry
        self.nreads += 1;
        if self.nreads % 3 == 2 && matches!(self.events.front(), Some(Ev::Data(_))) {
            return Err(std::io::Error::new(std::io::ErrorKind::Interrupted, "interrupted"));
        }
        loop {
            match self.events.pop_front() {
                None => return Ok(0),
                Some(Ev::Idle) => {
                    if self.timeout.get() {
                        return Err(std::io::Error::new(std::io::ErrorKind::WouldBlock, "timed out"));
                    }
                    // no timeout armed: the pause is just a delay
                }
                Some(Ev::Data(mut c)) => {
                    if c.is_empty() {
                        continue;
                    }
                    if c.len() > buf.len() {
                        let rest = c.split_off(buf.len());
                        self.events.push_front(Ev::Data(rest));
                    }
                    buf[..c.len()].copy_from_slice(&c);
                    return Ok(c.len());
                }
            }
        }
    }
}

impl Write for MockConn {
    /// A socket may take only part of what it is offered, or be interrupted before taking anything: every other call
    /// accepts only the first half (the continuation is appended to the same logical write), every fifth is EINTR.
    fn write(&mut self, buf: &[u8]) -> std::io::Result<usize> {
        self.nwrites += 1;
        if self.nwrites % 5 == 4 && !buf.is_empty() {
            return Err(std::io::Error::new(std::io::ErrorKind::Interrupted, "interrupted"));
        }
        let n = if self.nwrites % 2 == 1 && buf.len() >= 2 { buf.len() / 2 } else { buf.len() };
        let mut w = self.written.lock().unwrap();
        if self.partial && !w.is_empty() {
            w.last_mut().unwrap().extend_from_slice(&buf[..n]);
        } else {
            w.push(buf[..n].to_vec());
        }
        self.partial = n < buf.len();
        Ok(n)
    }
    fn flush(&mut self) -> std::io::Result<()> {
        Ok(())
    }
}

impl MockIo for MockConn {
    fn peer_addr(&self) -> Result<SocketAddr, std::io::Error> {
        Ok(self.peer)
    }
    fn shutdown(&self) -> std::io::Result<()> {
        Ok(())
    }
    fn set_timeout(&self, timeout: Option<Duration>) -> std::io::Result<()> {
        self.timeout.set(timeout.is_some());
        Ok(())
    }
    fn set_nonblocking(&self, _: bool) -> std::io::Result<()> {
        Ok(())
    }
}

thread_local! {
    static DISPATCH: std::cell::RefCell<Vec<String>> = std::cell::RefCell::new(Vec::new());
    static WS: std::cell::RefCell<Option<String>> = std::cell::RefCell::new(None);
}

fn cors_preset(n: &str) -> Cors {
    match n {
        "1" => Cors::wildcard(),
        "2" => Cors::new()
            .with_origin("a.com")
            .with_origin("b.com")
            .with_method(Method::Get)
            .with_method(Method::Post)
            .with_header("X-A")
            .with_header("Content-Type"),
        "3" => Cors::new().with_wildcard_origin().with_wildcard_methods(),
        _ => Cors::new(),
    }
}

fn add_route(sub: SubApp<()>, pat: &str, kind: &str, cors: &str) -> SubApp<()> {
    let k = kind.to_string();
    let sub = sub.with_route(pat, move |req: Request, _: Arc<()>| -> Response {
        DISPATCH.with(|d| d.borrow_mut().push(canon_request(&req)));
        if let Some(id) = k.strip_prefix('i') {
            Response::new(StatusCode::OK, format!("id={}", id))
        } else if k == "e" {
            Response::new(StatusCode::OK, req.content.clone().unwrap_or_default())
        } else if k == "m" {
            Response::empty(StatusCode::OK)
        } else if let Some(code) = k.strip_prefix('z') {
            // a handler may answer a status that usually has no content WITH content: it is framed like any other response
            let status = match code { "204" => StatusCode::NoContent, "304" => StatusCode::NotModified, "100" => StatusCode::Continue, _ => StatusCode::OK };
            Response::new(status, format!("z{}", code))
        } else if let Some(which) = k.strip_prefix('h') {
            // handlers that set headers of their own, among them CORS headers the route is configured with as well: a header
            // the handler has set is kept, every OTHER configured CORS header must still be added
            let mut r = Response::new(StatusCode::OK, format!("h{}", which));
            if which.contains('o') { r = r.with_header(HeaderType::AccessControlAllowOrigin, "https://h.example"); }
            if which.contains('m') { r = r.with_header(HeaderType::AccessControlAllowMethods, "PATCH"); }
            if which.contains('h') { r = r.with_header(HeaderType::AccessControlAllowHeaders, "X-H"); }
            if which.contains('x') { r = r.with_header("X-Custom", "1").with_header(HeaderType::Server, "mine"); }
            r
        } else {
            std::panic::resume_unwind(Box::new("handler panic"))
        }
    });
    if cors != "0" { sub.with_cors_config(pat, cors_preset(cors)) } else { sub }
}

/// `hexhost/routes/wsroutes`, routes = `hexpat:kind:cors,…|-`, wsroutes = `hexpat:id,…|-`
fn build_sub(spec: &str) -> Option<SubApp<()>> {
    let p: Vec<&str> = spec.split('/').collect();
    if p.len() != 3 {
        return None;
    }
    let mut sub: SubApp<()> = SubApp::new();
    sub.host = String::from_utf8(unhex(p[0])).ok()?;
    if p[1] != "-" {
        for r in p[1].split(',') {
            let q: Vec<&str> = r.split(':').collect();
            let pat = String::from_utf8(unhex(q[0])).ok()?;
            sub = add_route(sub, &pat, q[1], q[2]);
        }
    }
    if p[2] != "-" {
        for r in p[2].split(',') {
            let q: Vec<&str> = r.split(':').collect();
            let pat = String::from_utf8(unhex(q[0])).ok()?;
            let id = q[1].to_string();
            sub = sub.with_websocket_route(&pat, move |_req: Request, _stream: Stream, _: Arc<()>| {
                WS.with(|w| *w.borrow_mut() = Some(id.clone()));
            });
        }
    }
    Some(sub)
}

/// Replace the value of the Date header by `D` when it is a well-formed IMF-fixdate within 5 s of now.
fn normalise_date(w: &[u8]) -> Vec<u8> {
    let hdr_end = w.windows(4).position(|x| x == b"\r\n\r\n").unwrap_or(w.len());
    let key = b"\r\nDate: ";
    if let Some(pos) = w[..hdr_end].windows(key.len()).position(|x| x == key) {
        let start = pos + key.len();
        let end = start + w[start..].windows(2).position(|x| x == b"\r\n").unwrap_or(0);
        let val = &w[start..end];
        let ok = check_date(val);
        let mut out = w[..start].to_vec();
        out.extend(if ok { &b"D"[..] } else { &b"BAD-DATE"[..] });
        out.extend(&w[end..]);
        return out;
    }
    w.to_vec()
}

fn check_date(v: &[u8]) -> bool {
    // "Thu, 01 Jan 1970 00:00:00 GMT"
    let s = match std::str::from_utf8(v) { Ok(s) => s, Err(_) => return false };
    if s.len() != 29 || !s.ends_with(" GMT") { return false; }
    const DAYS: [&str; 7] = ["Sun", "Mon", "Tue", "Wed", "Thu", "Fri", "Sat"];
    const MONTHS: [&str; 12] = ["Jan", "Feb", "Mar", "Apr", "May", "Jun", "Jul", "Aug", "Sep", "Oct", "Nov", "Dec"];
    if !DAYS.contains(&&s[0..3]) || &s[3..5] != ", " { return false; }
    let day: i64 = match s[5..7].parse() { Ok(x) => x, Err(_) => return false };
    let mon = match MONTHS.iter().position(|m| *m == &s[8..11]) { Some(m) => m as i64 + 1, None => return false };
    let year: i64 = match s[12..16].parse() { Ok(x) => x, Err(_) => return false };
    let (h, mi, se): (i64, i64, i64) = match (s[17..19].parse(), s[20..22].parse(), s[23..25].parse()) {
        (Ok(a), Ok(b), Ok(c)) => (a, b, c),
        _ => return false,
    };
    // days from civil (Howard Hinnant)
    let y = if mon <= 2 { year - 1 } else { year };
    let era = if y >= 0 { y } else { y - 399 } / 400;
    let yoe = y - era * 400;
    let mp = (mon + 9) % 12;
    let doy = (153 * mp + 2) / 5 + day - 1;
    let doe = yoe * 365 + yoe / 4 - yoe / 100 + doy;
    let days = era * 146097 + doe - 719468;
    let ts = days * 86400 + h * 3600 + mi * 60 + se;
    let now = std::time::SystemTime::now().duration_since(std::time::UNIX_EPOCH).unwrap().as_secs() as i64;
    (ts - now).abs() <= 5 && DAYS[((days + 4).rem_euclid(7)) as usize] == &s[0..3]
}

/// The event script: `,`-separated; `i` = a pause past the timeout; `d<hexz>` = one segment; `d<hexz>*<n>` = that segment
/// `n` times; `b<hexz>` = these bytes one per segment; `s<n>:<hexz>` = these bytes in segments of `n` bytes
/// (`hexz`: see `c02::unhexz`). The same grammar is read by `Driver/C01.lean::parseEvent` and by `hvt`.
pub fn expand_events(s: &str) -> Option<VecDeque<Ev>> {
    let mut events = VecDeque::new();
    if s == "-" {
        return Some(events);
    }
    for e in s.split(',') {
        if e == "i" {
            events.push_back(Ev::Idle);
        } else if let Some(h) = e.strip_prefix('d') {
            match h.split_once('*') {
                None => events.push_back(Ev::Data(unhexz(h))),
                Some((h, n)) => {
                    let n: usize = n.parse().ok()?;
                    if n > 1_000_000 { return None; }
                    let b = unhexz(h);
                    for _ in 0..n { events.push_back(Ev::Data(b.clone())); }
                }
            }
        } else if let Some(h) = e.strip_prefix('b') {
            for x in unhexz(h) { events.push_back(Ev::Data(vec![x])); }
        } else if let Some(r) = e.strip_prefix('s') {
            let (n, h) = r.split_once(':')?;
            let n: usize = n.parse().ok()?;
            let b = unhexz(h);
            if n == 0 { events.push_back(Ev::Data(b)); } else { for c in b.chunks(n) { events.push_back(Ev::Data(c.to_vec())); } }
        } else {
            return None;
        }
    }
    Some(events)
}

/// Run-length form of a list of rendered entries: a maximal run of n >= 2 equal consecutive entries `e` is written `e*n`
/// (a long keep-alive session repeats the same response thousands of times). `Driver/Http.lean::rle` does the same.
pub fn rle(v: &[String]) -> Vec<String> {
    let mut out: Vec<String> = Vec::new();
    let mut i = 0;
    while i < v.len() {
        let mut j = i + 1;
        while j < v.len() && v[j] == v[i] { j += 1; }
        out.push(if j - i == 1 { v[i].clone() } else { format!("{}*{}", v[i], j - i) });
        i = j;
    }
    out
}

/// `conn <cfg> <timeout 0|1> <events> <peer ip|port> <ip oracle>`
pub fn exec(f: &[String]) -> Option<String> {
    exec_n(f).map(|(r, _)| r)
}

/// The canonical output and the number of writes (= responses).
pub fn exec_n(f: &[String]) -> Option<(String, usize)> {
    if f[0] != "conn" || f.len() != 6 {
        return None;
    }
    let subs: Vec<&str> = f[1].split('|').collect();
    let mut built: Vec<SubApp<()>> = Vec::new();
    for s in &subs {
        built.push(build_sub(s)?);
    }
    let default = built.pop()?;
    let timeout = if f[2] == "1" { Some(Duration::from_millis(50)) } else { None };
    let events = expand_events(&f[3])?;
    let (ip, port) = f[4].split_once('|')?;
    let peer = SocketAddr::new(ip.parse().ok()?, port.parse().ok()?);
    let written = Arc::new(Mutex::new(Vec::new()));
    let mock = MockConn { events, written: written.clone(), timeout: Cell::new(false), peer, nreads: 0, nwrites: 0, partial: false };
    DISPATCH.with(|d| d.borrow_mut().clear());
    WS.with(|w| *w.borrow_mut() = None);
    let subapps = Arc::new(built);
    let default = Arc::new(default);
    let r = guarded(move || {
        verif_client_handler(
            Stream::Mock(Box::new(mock)),
            subapps,
            default,
            Arc::new(verif_error_handler as ErrorHandler),
            Arc::new(()),
            MonitorConfig::default(),
            timeout,
        )
    });
    let w: Vec<String> = written.lock().unwrap().iter().map(|x| hx(&normalise_date(x))).collect();
    let d: Vec<String> = DISPATCH.with(|d| d.borrow().clone());
    let ws = WS.with(|w| w.borrow().clone());
    Some((format!(
        "W[{}] D[{}] WS[{}] X[{}]",
        rle(&w).join(";"),
        rle(&d).join(";"),
        ws.unwrap_or_else(|| "-".into()),
        if r.is_ok() { "end" } else { "panic" }
    ), w.len()))
}

// ---------------------------------------------------------------------------------------------

pub fn sub_spec(host: &str, routes: &[(String, String, String)], ws: &[(String, String)]) -> String {
    let r = if routes.is_empty() { "-".to_string() } else {
        routes.iter().map(|(p, k, c)| format!("{}:{}:{}", hex(p.as_bytes()), k, c)).collect::<Vec<_>>().join(",")
    };
    let w = if ws.is_empty() { "-".to_string() } else {
        ws.iter().map(|(p, i)| format!("{}:{}", hex(p.as_bytes()), i)).collect::<Vec<_>>().join(",")
    };
    format!("{}/{}/{}", hex(host.as_bytes()), r, w)
}

/// The fixed application used for the connection-level scenarios of C01.
pub fn c01_app() -> String {
    let default = sub_spec(
        "*",
        &[
            ("/hello".into(), "i1".into(), "0".into()),
            ("/echo".into(), "e".into(), "0".into()),
            ("/empty".into(), "m".into(), "0".into()),
            ("/cors/*".into(), "i2".into(), "2".into()),
            ("/wild/*".into(), "i3".into(), "1".into()),
            ("/panic".into(), "p".into(), "0".into()),
            ("/c3".into(), "e".into(), "3".into()),
        ],
        &[("/ws".into(), "9".into())],
    );
    let host = sub_spec("*.example.com", &[("/hello".into(), "i7".into(), "0".into()), ("/h/*".into(), "e".into(), "1".into())], &[]);
    format!("{}|{}", host, default)
}

thread_local! {
    /// connection cases to repeat against the tokio runtime (see `tokio_conn_cases`)
    pub static TOKIO_INPUTS: std::cell::RefCell<Vec<Vec<String>>> = std::cell::RefCell::new(Vec::new());
    pub static TOKIO_EVERY: std::cell::Cell<u64> = std::cell::Cell::new(0);
    static TOKIO_COUNTER: std::cell::Cell<u64> = std::cell::Cell::new(0);
    /// number of requests in the stream of the connection being emitted (set by the generators; 1 for C04's single requests)
    pub static NREQ: std::cell::Cell<usize> = std::cell::Cell::new(1);
}

fn tokio_exe() -> Option<std::path::PathBuf> {
    let me = std::env::current_exe().ok()?;
    let verif = me.parent()?.parent()?.parent()?.parent()?;
    let p = verif.join("harness-tokio").join("target").join("release").join("hvt");
    if p.exists() { Some(p) } else { None }
}

/// `conn_tokio` cases: the selected connections against the real tokio `App::run` on a loopback port.
pub fn tokio_conn_cases(out: &mut Out) {
    let inputs: Vec<Vec<String>> = TOKIO_INPUTS.with(|t| t.borrow_mut().drain(..).collect());
    if inputs.is_empty() { return; }
    let exe = match tokio_exe() {
        Some(e) => e,
        None => { out.extra.insert("tokio".into(), "hvt not built: tokio runtime not exercised".into()); return; }
    };
    let dir = std::env::temp_dir().join(format!("hv_c01_{}", std::process::id()));
    let _ = std::fs::create_dir_all(&dir);
    let (inp, outp) = (dir.join("in"), dir.join("out"));
    std::fs::write(&inp, inputs.iter().map(|f| f.join("\t")).collect::<Vec<_>>().join("\n") + "\n").unwrap();
    let ok = std::process::Command::new(exe).arg("__c01").arg(&inp).arg(&outp).status().map(|s| s.success()).unwrap_or(false);
    let res = std::fs::read_to_string(&outp).unwrap_or_default();
    let _ = std::fs::remove_dir_all(&dir);
    if !ok { out.extra.insert("tokio".into(), "hvt __c01 failed".into()); return; }
    for (f, r) in inputs.iter().zip(res.lines()) {
        let mut g = f.clone();
        g[0] = "conn_tokio".into();
        out.count("tokio:connections");
        let fr: Vec<&str> = g.iter().map(|s| s.as_str()).collect();
        out.case(&fr, r, true);
    }
}

pub fn emit_conn(out: &mut Out, cfg: &str, timeout: bool, events: &[String], peer: (&str, u16), all_bytes: &[u8], tag: &str, nontrivial: bool) {
    emit_conn_ex(out, cfg, timeout, events, peer, all_bytes, tag, nontrivial, None)
}

/// `tokio`: `Some(true)` = also repeat this connection on the tokio runtime, `Some(false)` = never, `None` = the share
/// chosen by `TOKIO_EVERY` among the connections that qualify.
pub fn emit_conn_ex(out: &mut Out, cfg: &str, timeout: bool, events: &[String], peer: (&str, u16), all_bytes: &[u8], tag: &str, nontrivial: bool, tokio: Option<bool>) {
    let f = vec![
        "conn".to_string(),
        cfg.to_string(),
        if timeout { "1".into() } else { "0".into() },
        if events.is_empty() { "-".into() } else { events.join(",") },
        format!("{}|{}", peer.0, peer.1),
        ip_oracle(all_bytes),
    ];
    let (r, nresp) = exec_n(&f).unwrap_or_else(|| ("UNSUPPORTED".into(), 0));
    // a share of the plain connections (no timeout, no idle gap, no upgrade) is repeated on the tokio runtime, over a real
    // socket. Only streams the server reads to the end qualify (every request answered, or all but a panicking last one):
    // when a server closes a socket with unread bytes in it the kernel answers with RST, and what the CLIENT then still
    // receives of the responses already written is a race of the transport, not behaviour of the server.
    let every = TOKIO_EVERY.with(|e| e.get());
    let nreq = NREQ.with(|n| n.get());
    let read_to_end = nresp == nreq || (r.ends_with("X[panic]") && nresp + 1 == nreq);
    if tokio == Some(true) {
        if !timeout && read_to_end { TOKIO_INPUTS.with(|t| t.borrow_mut().push(f.clone())); }
    } else if tokio.is_none() && every > 0 && !timeout && (read_to_end || ((tag == "ws" || tag == "keep-alive-hosts") && nresp + 1 == nreq)) && tag != "idle" && tag != "pause-inside" && tag != "split" && tag != "bytewise" {
        let n = TOKIO_COUNTER.with(|c| { c.set(c.get() + 1); c.get() });
        if n % every == 0 { TOKIO_INPUTS.with(|t| t.borrow_mut().push(f.clone())); }
    }
    out.count(&format!("{}:responses={}", tag, match nresp { 0..=7 => nresp.to_string(), 8..=99 => "8-99".into(), 100..=999 => "100-999".into(), _ => "1000+".into() }));
    if r.ends_with("X[panic]") { out.count("handler-panic"); }
    let fr: Vec<&str> = f.iter().map(|s| s.as_str()).collect();
    out.case(&fr, &r, nontrivial);
}

/// One generated request of a C01 sequence: bytes and whether it is well-formed / keep-alive.
fn c01_request(rng: &mut Rng) -> (Vec<u8>, bool, bool) {
    let method = *rng.pick(&["GET", "POST", "PUT", "DELETE", "OPTIONS"]);
    let target = *rng.pick(&["/hello", "/nope", "/cors/x", "/echo", "/empty", "/panic", "/wild/a/b?q=1", "/hello?x=y", "/c3", "/h/1"]);
    let version = *rng.pick(&["HTTP/1.1", "HTTP/1.0"]);
    // (values that only LOOK like keep-alive after Unicode case mapping — the Kelvin sign, a dotless i — do not ask for it)
    let conn = *rng.pick(&["keep-alive", "Keep-Alive", "KEEP-ALIVE", "close", "", "keep-alive", "keep-alive", "keep-alive", "keep-alive",
                           "\u{212a}eep-alive", "keep-al\u{131}ve", "KEEP-AL\u{130}VE", "keepalive", "keep-alive, close"]);
    let mut s: Vec<u8> = Vec::new();
    let kind = rng.below(18);
    let mut wf = true;
    match kind {
        0 => { s.extend(format!("{} {}\r\n", method, target).as_bytes()); wf = false; } // no version
        1 => { s.extend(format!("BREW {} {}\r\n", target, version).as_bytes()); wf = false; }
        _ => s.extend(format!("{} {} {}\r\n", method, target, version).as_bytes()),
    }
    if rng.chance(1, 2) {
        s.extend(format!("Host: {}\r\n", rng.pick(&["localhost", "a.example.com", "example.com:8080", "x.example.com"])).as_bytes());
    }
    if !conn.is_empty() {
        s.extend(format!("{}: {}\r\n", rng.pick(&["Connection", "connection"]), conn).as_bytes());
    }
    if kind == 2 { s.extend(b"BadHeaderNoColon\r\n"); wf = false; }
    if kind == 4 { s.extend(b"X-Latin1: caf\xe9\r\n"); wf = false; }          // not UTF-8
    if kind == 5 { s.extend(b"X-Cut: \xe2\x82\r\n"); wf = false; }            // truncated multi-byte sequence
    if kind == 6 { s.extend(b"X-Bare-LF: v\n"); wf = false; }                   // header line without CR
    let body_len = if method == "POST" || method == "PUT" || rng.chance(1, 6) { Some(rng.below(40) as usize) } else { None };
    if let Some(n) = body_len {
        if kind == 3 { s.extend(b"Content-Length: 1x\r\n"); wf = false; }
        else { s.extend(format!("Content-Length: {}\r\n", n).as_bytes()); }
    }
    if rng.chance(1, 5) { s.extend(b"X-Extra: v\xc3\xa9\r\n"); }
    s.extend(b"\r\n");
    if let Some(n) = body_len {
        if kind != 3 { s.extend(rng.bytes(n)); }
    }
    let ka = wf && conn.eq_ignore_ascii_case("keep-alive");
    (s, wf, ka)
}

pub fn gen(out: &mut Out, thorough: bool, seed: u64) {
    TOKIO_EVERY.with(|e| e.set(if thorough { 4 } else { 8 }));
    let mut rng = Rng::new(seed ^ 0xC01);
    let cfg = c01_app();
    // The long sessions come FIRST, longest first: the model's cost per case grows with the square of the session length
    // (seconds per case), and ./check deals the lines of the case file round-robin to parallel drivers through `split`,
    // which hands each driver the last buffer-full of its share only when it closes that driver's pipe, one driver after
    // the other — slow lines at the end of the file would be judged one at a time, at the start they run side by side.
    long_sessions(out, &cfg, thorough, seed);
    let n = if thorough { 60_000 } else { 3_000 };
    for _ in 0..n {
        let nreq = rng.range(1, 6);
        let mut reqs: Vec<Vec<u8>> = Vec::new();
        for _ in 0..nreq {
            let (b, wf, ka) = c01_request(&mut rng);
            reqs.push(b);
            if !(wf && ka) && rng.chance(3, 4) {
                break;
            }
        }
        let all: Vec<u8> = reqs.concat();
        NREQ.with(|n| n.set(reqs.len()));
        let timeout = rng.chance(1, 3);
        let peer = ("127.0.0.1", 40000u16);
        let nt = reqs.len() >= 2;
        // (a) each request in its own segment
        let ev: Vec<String> = reqs.iter().map(|r| format!("d{}", hex(r))).collect();
        emit_conn(out, &cfg, timeout, &ev, peer, &all, "per-request", nt);
        // (b) everything in one segment (several requests per read)
        emit_conn(out, &cfg, timeout, &[format!("d{}", hex(&all))], peer, &all, "coalesced", nt);
        // (c) one byte per segment
        if all.len() <= 400 {
            let ev: Vec<String> = all.iter().map(|b| format!("d{:02x}", b)).collect();
            emit_conn(out, &cfg, timeout, &ev, peer, &all, "bytewise", nt);
        }
        // (d) random cuts, possibly with an idle gap between two requests
        let chunks = apply_cuts(&all, &random_cuts(&mut rng, all.len()));
        let ev: Vec<String> = chunks.iter().map(|c| format!("d{}", hex(c))).collect();
        emit_conn(out, &cfg, timeout, &ev, peer, &all, "random", nt);
        if reqs.len() >= 2 || rng.chance(1, 4) {
            // idle past the timeout after the k-th request (or before the first)
            let k = rng.below(reqs.len() as u64 + 1) as usize;
            let mut ev: Vec<String> = Vec::new();
            for (i, r) in reqs.iter().enumerate() {
                if i == k { ev.push("i".into()); }
                ev.push(format!("d{}", hex(r)));
            }
            if k == reqs.len() { ev.push("i".into()); }
            emit_conn(out, &cfg, true, &ev, peer, &all, "idle", nt);
        }
        // (d') a pause longer than the timeout INSIDE a request (between two of its segments), timeout configured: the
        // wait for the rest of a request that has begun is not an idle wait, the request must still be answered
        if rng.chance(1, 2) && all.len() >= 2 {
            let cut = 1 + rng.below(all.len() as u64 - 1) as usize;
            let mut ev = vec![format!("d{}", hex(&all[..cut])), "i".to_string(), format!("d{}", hex(&all[cut..]))];
            if rng.chance(1, 3) {
                // and a second pause further on
                let rest = &all[cut..];
                if rest.len() >= 2 {
                    let c2 = 1 + rng.below(rest.len() as u64 - 1) as usize;
                    ev = vec![format!("d{}", hex(&all[..cut])), "i".to_string(), format!("d{}", hex(&rest[..c2])), "i".to_string(),
                              format!("d{}", hex(&rest[c2..]))];
                }
            }
            emit_conn(out, &cfg, true, &ev, peer, &all, "pause-inside", nt);
        }
        // (e) every single split point for short streams
        if all.len() <= 160 && rng.chance(1, 6) {
            for cut in 1..all.len() {
                let ev = vec![format!("d{}", hex(&all[..cut])), format!("d{}", hex(&all[cut..]))];
                emit_conn(out, &cfg, timeout, &ev, peer, &all, "split", nt);
            }
        }
    }
    // handlers that set response headers themselves — one, two or all three of the CORS headers their route is configured
    // with, a custom header and Server: every combination of {handler sets o/m/h/x} x {route CORS preset 1, 2, 3, none},
    // plain, OPTIONS and keep-alive pairs, on both runtimes
    {
        let kinds = ["ho", "hm", "hh", "hom", "hoh", "hmh", "homh", "hx", "hox"];
        let mut routes: Vec<(String, String, String)> = Vec::new();
        for (ki, k) in kinds.iter().enumerate() {
            for preset in ["0", "1", "2", "3"] {
                routes.push((format!("/k{}c{}", ki, preset), k.to_string(), preset.to_string()));
            }
        }
        routes.push(("/plain".into(), "i1".into(), "2".into()));
        for code in ["204", "304", "100"] { routes.push((format!("/z{}", code), format!("z{}", code), "0".into())); }
        let hc = sub_spec("*", &routes, &[]);
        for code in ["204", "304", "100"] {
            for method in ["GET", "POST"] {
                let body = if method == "POST" { "Content-Length: 2\r\n\r\nhi" } else { "\r\n" };
                let one = format!("{} /z{} HTTP/1.1\r\nHost: a\r\nConnection: keep-alive\r\n{}", method, code, body).into_bytes();
                let three = [one.clone(), one.clone(), b"GET /plain HTTP/1.1\r\nConnection: close\r\n\r\n".to_vec()].concat();
                NREQ.with(|n| n.set(3));
                emit_conn(out, &hc, false, &[format!("d{}", hex(&three))], ("127.0.0.1", 40000), &three, "handler-headers", true);
            }
        }
        for (ki, _) in kinds.iter().enumerate() {
            for preset in ["0", "1", "2", "3"] {
                for method in ["GET", "OPTIONS", "POST"] {
                    let target = format!("/k{}c{}", ki, preset);
                    let body = if method == "POST" { "Content-Length: 2\r\n\r\nhi" } else { "\r\n" };
                    let one = format!("{} {} HTTP/1.1\r\nHost: a\r\nOrigin: https://o.example\r\nConnection: keep-alive\r\n{}", method, target, body).into_bytes();
                    let two = [one.clone(), b"GET /plain HTTP/1.1\r\nConnection: close\r\n\r\n".to_vec()].concat();
                    NREQ.with(|n| n.set(2));
                    emit_conn(out, &hc, false, &[format!("d{}", hex(&two))], ("127.0.0.1", 40000), &two, "handler-headers", true);
                }
            }
        }
    }
    // websocket upgrade requests
    NREQ.with(|n| n.set(1));
    for (t, host) in [("/ws", ""), ("/nows", ""), ("/ws?x", "Host: a.example.com\r\n")] {
        let b = format!("GET {} HTTP/1.1\r\n{}Upgrade: websocket\r\nConnection: Upgrade\r\n\r\n", t, host).into_bytes();
        emit_conn(out, &cfg, false, &[format!("d{}", hex(&b))], ("127.0.0.1", 40000), &b, "ws", true);
    }
    large_requests(out, &cfg, thorough, seed);
    tokio_conn_cases(out);
}

/// Well-formed keep-alive requests of eight kinds (the blocks of the long sessions are runs of one of them).
const KA: &[&[u8]] = &[
        b"GET /hello HTTP/1.1\r\nConnection: keep-alive\r\n\r\n",
        b"GET /nope HTTP/1.1\r\nConnection: Keep-Alive\r\n\r\n",
        b"OPTIONS /cors/x HTTP/1.1\r\nconnection: keep-alive\r\n\r\n",
        b"POST /echo HTTP/1.1\r\nConnection: keep-alive\r\nContent-Length: 3\r\n\r\nabc",
        b"GET /empty HTTP/1.0\r\nConnection: keep-alive\r\n\r\n",
        b"PUT /h/1 HTTP/1.1\r\nHost: a.example.com\r\nConnection: KEEP-ALIVE\r\nContent-Length: 0\r\n\r\n",
        b"DELETE /wild/a/b?q=1 HTTP/1.1\r\nConnection: keep-alive\r\n\r\n",
        b"OPTIONS /nope HTTP/1.1\r\nConnection: keep-alive\r\n\r\n",
    ];
/// What follows the last keep-alive request: nothing (the client leaves), a closing request, a request without a
/// Connection field, a malformed one (400), a panicking handler.
const LAST: &[&[u8]] = &[
        b"",
        b"GET /hello HTTP/1.1\r\nConnection: close\r\n\r\n",
        b"GET /cors/y HTTP/1.1\r\n\r\n",
        b"BREW / HTTP/1.1\r\nConnection: keep-alive\r\n\r\n",
        b"GET /panic HTTP/1.1\r\nConnection: keep-alive\r\n\r\n",
];

/// Histories "well above small": long keep-alive sessions (hundreds to thousands of requests on ONE connection) made of
/// blocks of identical well-formed keep-alive requests. Runs of identical requests are written in the compact forms of
/// `expand_events` / `unhexz`, the responses come back run-length encoded, so the case lines stay small.
fn long_sessions(out: &mut Out, cfg: &str, thorough: bool, seed: u64) {
    let mut rng = Rng::new(seed ^ 0xC01_B16);
    let peer = ("127.0.0.1", 40000u16);
    let lengths: Vec<usize> = if thorough {
        vec![63, 64, 65, 99, 100, 101, 127, 128, 129, 199, 200, 201, 255, 256, 257, 300, 384, 500, 511, 512, 513, 767, 768, 999, 1000,
             1001, 1023, 1024, 1025, 1500, 2047, 2048, 2049, 3000, 4095, 4096, 4097, 5000, 8193]
    } else {
        vec![99, 100, 101, 127, 128, 129, 255, 256, 257, 300, 511, 512, 513, 1000, 1023, 1024, 1025, 2049]
    };
    // (the model's connection loop measures what is left of the stream once per request, so its cost grows with the square of
    // the session length: about 1 s per case at 1 000 requests, 4 s at 2 000, 15 s at 4 000 — hence the tiers)
    let tokio_lengths: &[usize] = if thorough { &[100, 101, 129, 257, 513, 1001, 1025, 2049, 4097] } else { &[101, 257, 1025] };
    for (li, n) in lengths.iter().enumerate().rev() {
        let n = *n;
        let variants = if thorough && n <= 1100 { 3 } else { 1 };
        for v in 0..variants {
            // 1..3 blocks; the total number of keep-alive requests is n
            let nblocks = if v == 0 { 1 + li % 3 } else { rng.range(1, 3) as usize };
            let mut left = n;
            let mut blocks: Vec<(&[u8], usize)> = Vec::new();
            for b in 0..nblocks {
                let k = if b + 1 == nblocks { left } else { rng.range(1, (left - (nblocks - 1 - b)) as u64) as usize };
                blocks.push((KA[rng.below(KA.len() as u64) as usize], k));
                left -= k;
            }
            let last = LAST[if v == 0 { li % LAST.len() } else { rng.below(LAST.len() as u64) as usize }];
            NREQ.with(|c| c.set(n + if last.is_empty() { 0 } else { 1 }));
            // the stream in compact form, and (for the forwarded-address oracle only) one copy of each distinct request
            let mut enc: Vec<String> = blocks.iter().map(|(t, k)| format!("Y{}.{}", k, hex(t))).collect();
            if !last.is_empty() { enc.push(hex(last)); }
            let enc = enc.join("_");
            let sample: Vec<u8> = blocks.iter().flat_map(|(t, _)| t.to_vec()).chain(last.to_vec()).collect();
            let tk = if tokio_lengths.contains(&n) && v == 0 { Some(true) } else { Some(false) };
            // (a) one request per segment
            let mut ev: Vec<String> = blocks.iter().map(|(t, k)| format!("d{}*{}", hex(t), k)).collect();
            if !last.is_empty() { ev.push(format!("d{}", hex(last))); }
            emit_conn_ex(out, cfg, false, &ev, peer, &sample, "long:per-request", true, tk);
            // (b) the whole session in ONE segment
            let with_timeout = rng.chance(1, 2) && tk != Some(true);
            emit_conn_ex(out, cfg, with_timeout, &[format!("d{}", enc)], peer, &sample, "long:coalesced", true, tk);
            if n > 5000 { continue; }
            // (c) segments of a fixed size that is unrelated to the request boundaries
            // (tiny segments only on the scripted socket: on the real one every segment costs a pause)
            let k = *rng.pick(if tk == Some(true) { &[536usize, 1460, 4096, 65536][..] } else { &[7usize, 100, 536, 1460, 4096, 65536][..] });
            emit_conn_ex(out, cfg, false, &[format!("s{}:{}", k, enc)], peer, &sample, "long:fixed-size-segments", true, tk);
            // (d) one byte per segment
            if n <= 300 && (thorough || li % 4 == 1) || (thorough && n <= 1100 && v == 0) {
                emit_conn_ex(out, cfg, false, &[format!("b{}", enc)], peer, &sample, "long:bytewise", true, Some(false));
            }
            // (e) a timeout is configured and the client idles past it after the whole session, or after the first block:
            // 408 then, and not earlier
            let mut ev_idle = ev.clone();
            if v % 2 == 0 && li % 2 == 0 { ev_idle.push("i".into()); } else { ev_idle.insert(1.min(ev_idle.len()), "i".into()); }
            emit_conn_ex(out, cfg, true, &ev_idle, peer, &sample, "long:idle", true, Some(false));
        }
    }
}

/// Sizes and counts "well above small": sessions of a few hundred VARIED requests, bodies around 64 KiB / 256 KiB / 1 MiB
/// (a pattern, `Z<len>.<seed>` in the case line), requests with hundreds of field lines.
fn large_requests(out: &mut Out, cfg: &str, thorough: bool, seed: u64) {
    let mut rng = Rng::new(seed ^ 0xC01_B17);
    let peer = ("127.0.0.1", 40000u16);
    // ---- (2) long sessions of VARIED requests (methods, targets, versions, bodies, hosts), all well-formed and keep-alive
    let sessions = if thorough { 40 } else { 4 };
    for si in 0..sessions {
        let n = *rng.pick(&[100usize, 101, 128, 129, 150, 200, 256, 257, 300, 400]);
        let mut reqs: Vec<Vec<u8>> = Vec::new();
        while reqs.len() < n {
            let (b, wf, ka) = c01_request(&mut rng);
            if wf && ka && !b.windows(6).any(|w| w == b"/panic") { reqs.push(b); }
        }
        if si % 2 == 0 { reqs.push(LAST[1 + si / 2 % 4].to_vec()); }
        let all: Vec<u8> = reqs.concat();
        NREQ.with(|c| c.set(reqs.len()));
        let ev: Vec<String> = reqs.iter().map(|r| format!("d{}", hex(r))).collect();
        emit_conn_ex(out, cfg, false, &ev, peer, &all, "long-varied:per-request", true, Some(si < 2 || thorough && si < 8));
        emit_conn_ex(out, cfg, rng.chance(1, 2), &[format!("d{}", hex(&all))], peer, &all, "long-varied:coalesced", true, Some(si >= 2 && si < 4));
        let chunks = apply_cuts(&all, &random_cuts(&mut rng, all.len()));
        let ev: Vec<String> = chunks.iter().map(|c| format!("d{}", hex(c))).collect();
        emit_conn_ex(out, cfg, false, &ev, peer, &all, "long-varied:random", true, Some(false));
        emit_conn_ex(out, cfg, false, &[format!("s{}:{}", rng.pick(&[3usize, 64, 1000, 1460]), hex(&all))], peer, &all, "long-varied:fixed-size-segments", true, Some(false));
    }
    // ---- (3) one request with a LARGE Content-Length body (a pattern, `Z<len>.<seed>`), then a second request: the body must
    // be taken whole, never interpreted, and the next request answered
    let sizes: Vec<usize> = if thorough {
        vec![65_535, 65_536, 65_537, 100_000, 131_072, 131_073, 262_143, 262_144, 262_145, 300_017, 524_288, 524_289, 1_000_000, 1_048_575,
             1_048_576, 1_048_577, 2_097_153, 4_194_305]
    } else {
        vec![65_536, 65_537, 262_144, 262_145, 300_017, 1_048_577]
    };
    for (i, n) in sizes.iter().enumerate() {
        let n = *n;
        let bseed = rng.next() as u32;
        // targets whose answer is small, and the echoing route for the sizes whose answer still fits a case line
        let mut targets = vec![*rng.pick(&["/hello", "/nope", "/empty", "/cors/x"])];
        if n <= 70_000 || (thorough && n <= 300_000 && n % 2 == 1) { targets.push("/echo"); }
        for target in targets {
            let head = format!("{} {} HTTP/1.1\r\n{}: keep-alive\r\nContent-Length: {}\r\n\r\n", rng.pick(&["POST", "PUT"]), target, rng.pick(&["Connection", "connection"]), n).into_bytes();
            let next: &[u8] = LAST[1 + i % 2];
            let body = format!("Z{}.{}", n, bseed);
            let sample: Vec<u8> = head.iter().chain(next.iter()).cloned().collect();
            NREQ.with(|c| c.set(2));
            let tk = Some(i % 2 == 1 || thorough);
            // everything in one segment
            emit_conn_ex(out, cfg, false, &[format!("d{}_{}_{}", hex(&head), body, hex(next))], peer, &sample, "body:one-segment", true, tk);
            // head, body, next request each in its own segment
            emit_conn_ex(out, cfg, rng.chance(1, 2), &[format!("d{}", hex(&head)), format!("d{}", body), format!("d{}", hex(next))], peer, &sample, "body:head|body|next", true, Some(false));
            // MSS-sized / buffer-sized segments over the whole stream
            let k = *rng.pick(&[1460usize, 4096, 8192, 65_536, 262_144]);
            emit_conn_ex(out, cfg, false, &[format!("s{}:{}_{}_{}", k, hex(&head), body, hex(next))], peer, &sample, "body:fixed-size-segments", true, tk);
            // the head together with the first bytes of the body, then the rest in large pieces, then the next request
            // together with the last bytes of the body
            let first = rng.range(1, 3000) as usize;
            let mut bytes = crate::c02::pat_bytes(n, bseed);
            let tail = bytes.split_off(n - 17);
            let rest = bytes.split_off(first);
            let mut ev = vec![format!("d{}{}", hex(&head), hex(&bytes))];
            // (the middle of the body is not a pattern prefix any more: it goes in plain hex, in 64 KiB pieces, for the smaller
            // sizes only; the larger ones pause INSIDE the body instead, with the timeout armed)
            if n <= 70_000 {
                for c in rest.chunks(65_536) { ev.push(format!("d{}", hex(c))); }
                ev.push(format!("d{}{}", hex(&tail), hex(next)));
                emit_conn_ex(out, cfg, false, &ev, peer, &sample, "body:straddling-segments", true, Some(false));
            } else {
                let ev = vec![format!("d{}", hex(&head)), "i".to_string(), format!("s{}:{}", 131_072, body), "i".to_string(), format!("d{}", hex(next))];
                emit_conn_ex(out, cfg, true, &ev, peer, &sample, "body:pause-inside", true, Some(false));
            }
        }
    }
    // ---- (4) the NUMBER of field lines of a request inside a session
    let counts: &[usize] = if thorough { &[31, 32, 33, 64, 65, 100, 127, 128, 129, 255, 256, 257, 500, 1000, 1024, 2048] } else { &[64, 100, 128, 257, 1000] };
    for (i, n) in counts.iter().enumerate() {
        let mut req = format!("GET {} HTTP/1.1\r\n", rng.pick(&["/hello", "/cors/x", "/nope"])).into_bytes();
        let at = rng.below(*n as u64 + 1) as usize;
        for j in 0..=*n {
            if j == at { req.extend(b"Connection: keep-alive\r\n"); }
            if j < *n { req.extend(format!("{}: v{}\r\n", if i % 2 == 0 { format!("X-N-{}", j) } else { "X-Same".to_string() }, j).as_bytes()); }
        }
        req.extend(b"\r\n");
        let all: Vec<u8> = req.iter().chain(KA[0].iter()).chain(LAST[1].iter()).cloned().collect();
        NREQ.with(|c| c.set(3));
        emit_conn_ex(out, cfg, false, &[format!("d{}", hex(&all))], peer, &all, "fields:coalesced", true, Some(true));
        emit_conn_ex(out, cfg, false, &[format!("s{}:{}", rng.pick(&[5usize, 100, 1460]), hex(&all))], peer, &all, "fields:fixed-size-segments", true, Some(false));
    }
}
