//! C13: `humphrey_json::Value::{parse, serialize, serialize_pretty}`.
//!
//! Case functions (see `Driver/C13.lean` for the canonical value rendering):
//!   json_parse  hex(text)                       -> canonical value | ERR | PANIC
//!   json_ser    canonical value, indent|-, tab  -> hex(text)
//!   json_rt     canonical value, indent|-, tab  -> canonical value of parse(serialize(v)) | ERR
//!   num_show    bits                            -> Display text `|` bits of from_str(text)
//! `tab` = `bits=Display text` for every distinct number of the value, `;`-separated.
use crate::common::*;
use humphrey_json::error::ParseError;
use humphrey_json::Value;

// ---------------------------------------------------------------- canonical rendering

fn render(v: &Value, o: &mut String) {
    match v {
        Value::Null => o.push('Z'),
        Value::Bool(true) => o.push('T'),
        Value::Bool(false) => o.push('F'),
        Value::Number(x) => {
            o.push('n');
            o.push_str(&format!("{:016x}", x.to_bits()));
        }
        Value::String(s) => {
            o.push('s');
            o.push_str(&hex(s.as_bytes()));
            o.push('.');
        }
        Value::Array(a) => {
            o.push('[');
            for x in a {
                render(x, o);
            }
            o.push(']');
        }
        Value::Object(m) => {
            o.push('{');
            for (k, x) in m {
                o.push('s');
                o.push_str(&hex(k.as_bytes()));
                o.push('.');
                render(x, o);
            }
            o.push('}');
        }
    }
}

fn canon(v: &Value) -> String {
    let mut o = String::new();
    render(v, &mut o);
    o
}

fn read_str(b: &[u8], i: &mut usize) -> Option<String> {
    let start = *i;
    while *i < b.len() && b[*i] != b'.' {
        *i += 1;
    }
    if *i >= b.len() {
        return None;
    }
    let h = std::str::from_utf8(&b[start..*i]).ok()?;
    *i += 1;
    String::from_utf8(unhex(h)).ok()
}

fn unrender(b: &[u8], i: &mut usize) -> Option<Value> {
    let c = *b.get(*i)?;
    *i += 1;
    match c {
        b'Z' => Some(Value::Null),
        b'T' => Some(Value::Bool(true)),
        b'F' => Some(Value::Bool(false)),
        b'n' => {
            let h = std::str::from_utf8(b.get(*i..*i + 16)?).ok()?;
            *i += 16;
            Some(Value::Number(f64::from_bits(u64::from_str_radix(h, 16).ok()?)))
        }
        b's' => Some(Value::String(read_str(b, i)?)),
        b'[' => {
            let mut a = Vec::new();
            while *b.get(*i)? != b']' {
                a.push(unrender(b, i)?);
            }
            *i += 1;
            Some(Value::Array(a))
        }
        b'{' => {
            let mut m = Vec::new();
            while *b.get(*i)? != b'}' {
                if b[*i] != b's' {
                    return None;
                }
                *i += 1;
                let k = read_str(b, i)?;
                m.push((k, unrender(b, i)?));
            }
            *i += 1;
            Some(Value::Object(m))
        }
        _ => None,
    }
}

fn numbers(v: &Value, acc: &mut Vec<f64>) {
    match v {
        Value::Number(x) => {
            if !acc.iter().any(|y| y.to_bits() == x.to_bits()) {
                acc.push(*x)
            }
        }
        Value::Array(a) => a.iter().for_each(|x| numbers(x, acc)),
        Value::Object(m) => m.iter().for_each(|(_, x)| numbers(x, acc)),
        _ => (),
    }
}

fn numtab(v: &Value) -> String {
    let mut acc = Vec::new();
    numbers(v, &mut acc);
    acc.iter().map(|x| format!("{:016x}={}", x.to_bits(), x)).collect::<Vec<_>>().join(";")
}

fn depth(v: &Value) -> usize {
    match v {
        Value::Array(a) => 1 + a.iter().map(depth).max().unwrap_or(0),
        Value::Object(m) => 1 + m.iter().map(|(_, x)| depth(x)).max().unwrap_or(0),
        _ => 0,
    }
}

// ---------------------------------------------------------------- implementation under test

fn do_parse(text: &str) -> (String, String) {
    match guarded(|| Value::parse(text)) {
        Ok(Ok(v)) => (canon(&v), "ok".into()),
        Ok(Err(e)) => ("ERR".into(), format!("{:?}", ParseError::from(e))),
        Err(_) => ("PANIC".into(), "panic".into()),
    }
}

fn do_ser(v: &Value, ind: &str) -> Result<String, String> {
    guarded(|| if ind == "-" { v.serialize() } else { v.serialize_pretty(ind.parse().unwrap_or(0)) })
}

pub fn exec(f: &[String]) -> Option<String> {
    match (f[0].as_str(), f.len()) {
        ("json_parse", 2) => {
            let t = String::from_utf8(unhex(&f[1])).ok()?;
            Some(do_parse(&t).0)
        }
        ("json_ser", 4) | ("json_rt", 4) => {
            let mut i = 0;
            let v = unrender(f[1].as_bytes(), &mut i)?;
            match do_ser(&v, &f[2]) {
                Err(_) => Some("PANIC".into()),
                Ok(text) => {
                    if f[0] == "json_ser" {
                        Some(hex(text.as_bytes()))
                    } else {
                        Some(do_parse(&text).0)
                    }
                }
            }
        }
        ("num_show", 2) => {
            let x = f64::from_bits(u64::from_str_radix(&f[1], 16).ok()?);
            let s = x.to_string();
            let back = s.parse::<f64>().map(|y| format!("{:016x}", y.to_bits())).unwrap_or_else(|_| "ERR".into());
            Some(format!("{}|{}", s, back))
        }
        _ => None,
    }
}

// ---------------------------------------------------------------- case emission

fn run_parse(out: &mut Out, text: &str, tag: &str) {
    let (r, kind) = do_parse(text);
    out.count(&format!("parse[{}]={}", tag, kind));
    let nontrivial = r != "ERR" || text.chars().count() >= 2;
    out.case(&["json_parse", &hex(text.as_bytes())], &r, nontrivial);
}

fn run_ser(out: &mut Out, v: &Value, ind: &str, rt: bool) {
    let cv = canon(v);
    let tab = numtab(v);
    let f = vec!["json_ser".to_string(), cv.clone(), ind.to_string(), tab.clone()];
    let r = exec(&f).unwrap_or_else(|| "UNSUPPORTED".into());
    out.count(&format!("ser[{}]", if ind == "-" { "compact" } else { "pretty" }));
    out.case(&["json_ser", &cv, ind, &tab], &r, true);
    if rt {
        let f = vec!["json_rt".to_string(), cv.clone(), ind.to_string(), tab.clone()];
        let r = exec(&f).unwrap_or_else(|| "UNSUPPORTED".into());
        out.count(if r == cv { "roundtrip=equal" } else { "roundtrip=DIFFERENT" });
        out.case(&["json_rt", &cv, ind, &tab], &r, true);
    }
}

fn run_num(out: &mut Out, bits: u64) {
    let b = format!("{:016x}", bits);
    let r = exec(&["num_show".to_string(), b.clone()]).unwrap();
    let x = f64::from_bits(bits);
    out.count(if x == 0.0 {
        "num=zero"
    } else if x.abs() < f64::MIN_POSITIVE {
        "num=subnormal"
    } else if x.abs() >= 9007199254740992.0 && x.fract() == 0.0 {
        "num=integer>=2^53"
    } else {
        "num=normal"
    });
    out.case(&["num_show", &b], &r, true);
}

fn all_strings(alpha: &[&str], max: usize, f: &mut dyn FnMut(&str)) {
    fn go(alpha: &[&str], left: usize, cur: &mut String, f: &mut dyn FnMut(&str)) {
        f(cur);
        if left == 0 {
            return;
        }
        for a in alpha {
            let n = cur.len();
            cur.push_str(a);
            go(alpha, left - 1, cur, f);
            cur.truncate(n);
        }
    }
    go(alpha, max, &mut String::new(), f);
}

// ---------------------------------------------------------------- generators

const WS: [&str; 8] = ["", "", "", " ", "\n", "\t", "\r", " \r\n\t "];

fn gen_ws(rng: &mut Rng, o: &mut String) {
    o.push_str(*rng.pick(&WS));
}

fn rand_char(rng: &mut Rng) -> char {
    loop {
        let c = match rng.below(10) {
            0..=3 => rng.range(0x20, 0x7e) as u32,
            4 => rng.range(0x00, 0x1f) as u32,
            5 => *rng.pick(&[0x7f, 0x80, 0xa0, 0xff, 0x2028, 0x2029, 0xfeff, 0xfffd, 0xfffe, 0xffff, 0xd7ff, 0xe000, 0x10000, 0x10ffff, 0x22, 0x5c, 0x2f]),
            6 => rng.range(0x80, 0x7ff) as u32,
            7 => rng.range(0x800, 0xffff) as u32,
            8 => rng.range(0x10000, 0x10ffff) as u32,
            _ => rng.range(0, 0x10ffff) as u32,
        };
        if let Some(c) = char::from_u32(c) {
            return c;
        }
    }
}

fn hex4(rng: &mut Rng, n: u32) -> String {
    format!("{:04x}", n).chars().map(|c| if rng.chance(1, 2) { c.to_ascii_uppercase() } else { c }).collect()
}

/// One string token, every escape form of RFC 8259 section 7; `bad` allows ill-formed pieces.
fn gen_string(rng: &mut Rng, o: &mut String, bad: bool) {
    o.push('"');
    let n = match rng.below(8) {
        0 => 0,
        1..=5 => rng.range(1, 4),
        _ => rng.range(5, 20),
    };
    for _ in 0..n {
        match rng.below(if bad { 16 } else { 12 }) {
            0..=3 => {
                let c = rng.range(0x20, 0x7e) as u8 as char;
                if c != '"' && c != '\\' {
                    o.push(c)
                }
            }
            4 => {
                o.push('\\');
                o.push(*rng.pick(&['"', '\\', '/', 'b', 'f', 'n', 'r', 't']));
            }
            5 => {
                // \uXXXX for a BMP scalar (control characters and NUL included)
                let n = loop {
                    let n = if rng.chance(1, 2) { rng.range(0, 0x7f) } else { rng.range(0, 0xffff) } as u32;
                    if !(0xd800..=0xdfff).contains(&n) {
                        break n;
                    }
                };
                o.push_str("\\u");
                o.push_str(&hex4(rng, n));
            }
            6 => {
                // surrogate pair
                let hi = rng.range(0xd800, 0xdbff) as u32;
                let lo = rng.range(0xdc00, 0xdfff) as u32;
                o.push_str("\\u");
                o.push_str(&hex4(rng, hi));
                o.push_str("\\u");
                o.push_str(&hex4(rng, lo));
            }
            7..=9 => {
                let c = rand_char(rng);
                if c != '"' && c != '\\' && (c as u32) >= 0x20 {
                    o.push(c)
                }
            }
            10 => o.push(*rng.pick(&['\u{7f}', '\u{10ffff}', '\u{2028}', 'é', '😀', '/'])),
            11 => o.push(' '),
            // ill-formed pieces
            12 => {
                // unpaired or wrongly paired surrogate escapes
                let a = rng.range(0xd800, 0xdfff) as u32;
                o.push_str("\\u");
                o.push_str(&hex4(rng, a));
                if rng.chance(1, 2) {
                    o.push_str("\\u");
                    let b = if rng.chance(1, 2) { rng.range(0xd800, 0xdfff) } else { rng.range(0, 0xffff) } as u32;
                    o.push_str(&hex4(rng, b));
                }
            }
            13 => o.push(rng.range(0, 0x1f) as u8 as char),
            14 => {
                o.push_str("\\u");
                let k = rng.below(4);
                for _ in 0..k {
                    o.push(*rng.pick(&['0', '4', 'a', 'F']));
                }
                o.push(*rng.pick(&['+', '-', 'g', ' ', '"', 'x']));
            }
            _ => {
                o.push('\\');
                o.push(*rng.pick(&['a', 'v', '0', 'x', 'U', '\'', ' ', 'N']));
            }
        }
    }
    o.push('"');
}

fn gen_digits(rng: &mut Rng, o: &mut String, max: u64) {
    let n = rng.range(1, max);
    for _ in 0..n {
        o.push((b'0' + rng.below(10) as u8) as char);
    }
}

fn gen_number(rng: &mut Rng, o: &mut String, bad: bool) {
    if bad && rng.chance(1, 3) {
        o.push_str(*rng.pick(&["+1", "01", ".5", "5.", "1e", "1e+", "-", "--1", "1.e1", "NaN", "nan", "inf", "-inf", "Infinity", "infinity", "0x10", "1_0", "00", "-01", "1.5.2", "1ee5", "+0", "1e5.5", "١"]));
        return;
    }
    if rng.chance(1, 3) {
        o.push('-');
    }
    match rng.below(6) {
        0 => o.push('0'),
        1 => {
            o.push((b'1' + rng.below(9) as u8) as char);
            gen_digits(rng, o, 25);
        }
        _ => {
            o.push((b'1' + rng.below(9) as u8) as char);
            if rng.chance(1, 2) {
                gen_digits(rng, o, 4);
            }
        }
    }
    if rng.chance(1, 3) {
        o.push('.');
        let m = if rng.chance(1, 8) { 30 } else { 5 };
        gen_digits(rng, o, m);
    }
    if rng.chance(1, 3) {
        o.push(*rng.pick(&['e', 'E']));
        match rng.below(3) {
            0 => o.push('+'),
            1 => o.push('-'),
            _ => (),
        }
        match rng.below(8) {
            0 => o.push_str(*rng.pick(&["308", "309", "323", "324", "325", "400", "0", "00012", "99999999999999999999"])),
            _ => gen_digits(rng, o, 3),
        }
    }
}

/// A document from the RFC 8259 grammar. `spine` = how many more nesting levels the first
/// child is forced to add; `budget` bounds the total size.
fn gen_value(rng: &mut Rng, o: &mut String, spine: usize, budget: &mut i64, bad: bool) {
    *budget -= 1;
    let kind = if spine > 0 { 4 + rng.below(2) } else if *budget <= 0 { rng.below(4) } else { rng.below(6) };
    match kind {
        0 => o.push_str(*rng.pick(&["null", "true", "false"])),
        1 | 2 => gen_number(rng, o, bad),
        3 => gen_string(rng, o, bad),
        4 => {
            o.push('[');
            gen_ws(rng, o);
            let n = if spine > 0 { rng.range(1, 2) } else { rng.below(4) };
            for i in 0..n {
                if i > 0 {
                    o.push(',');
                    gen_ws(rng, o);
                }
                gen_value(rng, o, if i == 0 { spine.saturating_sub(1) } else { 0 }, budget, bad);
                gen_ws(rng, o);
            }
            o.push(']');
        }
        _ => {
            o.push('{');
            gen_ws(rng, o);
            let n = if spine > 0 { rng.range(1, 2) } else { rng.below(4) };
            for i in 0..n {
                if i > 0 {
                    o.push(',');
                    gen_ws(rng, o);
                }
                if rng.chance(1, 6) && i > 0 {
                    o.push_str("\"dup\"");
                } else {
                    gen_string(rng, o, bad);
                }
                gen_ws(rng, o);
                o.push(':');
                gen_ws(rng, o);
                gen_value(rng, o, if i == 0 { spine.saturating_sub(1) } else { 0 }, budget, bad);
                gen_ws(rng, o);
            }
            o.push('}');
        }
    }
}

fn gen_doc(rng: &mut Rng, bad: bool) -> String {
    let mut o = String::new();
    let spine = match rng.below(40) {
        0 => *rng.pick(&[254usize, 255, 256, 257, 258, 300]),
        1 => rng.range(10, 300) as usize,
        2..=5 => rng.range(1, 8) as usize,
        _ => 0,
    };
    let mut budget = rng.range(1, 30) as i64;
    gen_ws(rng, &mut o);
    gen_value(rng, &mut o, spine, &mut budget, bad);
    gen_ws(rng, &mut o);
    o
}

const EDIT: [&str; 28] = ["{", "}", "[", "]", ",", ":", "\"", "\\", "0", "1", "-", "+", ".", "e", "E", " ", "\n", "t", "n", "u", "a", "/", "\u{1}", "\u{7f}", "é", "😀", "\u{feff}", "\u{0}"];

fn mutate(rng: &mut Rng, doc: &str) -> String {
    let cs: Vec<char> = doc.chars().collect();
    let mut o: Vec<char> = cs.clone();
    let k = rng.below(cs.len() as u64 + 1) as usize;
    match rng.below(4) {
        0 if !cs.is_empty() => {
            o.remove(k.min(cs.len() - 1));
        }
        1 if !cs.is_empty() => {
            let k = k.min(cs.len() - 1);
            o.splice(k..k + 1, rng.pick(&EDIT).chars());
        }
        2 if cs.len() >= 2 => {
            let k = k.min(cs.len() - 2);
            o.swap(k, k + 1);
        }
        _ => {
            let ins: Vec<char> = rng.pick(&EDIT).chars().collect();
            o.splice(k..k, ins);
        }
    }
    o.into_iter().collect()
}

fn rand_finite(rng: &mut Rng) -> f64 {
    loop {
        let x = match rng.below(12) {
            0 => *rng.pick(&[0.0, -0.0, 1.0, -1.0, 0.1, 0.5, 1.5, 1e21, 1e-7, 123456789.0, f64::MAX, f64::MIN, f64::MIN_POSITIVE, f64::EPSILON, 5e-324, 9007199254740992.0, 9007199254740993.0, 9007199254740994.0, 1e300, 1e-300, 4.35, 0.3]),
            1 => f64::from_bits(rng.range(1, (1u64 << 52) - 1) | (rng.below(2) << 63)), // subnormal
            2 => f64::from_bits(rng.range(1, 4096) | (rng.below(2) << 63)),             // tiny subnormal
            3 => (rng.range(1u64 << 53, u64::MAX >> 1) as f64) * if rng.chance(1, 2) { -1.0 } else { 1.0 }, // integer beyond 2^53
            4 => rng.range(0, 1u64 << 53) as f64,
            5 => (rng.range(0, 100000) as f64) / (*rng.pick(&[10.0, 100.0, 1000.0, 8.0, 3.0])),
            6 => f64::from_bits((rng.range(0, 2046) << 52) | (rng.below(2) << 63)),      // powers of two
            7 => f64::from_bits(((rng.range(0, 2046) << 52) | (rng.below(2) << 63)).wrapping_sub(1) & !(1u64 << 63)), // just below a power of two
            8 => (rng.range(0, 2000) as i64 - 1000) as f64,
            _ => f64::from_bits(rng.next()),
        };
        if x.is_finite() {
            return x;
        }
    }
}

fn rand_string(rng: &mut Rng) -> String {
    let n = match rng.below(6) {
        0 => 0,
        1..=3 => rng.range(1, 4),
        _ => rng.range(5, 24),
    };
    (0..n).map(|_| rand_char(rng)).collect()
}

fn rand_value(rng: &mut Rng, depth_left: usize, budget: &mut i64) -> Value {
    *budget -= 1;
    let kind = if depth_left == 0 || *budget <= 0 { rng.below(4) } else { rng.below(7) };
    match kind {
        0 => rng.pick(&[Value::Null, Value::Bool(true), Value::Bool(false)]).clone(),
        1 | 2 => Value::Number(rand_finite(rng)),
        3 => Value::String(rand_string(rng)),
        4 | 5 => Value::Array((0..rng.below(4)).map(|_| rand_value(rng, depth_left - 1, budget)).collect()),
        _ => Value::Object(
            (0..rng.below(4))
                .map(|i| (if i > 0 && rng.chance(1, 6) { "dup".to_string() } else { rand_string(rng) }, rand_value(rng, depth_left - 1, budget)))
                .collect(),
        ),
    }
}

fn deep_value(rng: &mut Rng, d: usize) -> Value {
    let mut v = if rng.chance(1, 2) { Value::Number(rand_finite(rng)) } else { Value::String(rand_string(rng)) };
    for _ in 0..d {
        v = if rng.chance(1, 2) {
            if rng.chance(1, 3) { Value::Array(vec![Value::Null, v]) } else { Value::Array(vec![v]) }
        } else {
            Value::Object(vec![(rand_string(rng), v)])
        };
    }
    v
}

pub fn gen(out: &mut Out, thorough: bool, seed: u64) {
    // (1) exhaustive: every string of up to 5 (thorough: 6) symbols of the 16-symbol token alphabet
    let alpha: [&str; 16] = ["{", "}", "[", "]", ",", ":", "\"", "\\", "0", "1", "-", ".", "e", "true", "null", " "];
    let l1 = if thorough { 6 } else { 5 };
    all_strings(&alpha, l1, &mut |s| run_parse(out, s, "tok"));
    out.extra.insert("exhaustive_block_1".into(), format!("all strings of <={} symbols over {:?}", l1, alpha));
    // (2) exhaustive: every number-like string up to length 7 over {+,-,.,0,1,9,e,E}
    let nalpha: [&str; 8] = ["+", "-", ".", "0", "1", "9", "e", "E"];
    let l2 = 7;
    all_strings(&nalpha, l2, &mut |s| run_parse(out, s, "num"));
    out.extra.insert("exhaustive_block_2".into(), format!("all strings of <={} characters over {:?}", l2, nalpha));
    // (3) fixed probes: the shapes DESIGN.md lists plus boundary cases
    for s in [
        "", " ", "\u{feff}1", "\u{feff}", "NaN", "nan", "inf", "-inf", "infinity", "Infinity", "+1", "01", ".5", "5.", "1e", "1e+", "-",
        "{\"a\":1 \"b\":2}", "{\"a\":\"x\"\"b\":2}", "{\"a\":[]\"b\":2}", "{\"a\":1,\"b\":2}", "{\"a\":1,}", "{,}", "{\"a\":1,,\"b\":2}",
        "\"\\u+041\"", "\"\\u-041\"", "\"\\u 041\"", "\"\\u0041\"", "\"\\u004\"", "\"\\u00\"", "\"\\u\"", "\"\\u004", "\"\\ud83d\\ude00\"",
        "\"\\ud83d\"", "\"\\ud83d\\u0041\"", "\"\\ud83dx\"", "\"\\ude00\"", "\"\\ude00\\ud83d\"", "\"\\uD83D\\uDE00\"", "\"\\ud83d\\u+e00\"",
        "\"\u{1}\"", "\"\t\"", "\"\n\"", "\"\u{1f}\"", "\"\u{7f}\"", "\"\u{0}\"", "[1,]", "[,1]", "[1 2]", "[1,,2]", "[", "]", "{", "}", "[]]", "{}}",
        "1 2", "true false", "tru", "truee", "nul", "True", "\"a\" \"b\"", "\u{b}1", "\u{c}1", "\u{a0}1", "1\u{a0}", "1\u{2028}", "[1\u{b}]",
        "1e400", "-1e400", "1e-400", "0e999999999999999999999", "1e999999999999999999999", "1e-999999999999999999999", "-0", "-0.0", "0.0",
        "2.4703282292062327e-324", "2.4703282292062328e-324", "9007199254740993", "1.7976931348623157e308", "1.7976931348623159e308",
        "123456789012345678901234567890", "0.1", "0.30000000000000004", "1E5", "1e+5", "1e-5", "{\"\":\"\"}", "{\"a\":{\"a\":{\"a\":null}}}",
    ] {
        run_parse(out, s, "probe");
    }
    for d in [255usize, 256, 257, 300, 400] {
        run_parse(out, &format!("{}{}", "[".repeat(d), "]".repeat(d)), "probe");
        run_parse(out, &format!("{}1{}", "{\"k\":".repeat(d), "}".repeat(d)), "probe");
        run_parse(out, &format!("{}{}", "[".repeat(d), "]".repeat(d - 1)), "probe");
    }
    // wide and shallow: many sibling containers (empty and not) must not count towards the nesting depth
    for n in [200usize, 255, 256, 257, 300, 1000, 3000] {
        let empties_a: Vec<&str> = std::iter::repeat("[]").take(n).collect();
        run_parse(out, &format!("[{}]", empties_a.join(",")), "probe-wide");
        let empties_o: Vec<String> = (0..n).map(|i| format!("\"k{}\":{{}}", i)).collect();
        run_parse(out, &format!("{{{}}}", empties_o.join(",")), "probe-wide");
        let mixed: Vec<String> = (0..n).map(|i| match i % 4 { 0 => "[]".to_string(), 1 => "{}".to_string(), 2 => "[ ]".to_string(), _ => "[1]".to_string() }).collect();
        run_parse(out, &format!("[{}]", mixed.join(" , ")), "probe-wide");
        // many empties followed by something deep
        run_parse(out, &format!("[{},{}1{}]", empties_a[..n.min(150)].join(","), "[".repeat(150), "]".repeat(150)), "probe-wide");
    }
    // (4) grammar-generated documents and single-edit mutants
    let mut rng = Rng::new(seed);
    let ndocs = if thorough { 400_000 } else { 20_000 };
    for i in 0..ndocs {
        let doc = gen_doc(&mut rng, i % 5 == 4);
        run_parse(out, &doc, if i % 5 == 4 { "doc-bad" } else { "doc" });
        if doc.len() < 4000 || i % 50 == 0 {
            run_parse(out, &mutate(&mut rng, &doc), "mutant");
        }
        if i % 2 == 0 && doc.len() < 4000 {
            run_parse(out, &mutate(&mut rng, &doc), "mutant");
        }
    }
    // (5) serialiser and round trip on generated values
    let nvals = if thorough { 200_000 } else { 12_000 };
    for i in 0..nvals {
        let mut budget = rng.range(1, 25) as i64;
        let dl = rng.range(0, 5) as usize;
        let v = rand_value(&mut rng, dl, &mut budget);
        run_ser(out, &v, "-", true);
        let ind = rng.range(0, 8).to_string();
        run_ser(out, &v, &ind, true);
        if i % 16 == 0 {
            for ind in 0..=8 {
                run_ser(out, &v, &ind.to_string(), false);
            }
        }
    }
    for d in [10usize, 100, 200, 255, 256, 257, 300, 400] {
        let v = deep_value(&mut rng, d);
        debug_assert_eq!(depth(&v), d);
        run_ser(out, &v, "-", d <= 256);
        run_ser(out, &v, if d <= 100 { "2" } else { "1" }, d <= 256);
        run_ser(out, &v, "0", d <= 256);
    }
    // (6) the three codec laws against f64 Display / from_str
    let nnums = if thorough { 500_000 } else { 30_000 };
    for b in [0u64, 1 << 63, 1, 2, (1 << 52) - 1, 1 << 52, 0x7fefffffffffffff, 0xffefffffffffffff, 0x4340000000000000, 0x4340000000000001, 0x433fffffffffffff] {
        run_num(out, b);
    }
    for _ in 0..nnums {
        run_num(out, rand_finite(&mut rng).to_bits());
    }
}
