//! C18: both halves (percent-encoding + Base64 in c18a.rs, HTTP dates + SHA-1 in c18b.rs).
use crate::common::Out;

pub fn exec(f: &[String]) -> Option<String> {
    crate::c18a::exec(f).or_else(|| crate::c18b::exec(f))
}

pub fn gen(out: &mut Out, thorough: bool, seed: u64) {
    crate::c18a::gen(out, thorough, seed);
    crate::c18b::gen(out, thorough, seed);
}
