//! C03: no input can crash, wedge or exhaust a parser. Every case runs in a worker process (address space
//! limited, watchdog, allocation counted), so that an abort or a hang is an observation, not the end of the run.
use crate::alloc;
use crate::common::*;
use crate::httpgen::*;
use crate::worker;
use humphrey::http::{Request, Response};
use std::net::SocketAddr;
use std::time::Duration;

/// Allowed peak allocation for an input of `n` bytes: a constant plus a constant multiple of what was supplied.
fn mem_verdict(peak: usize, supplied: usize) -> String {
    let bound = 512 * 1024 + 32 * supplied;
    if peak <= bound { "mem=ok".into() } else { format!("mem=EXCESS:{}", peak) }
}

/// `<fn> <hex input> <cuts>` → `<ok|err|PANIC> mem=…` (ABORT / TIMEOUT are supplied by the parent).
pub fn exec(f: &[String]) -> Option<String> {
    if f[0] == "sess" {
        // WebSocket MESSAGE decoder (fragment loop, ping/close handling): C11's session runner and judge
        return crate::c11::exec(f);
    }
    if f.len() != 3 {
        return None;
    }
    let bytes = unhex(&f[1]);
    let n = bytes.len();
    let chunks = apply_cuts(&bytes, &f[2]);
    let peer: SocketAddr = "127.0.0.1:9".parse().unwrap();
    let base = alloc::begin();
    let class: String = match f[0].as_str() {
        "p_req" => match guarded(move || { let mut r = Chunked::new(chunks); Request::from_stream(&mut r, peer).map(|_| ()).map_err(|e| format!("{:?}", e)) }) {
            Ok(Ok(())) => "ok".into(), Ok(Err(k)) => format!("err:{}", k), Err(_) => "PANIC".into(),
        },
        "p_resp" => match guarded(move || { let mut r = Chunked::new(chunks); Response::from_stream(&mut r).map(|_| ()).map_err(|e| format!("{:?}", e)) }) {
            Ok(Ok(())) => "ok".into(), Ok(Err(k)) => format!("err:{}", k), Err(_) => "PANIC".into(),
        },
        "p_ws" => match guarded(move || { let r = Chunked::new(chunks); humphrey_ws::verif::frame_from_stream(r).is_ok() }) {
            Ok(true) => "ok".into(), Ok(false) => "err".into(), Err(_) => "PANIC".into(),
        },
        "p_json" => match String::from_utf8(bytes) {
            Err(_) => "notutf8".into(),
            Ok(s) => match guarded(move || humphrey_json::Value::parse(&s).is_ok()) {
                Ok(true) => "ok".into(), Ok(false) => "err".into(), Err(_) => "PANIC".into(),
            },
        },
        "p_conf" => match String::from_utf8(bytes) {
            Err(_) => "notutf8".into(),
            // the third field is `w`, or `n<hex>` = the name the configuration is parsed under (it appears in error messages
            // and is what relative includes are resolved against)
            Ok(s) => match guarded({ let name = match f[2].strip_prefix('n') { Some(h) => String::from_utf8_lossy(&unhex(h)).into_owned(), None => "c03.conf".to_string() };
                                     move || humphrey_server::config::tree::parse_conf(&s, &name).is_ok() }) {
                Ok(true) => "ok".into(), Ok(false) => "err".into(), Err(_) => "PANIC".into(),
            },
        },
        _ => return None,
    };
    let peak = alloc::peak_since(base);
    Some(format!("{} {}", class, mem_verdict(peak, n)))
}

fn all_token_strings(tokens: &[&[u8]], max: usize) -> Vec<Vec<u8>> {
    let mut res: Vec<Vec<u8>> = vec![vec![]];
    let mut layer: Vec<Vec<u8>> = vec![vec![]];
    for _ in 0..max {
        let mut next = Vec::new();
        for s in &layer {
            for t in tokens {
                let mut x = s.clone();
                x.extend_from_slice(t);
                next.push(x);
            }
        }
        res.extend(next.iter().cloned());
        layer = next;
    }
    res
}

const HUGE: &[&str] = &[
    "0", "1", "2147483648", "4294967295", "4294967296", "9223372036854775807", "9223372036854775808",
    "18446744073709551615", "18446744073709551616", "100000000000000", "99999999999999999999999", "-1", "+5", "5 ", " 5", "0x10", "1e3", "",
];

fn mutants(rng: &mut Rng, seed: &[u8], out: &mut Vec<Vec<u8>>) {
    // every prefix (truncation at each offset)
    for k in 0..seed.len() {
        out.push(seed[..k].to_vec());
    }
    // CR / LF / colon / space removed or doubled, one position at a time
    for (i, b) in seed.iter().enumerate() {
        if matches!(*b, b'\r' | b'\n' | b':' | b' ') {
            let mut x = seed.to_vec();
            x.remove(i);
            out.push(x);
            let mut y = seed.to_vec();
            y.insert(i, *b);
            out.push(y);
        }
    }
    // multi-byte UTF-8 and invalid UTF-8 at every position
    for i in 0..=seed.len() {
        for ins in [&b"\xc3\xa9"[..], &b"\xe2\x82\xac"[..], &b"\xf0\x9f\x98\x80"[..], &b"\xff"[..], &b"\xc3"[..], &b"\x00"[..]] {
            if seed.len() > 120 && rng.below(4) != 0 {
                continue;
            }
            let mut x = seed.to_vec();
            for (k, c) in ins.iter().enumerate() {
                x.insert(i + k, *c);
            }
            out.push(x);
        }
    }
    // random byte flips
    for _ in 0..20 {
        let mut x = seed.to_vec();
        if x.is_empty() { break; }
        let i = rng.below(x.len() as u64) as usize;
        x[i] = rng.below(256) as u8;
        out.push(x);
    }
}

fn length_mutants(template: &str, out: &mut Vec<Vec<u8>>) {
    for h in HUGE {
        out.push(template.replace("{N}", h).into_bytes());
    }
}

pub fn gen(out: &mut Out, thorough: bool, seed: u64) {
    let mut rng = Rng::new(seed ^ 0xC03);
    let mut cases: Vec<Vec<String>> = Vec::new();
    let mut add = |cases: &mut Vec<Vec<String>>, fun: &str, bytes: &[u8], bytewise: bool| {
        cases.push(vec![fun.to_string(), hex(bytes), "w".into()]);
        if bytewise && bytes.len() <= 600 {
            cases.push(vec![fun.to_string(), hex(bytes), "1".into()]);
        }
    };
    let depth = if thorough { 5 } else { 4 };
    // ---- request parser
    let req_tokens: &[&[u8]] = &[b"GET", b" ", b"/", b"HTTP/1.1", b"\r", b"\n", b":", b"a", b"Content-Length", b"5", b"\xe2\x82\xac", b"\xff"];
    for s in all_token_strings(req_tokens, depth) { add(&mut cases, "p_req", &s, true); }
    let req_seeds: &[&[u8]] = &[
        b"GET / HTTP/1.1\r\nHost: a\r\n\r\n",
        b"POST /p?q=1 HTTP/1.1\r\nHost: a\r\nContent-Length: 5\r\nX-Forwarded-For: 1.2.3.4, ::1\r\nCookie: a=b; c=d\r\n\r\nhello",
        b"PUT /\xc3\xa9 HTTP/1.0\r\nX: \xe2\x82\xac\r\n\r\n",
    ];
    let mut ms = Vec::new();
    for s in req_seeds { mutants(&mut rng, s, &mut ms); }
    length_mutants("POST / HTTP/1.1\r\nContent-Length: {N}\r\n\r\nabc", &mut ms);
    length_mutants("POST / HTTP/1.1\r\nContent-Length:{N}\r\nContent-Length: 3\r\n\r\nabc", &mut ms);
    for line_end in ["\n", "\r", "", "\r\r\n", "\n\r"] {
        ms.push(format!("GET / HTTP/1.1\r\nA: \u{20ac}{}B: c\r\n\r\n", line_end).into_bytes());
        ms.push(format!("GET / HTTP/1.1\r\n\u{20ac}{}", line_end).into_bytes());
        ms.push(format!("GET / HTTP/1.1\r\nA:\u{e9}{}", line_end).into_bytes());
        ms.push(format!("GET / HTTP/1.1{}", line_end).into_bytes());
    }
    for m in &ms { add(&mut cases, "p_req", m, true); }
    // the VALUES of the fields the parser interprets itself (addresses, lengths, cookies …): every string of up to 3 tokens
    // over the separators and brackets such values are made of, a multi-byte character and a few atoms
    {
        const VT: &[&str] = &["[", "]", ":", ",", " ", "1", ".", "\u{e9}", "::1", "=", ";", "4711", "\t", "-", "+"];
        let mut vals: Vec<String> = vec![String::new()];
        let mut layer: Vec<String> = vec![String::new()];
        for _ in 0..(if thorough { 4 } else { 3 }) {
            let mut next = Vec::new();
            for p in &layer { for t in VT { next.push(format!("{}{}", p, t)); } }
            vals.extend(next.iter().cloned());
            layer = next;
        }
        for name in ["X-Forwarded-For", "Cookie", "Content-Length", "Host", "Connection", "Forwarded", "Upgrade"] {
            for v in &vals {
                // trailing blanks are trimmed by nobody: keep them, the parser must survive them
                let req = format!("GET / HTTP/1.1\r\n{}: {}\r\n\r\n", name, v);
                add(&mut cases, "p_req", req.as_bytes(), false);
            }
        }
    }
    // ---- response parser
    let resp_tokens: &[&[u8]] = &[b"HTTP/1.1", b" ", b"200", b"OK", b"\r", b"\n", b":", b"a", b"Transfer-Encoding: chunked\r\n", b"Content-Length", b"5", b"\xe2\x82\xac"];
    for s in all_token_strings(resp_tokens, depth) { add(&mut cases, "p_resp", &s, true); }
    let resp_seeds: &[&[u8]] = &[
        b"HTTP/1.1 200 OK\r\nContent-Length: 5\r\nServer: x\r\n\r\nhello",
        b"HTTP/1.1 200 OK\r\nTransfer-Encoding: chunked\r\n\r\n5\r\nhello\r\nA\r\n0123456789\r\n0\r\n\r\n",
        b"HTTP/1.0 404 Not Found\r\nX: \xe2\x82\xac\r\n\r\n",
    ];
    let mut ms = Vec::new();
    for s in resp_seeds { mutants(&mut rng, s, &mut ms); }
    length_mutants("HTTP/1.1 200 OK\r\nContent-Length: {N}\r\n\r\nabc", &mut ms);
    length_mutants("HTTP/1.1 200 OK\r\nTransfer-Encoding: chunked\r\n\r\n{N}\r\nabc\r\n0\r\n\r\n", &mut ms);
    length_mutants("HTTP/1.1 {N} OK\r\n\r\n", &mut ms);
    // a claimed length in EVERY place where one can stand, also next to another framing or a second length field: whichever of
    // them the parser goes by, none may size a buffer
    length_mutants("HTTP/1.1 200 OK\r\nTransfer-Encoding: chunked\r\nContent-Length: {N}\r\n\r\n3\r\nabc\r\n0\r\n\r\n", &mut ms);
    length_mutants("HTTP/1.1 200 OK\r\nContent-Length: {N}\r\nTransfer-Encoding: chunked\r\n\r\n3\r\nabc\r\n0\r\n\r\n", &mut ms);
    length_mutants("HTTP/1.1 200 OK\r\nContent-Length: {N}\r\nContent-Length: 3\r\n\r\nabc", &mut ms);
    length_mutants("HTTP/1.1 200 OK\r\nContent-Length: 3\r\nContent-Length: {N}\r\n\r\nabc", &mut ms);
    length_mutants("HTTP/1.1 200 OK\r\nTransfer-Encoding: chunked\r\n\r\n3\r\nabc\r\n{N}\r\nabc\r\n0\r\n\r\n", &mut ms);
    length_mutants("HTTP/1.1 200 OK\r\nTransfer-Encoding: chunked\r\nAge: {N}\r\nRetry-After: {N}\r\nKeep-Alive: timeout={N}, max={N}\r\n\r\n0\r\n\r\n", &mut ms);
    for h in ["ffffffffffffffff", "7fffffffffffffff", "10000000000000000", "5d21dba00000", "80000000", "+3", "3;x=y", "3 ", "-3", "g"] {
        ms.push(format!("HTTP/1.1 200 OK\r\nTransfer-Encoding: chunked\r\n\r\n{}\r\nabc\r\n0\r\n\r\n", h).into_bytes());
    }
    for line_end in ["\n", "\r", "", "\r\r\n"] {
        ms.push(format!("HTTP/1.1 200 OK\r\nA: \u{20ac}{}B: c\r\n\r\n", line_end).into_bytes());
        ms.push(format!("HTTP/1.1 200 OK\r\n\u{20ac}{}", line_end).into_bytes());
        ms.push(format!("HTTP/1.1 200 OK\r\nNoColon{}\r\n", line_end).into_bytes());
    }
    for m in &ms { add(&mut cases, "p_resp", m, true); }
    // ---- WebSocket frame decoder
    let ws_bytes: Vec<Vec<u8>> = [0x00u8, 0x01, 0x7d, 0x7e, 0x7f, 0x80, 0x81, 0x88, 0x89, 0xfe, 0xff, 0x8a].iter().map(|b| vec![*b]).collect();
    let ws_tokens: Vec<&[u8]> = ws_bytes.iter().map(|v| &v[..]).collect();
    for s in all_token_strings(&ws_tokens, depth) { add(&mut cases, "p_ws", &s, true); }
    for len8 in [0u64, 1, 125, 126, 65535, 65536, 1 << 31, 1 << 32, (1 << 40) + 7, (1u64 << 63) - 1, 1u64 << 63, u64::MAX] {
        for mask in [0x00u8, 0x80] {
            let mut f = vec![0x82u8, mask | 127];
            f.extend_from_slice(&len8.to_be_bytes());
            if mask != 0 { f.extend_from_slice(&[1, 2, 3, 4]); }
            f.extend_from_slice(b"payload-bytes");
            add(&mut cases, "p_ws", &f, true);
        }
    }
    for len2 in [0u16, 1, 125, 126, 4000, 65535] {
        let mut f = vec![0x81u8, 126];
        f.extend_from_slice(&len2.to_be_bytes());
        f.extend_from_slice(&vec![b'x'; 300]);
        add(&mut cases, "p_ws", &f, true);
    }
    // ---- WebSocket message decoder: control frames of every small length, fragments, at every truncation
    {
        let key = "a1b2c3d4";
        let mut scripts: Vec<String> = Vec::new();
        for op in [8u8, 9, 10, 1, 2, 0] {
            for len in [0usize, 1, 2, 3, 125, 126] {
                for mask in [0u8, 1] {
                    let payload = hex(&vec![0x41u8; len]);
                    scripts.push(format!("1.000.{}.{}.{}.{}", op, mask, key, payload));
                    // unfinished fragment followed by the control frame
                    scripts.push(format!("0.000.1.1.{}.6162,1.000.{}.{}.{}.{}", key, op, mask, key, payload));
                }
            }
        }
        for sc in &scripts {
            let total: usize = 100_000; // `keep`: everything the script encodes arrives, then the peer is gone
            for delivery in ["-", "1", "1,1,1"] {
                cases.push(vec!["sess".into(), sc.clone(), total.to_string(), delivery.into(), "r,r,n".into()]);
            }
        }
        // every truncation point of one masked close-with-reason and one fragmented message
        for keep in 0..24usize {
            cases.push(vec!["sess".into(), format!("1.000.8.1.{}.03e8676f6f64627965", key), keep.to_string(), "-".into(), "r,r".into()]);
            cases.push(vec!["sess".into(), format!("0.000.2.1.{}.0102,1.000.9.0.{}.,1.000.0.1.{}.03", key, key, key), keep.to_string(), "-".into(), "r,r".into()]);
        }
    }
    // ---- JSON parser
    let json_seeds: &[&str] = &[
        r#"{"a":[1,2,{"b":null}],"c":"xé😀","d":-1.5e10,"e":true}"#,
        r#"[[[[[[[[[[1]]]]]]]]]]"#,
        r#""\ud800""#, r#""\u12"#, r#"{"a""#, r#"[1,]"#, "1e999", "-", "\u{feff}1",
    ];
    let mut ms = Vec::new();
    for s in json_seeds { mutants(&mut rng, s.as_bytes(), &mut ms); }
    // every pair and triple of \u escapes over the classes {BMP, high surrogate, low surrogate, boundary values}, in strings and keys
    {
        const U: &[&str] = &["0041", "d7ff", "d800", "dbff", "dc00", "dfff", "e000", "ffff", "DC00", "D83D", "de00"];
        for a in U {
            for b in U {
                ms.push(format!("\"\\u{}\\u{}\"", a, b).into_bytes());
                ms.push(format!("{{\"\\u{}\\u{}\":1}}", a, b).into_bytes());
                ms.push(format!("\"\\u{}x\\u{}\"", a, b).into_bytes());
                for c in ["d800", "dc00", "0041"] {
                    ms.push(format!("\"\\u{}\\u{}\\u{}\"", a, b, c).into_bytes());
                }
            }
            ms.push(format!("\"\\u{}\"", a).into_bytes());
            ms.push(format!("\"\\u{}", a).into_bytes());
            ms.push(format!("\"\\u{}\\u", a).into_bytes());
            ms.push(format!("\"\\u{}\\", a).into_bytes());
        }
    }
    for d in [10usize, 255, 256, 257, 1000, 100_000, 1_000_000] {
        ms.push("[".repeat(d).into_bytes());
        ms.push(format!("{}1{}", "[".repeat(d), "]".repeat(d)).into_bytes());
        ms.push("{\"a\":".repeat(d).into_bytes());
        ms.push(format!("{}null{}", "{\"a\":".repeat(d), "}".repeat(d)).into_bytes());
    }
    ms.push(format!("\"{}\"", "a".repeat(200_000)).into_bytes());
    ms.push(format!("{}", "9".repeat(100_000)).into_bytes());
    for m in &ms { add(&mut cases, "p_json", m, false); }
    // ---- configuration parser
    let conf_seeds: &[&str] = &[
        "server {\n  address \"0.0.0.0\"\n  port 80\n  threads 4\n  cache {\n    size 128M\n    time 60\n  }\n  route /* {\n    directory \"/var/www\"\n  }\n}\n",
        "server {\n  host \"a.com\" {\n    route /a, /b {\n      file \"x\"\n    }\n  }\n  # comment\n}\n",
    ];
    let mut ms = Vec::new();
    for s in conf_seeds { mutants(&mut rng, s.as_bytes(), &mut ms); }
    for d in [10usize, 127, 128, 129, 1000, 100_000] {
        ms.push(format!("server {{\n{}", "a {\n".repeat(d)).into_bytes());
        ms.push(format!("server {{\n{}{}}}\n", "a {\n".repeat(d), "}\n".repeat(d)).into_bytes());
        ms.push(format!("server {{\n{}", "host \"h\" {\n".repeat(d)).into_bytes());
        ms.push(format!("server {{\n{}", "route /x {\n".repeat(d)).into_bytes());
    }
    for v in ["9223372036854775807K", "12\u{e9}", "\"", "\"\"", "1G2", "-0", "K", "99999999999999999999", "host \" {", "é {", "route  {", "include \"\"", "include \"/nonexistent/zzz\""] {
        ms.push(format!("server {{\n  k {}\n}}\n", v).into_bytes());
        ms.push(format!("server {{\n  {}\n}}\n", v).into_bytes());
    }
    // every value of up to 3 (thorough: 4) symbols over an alphabet of digits, unit and other letters in both cases, multi-byte
    // characters, sign, quote and structure characters: whatever suffix or prefix handling the value parser has, it is walked
    // with a multi-byte character at every position
    {
        // (U+212A KELVIN SIGN, U+00B5 MICRO SIGN, U+017F LONG S, U+0130: characters whose Unicode case mapping lands on or near
        // an ASCII unit letter)
        const VA: &[&str] = &["1", "0", "K", "M", "G", "k", "B", "b", "T", "e", "\u{e9}", "\u{20ac}", "\u{1f600}", "-", ".", "\"", "#", "{", "}", " ",
                              "\u{212a}", "\u{b5}", "\u{17f}", "\u{130}"];
        let depth = if thorough { 4 } else { 3 };
        let mut layer: Vec<String> = vec![String::new()];
        for _ in 0..depth {
            let mut next = Vec::new();
            for p in &layer {
                for a in VA {
                    let v = format!("{}{}", p, a);
                    ms.push(format!("server {{\n  cache {{\n    size {}\n  }}\n}}\n", v).into_bytes());
                    next.push(v);
                }
            }
            layer = next;
        }
    }
    for m in &ms { add(&mut cases, "p_conf", m, false); }
    // the NAME the text is parsed under is an input too (empty, a root, a bare name, nested, non-ASCII, with dot segments),
    // with and without include directives that have to be resolved somehow
    for name in ["", "/", "x.conf", "dir/x.conf", "/abs/dir/x.conf", "\u{e9}.conf", "a/../b.conf", ".", "..", "dir/"] {
        for text in ["server {\n}\n", "server {\n  include \"inc.conf\"\n}\n", "server {\n  include \"\"\n}\n",
                     "server {\n  include \"/nonexistent/zzz\"\n}\n", "server {\n  include \"../up.conf\"\n  port 80\n}\n", "include \"x\"", "server {\n  port\n}\n"] {
            cases.push(vec!["p_conf".to_string(), hex(text.as_bytes()), format!("n{}", hex(name.as_bytes()))]);
        }
    }
    // ---- random bytes, every parser
    let nrand = if thorough { 200_000 } else { 6_000 };
    for _ in 0..nrand {
        let n = rng.below(48) as usize;
        let mut b = rng.bytes(n);
        // bias towards protocol bytes
        for x in b.iter_mut() {
            if rng.chance(1, 3) { *x = *rng.pick(b"\r\n: {}[]\",0159GETHP/.\x7e\x7f\x80\x81"); }
        }
        for f in ["p_req", "p_resp", "p_ws", "p_json", "p_conf"] {
            cases.push(vec![f.to_string(), hex(&b), "w".into()]);
        }
    }
    // run in worker processes, in parallel slices
    let nthreads = 12usize;
    let chunk = (cases.len() + nthreads - 1) / nthreads;
    let mut handles = Vec::new();
    for part in cases.chunks(chunk.max(1)) {
        let part: Vec<Vec<String>> = part.to_vec();
        handles.push(std::thread::spawn(move || worker::run_cases("C03", &part, Duration::from_secs(4))));
    }
    let mut results: Vec<String> = Vec::new();
    for h in handles { results.extend(h.join().unwrap()); }
    // ---- WebSocket message decoder, sizes and counts well above small: floods of 1 000 … 200 000 (thorough: 1 000 000)
    // control frames before / inside / after a message, messages of up to 10 000 (20 000) fragments, up to 10 000 (20 000)
    // messages on one connection, payloads up to 1 MiB (4 MiB). C11's family (`c11::scale_cases`), each session in a worker
    // process on a thread with the default 2 MiB stack, 30 s watchdog: a stack overflow is an ABORT here.
    {
        let scale = crate::c11::scale_cases(thorough, seed);
        let rs = crate::c11::run_scale(&scale);
        for ((tag, f), r) in scale.into_iter().zip(rs.into_iter()) {
            for t in tag.split('|') {
                out.count(&format!("sess:scale:{}", t));
            }
            cases.push(f);
            results.push(r);
        }
    }
    for (c, r) in cases.iter().zip(results.iter()) {
        out.count(&format!("{}:{}", c[0], if c[0] == "sess" { if r.contains("PANIC") { "PANIC" } else if r == "ABORT" || r == "TIMEOUT" { r.as_str() } else { "ran" } } else { r.split(' ').next().unwrap_or("?") }));
        if r.contains("EXCESS") { out.count(&format!("{}:mem-excess", c[0])); }
        let fr: Vec<&str> = c.iter().map(|s| s.as_str()).collect();
        out.case(&fr, r, true);
    }
}

/// Replay runs the stored cases through a worker as well (they may abort).
pub fn exec_isolated(f: &[String]) -> Option<String> {
    worker::run_cases("C03", &[f.to_vec()], Duration::from_secs(4)).pop()
}
