//! Shared pieces for the HTTP properties: scripted readers, cut specifications, IP oracle, canonical forms.
use crate::common::*;
use std::collections::VecDeque;
use std::io::Read;

/// A reader whose successive `read` calls return the scripted chunks; end of script = EOF.
pub struct Chunked {
    pub chunks: VecDeque<Vec<u8>>,
    pub reads: usize,
    phase: Option<usize>,
}

impl Chunked {
    pub fn new(chunks: Vec<Vec<u8>>) -> Self {
        Chunked { chunks: chunks.into_iter().filter(|c| !c.is_empty()).collect(), reads: 0, phase: None }
    }
    pub fn remaining(&self) -> usize {
        self.chunks.iter().map(|c| c.len()).sum()
    }
}

impl Read for Chunked {
    fn read(&mut self, buf: &mut [u8]) -> std::io::Result<usize> {
        self.reads += 1;
        if buf.is_empty() {
            return Ok(0);
        }
        // every third call is interrupted by a signal (EINTR): no data is lost, the caller has to retry — which
        // `read_until`, `read_exact` and `read_to_end` do, and which any hand-written read loop must do as well
        // (the phase of the schedule follows from the data, so that the very first read of a stream is interrupted for a third
        // of the inputs, the second for another third)
        let phase = self.phase.get_or_insert_with(|| self.chunks.iter().map(|c| c.len()).sum::<usize>() % 3);
        if (self.reads + *phase) % 3 == 2 && !self.chunks.is_empty() {
            return Err(std::io::Error::new(std::io::ErrorKind::Interrupted, "interrupted"));
        }
        match self.chunks.pop_front() {
            None => Ok(0),
            Some(mut c) => {
                if c.len() > buf.len() {
                    let rest = c.split_off(buf.len());
                    self.chunks.push_front(rest);
                }
                buf[..c.len()].copy_from_slice(&c);
                Ok(c.len())
            }
        }
    }
}

/// Cut specification: `w` whole, `1` one byte per read, `k<n>` every n bytes, `c<i>.<j>...` cuts at the offsets.
pub fn apply_cuts(bytes: &[u8], spec: &str) -> Vec<Vec<u8>> {
    let mut cuts: Vec<usize> = Vec::new();
    if spec == "w" {
    } else if spec == "1" {
        cuts = (1..bytes.len()).collect();
    } else if let Some(n) = spec.strip_prefix('k') {
        let n: usize = n.parse().unwrap_or(1).max(1);
        cuts = (1..bytes.len()).filter(|i| i % n == 0).collect();
    } else if let Some(list) = spec.strip_prefix('c') {
        cuts = list.split('.').filter_map(|x| x.parse().ok()).filter(|i| *i > 0 && *i < bytes.len()).collect();
        cuts.sort();
        cuts.dedup();
    }
    let mut res = Vec::new();
    let mut prev = 0;
    for c in cuts {
        res.push(bytes[prev..c].to_vec());
        prev = c;
    }
    res.push(bytes[prev..].to_vec());
    res
}

pub fn random_cuts(rng: &mut Rng, len: usize) -> String {
    if len < 2 {
        return "w".into();
    }
    let n = rng.range(1, 6.min(len as u64 - 1));
    let mut v: Vec<usize> = (0..n).map(|_| rng.range(1, len as u64 - 1) as usize).collect();
    v.sort();
    v.dedup();
    format!("c{}", v.iter().map(|x| x.to_string()).collect::<Vec<_>>().join("."))
}

/// Oracle for `IpAddr::from_str` (std, trusted): every comma-separated piece of every header-line value in
/// `bytes`, trimmed, mapped to the canonical text of the address it parses to (`-` when it does not parse).
pub fn ip_oracle(bytes: &[u8]) -> String {
    use std::net::IpAddr;
    use std::str::FromStr;
    let mut out: Vec<String> = Vec::new();
    let mut seen = std::collections::HashSet::new();
    for line in bytes.split(|b| *b == b'\n') {
        let lower: Vec<u8> = line.iter().map(|b| b.to_ascii_lowercase()).collect();
        if !lower.starts_with(b"x-forwarded-for") {
            continue;
        }
        if let Some(pos) = line.iter().position(|b| *b == b':') {
            if let Ok(v) = std::str::from_utf8(&line[pos + 1..]) {
                for piece in v.split(',') {
                    let t = piece.trim();
                    if seen.insert(t.to_string()) {
                        let canon = match IpAddr::from_str(t) {
                            Ok(ip) => hex(ip.to_string().as_bytes()),
                            Err(_) => "-".into(),
                        };
                        out.push(format!("{}:{}", hex(t.as_bytes()), canon));
                    }
                }
            }
        }
    }
    if out.is_empty() { "-".into() } else { out.join(";") }
}
