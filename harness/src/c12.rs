//! C12: the REAL `humphrey_ws::AsyncWebsocketApp::run` on a helper thread, fed with scripted clients
//! (`WebsocketStream::new(Stream::Mock(..))` sent through `connect_hook()`; the socket is the C11 scripted
//! socket with a per-client peer address) or, in the `real` cases, with loopback TCP clients; handlers log
//! into a shared Vec and reply / broadcast through `AsyncStream`; an `AsyncSender` is used from the harness
//! thread; the run ends with the shutdown signal. The H4 tracer (`humphrey_ws::verif::app_event`) records
//! what the loop saw and did. Every scenario runs in a child process (`hv __c12child`) under a watchdog.
//!
//! Case line: `app <TAB> scenario <TAB> out`, `out = summary|h4log|execlog|frames|consumed|closed|heartbeat|issued`.
//!
//! scenario = `t=<handler threads>;p=<poll µs or none>;h=<interval ms>.<timeout ms> or -;ca=<0..3>;da=<0..1>;`
//!            `ap=<0|1>;q=<0|1>;hs=<handlers>[;sx=1];cl=<client>/<client>/…;tl=<step>,<step>,…`
//!   sx=1: the handlers hold an `AsyncSender` of the app as well (absent = they do not: the actions below that go
//!             through it do nothing)
//!   handlers = the handlers registered on the app: a subset of the letters `c` (connect), `m` (message),
//!             `d` (disconnect), `-` for none. A scenario without `hs=` (older case lines) registers all three.
//!             An unregistered handler is simply not given to the builder; `ca` / `da` and the message
//!             handler's behaviour then have no effect.
//!   client  = items joined by `,` (`-` = none; the end of the list is the end of the connection = EOF):
//!             `T<hex>` / `B<hex>` text / binary message in one frame, `f<k>T<hex>` in k fragments,
//!             `g<k>T<hex>` in k fragments with a Ping and a pause after the first, `o<k>T<hex>` in k fragments
//!             with an (unsolicited) Pong after the first, `n` a moment at which
//!             nothing has arrived, `P<hex>` Ping, `O` Pong, `C<hex>` Close, `G` a frame with a reserved opcode,
//!             `R` a frame cut short by the end of the connection; `<n>x<item>+<item>+…` those items n times over
//!             (run-length form for long streams: `4096xT61+n`)
//!   step    = `<µs to sleep first>:<action>`, action = `c<i>` client i's stream is handed to the app,
//!             `u<id>:T<hex>` / `u<id>:B<hex>` AsyncSender::send to client id (900 = nobody's address),
//!             `bT<hex>` / `bB<hex>` AsyncSender::broadcast
//!   ca: what the connect handler does, a sum of 1 greets (`AsyncStream::send`), 2 `AsyncStream::broadcast`,
//!       4 broadcast through the AsyncSender, 8 unicast through the AsyncSender to the next client (id+1 modulo the
//!       number of clients; connected, not yet, no longer or never);
//!   da: what the disconnect handler does, a sum of 1 `AsyncStream::broadcast` on the (disconnected) stream it is
//!       given, 2 `AsyncStream::send` on it (to the client that has gone; the call panics: `assert!(self.connected)`),
//!       4 broadcast through the AsyncSender, 8 unicast through it to the next client, 16 unicast through it to
//!       the client that has gone;
//!   ap: where live scripted clients put their answers to the server's Pings - one digit for all clients or one
//!       digit per client: 0 no answer, 1 at once (the Pong is the next thing the server reads), 2 before the first
//!       frame of the client's next message, 3 after the first fragment of its next fragmented message, 4 before the
//!       final fragment of its next fragmented message, 5 right after the last frame of its next message, 6 at once,
//!       three Pongs in a row (2..5: one Pong answers all Pings received so far; a client whose stream has ended
//!       answers nothing); q: wait until every client is gone before shutdown.
//!   The message handler looks at the first payload byte modulo 8: 1 echo, 2 broadcast, 3 both, 6 two echoes,
//!   7 echo after 1 ms, 4 broadcast through the AsyncSender, 5 unicast through it to the next client, else nothing.
//!   Every send made by a handler or by the harness is written down by its issuer (`issued`, see `Issue`).
//! h4log tokens (client id = port - 41000): `I<k1>.<k2>…` iteration start with the key order, `W0|W1` heartbeat
//!   decision, `r<a>:T<hex>|B<hex>|E0|E1|N` receive result, `m<a>:T<hex>` `d<a>` `c<a>` handler dispatch,
//!   `x<a>` removed, `t<a>` timed out, `p<a>` ping, `a<a>:<0|1>` admitted (1: address already present),
//!   `u<a>:<0|1>:T<hex>` unicast taken (1: addressee present), `b<a1>.<a2>…:T<hex>` broadcast taken with its
//!   recipients, `S` shutdown seen, `X` loop left, `*<n>` the preceding iteration (which saw and did nothing)
//!   happened n more times.
//! execlog: `c<a>` / `m<a>:T<hex>` / `d<a>` in the order in which the handlers started to run.
//! frames: `<id>=<hex of write 1>.<hex of write 2>…` joined by `,`; consumed: ids whose script was read to its end;
//! closed: ids whose scripted socket was closed (the stream dropped) before the loop was left.
//! summary: `returned;exec=<handler runs>;data=<data frames written>;pings=<ping frames written>` or `WEDGED`.
//! heartbeat (empty without `h=`): bounds on the loop's clock readings in ns since the run began, `;`-joined:
//!   `w=<ping decisions>` and `<id>=<timeline of the client>` (entries joined by `.`; see `HbEv`, `WEv` below).
use crate::c11::Ev;
use crate::common::*;
use humphrey::stream::{MockIo, Stream};
use humphrey_ws::async_app::{AsyncSender, AsyncStream, AsyncWebsocketApp};
use humphrey_ws::message::Message;
use humphrey_ws::ping::Heartbeat;
use humphrey_ws::stream::WebsocketStream;
use humphrey_ws::verif::{install_app_sink, remove_app_sink, AppEvent, RecvSummary};
use std::collections::{HashSet, VecDeque};
use std::io::{BufRead, Error, ErrorKind, Read, Write};
use std::net::SocketAddr;
use std::sync::atomic::{AtomicBool, AtomicU64, Ordering};
use std::sync::mpsc::channel;
use std::sync::{Arc, Mutex};
use std::time::{Duration, Instant};

const WATCHDOG: Duration = Duration::from_millis(4000);
const BASE_PORT: u16 = 41000;

/* ---------------------------------------------------------------- the scripted socket (C11's, with an address) */

#[derive(Default)]
pub struct SockShared {
    pub writes: Vec<Vec<u8>>,
    pub left: usize,
    /// the socket was closed (dropped by its owner) while the loop was still running
    pub closed_in_loop: bool,
}

/// Set by the tracer when the loop is left (`LoopExit`), cleared when a run starts.
static LOOP_LEFT: AtomicBool = AtomicBool::new(false);

impl Drop for Sock {
    fn drop(&mut self) {
        if !LOOP_LEFT.load(Ordering::SeqCst) {
            if let Ok(mut sh) = self.shared.lock() {
                sh.closed_in_loop = true;
            }
        }
    }
}

pub struct Sock {
    evs: VecDeque<Ev>,
    off: usize,
    nonblocking: AtomicBool,
    addr: SocketAddr,
    id: usize,
    /// where this client puts its answers to the server's Pings (`ap=` of the scenario, see the module text)
    ap: u8,
    /// Pings of the server not yet answered
    pong_due: usize,
    /// first octet of the frame delivered last
    last_hdr: Option<u8>,
    shared: Arc<Mutex<SockShared>>,
}

impl Sock {
    fn new(evs: Vec<Ev>, id: usize, ap: u8) -> (Sock, Arc<Mutex<SockShared>>) {
        let shared = Arc::new(Mutex::new(SockShared { writes: Vec::new(), left: evs.len(), closed_in_loop: false }));
        let addr: SocketAddr = format!("127.0.0.1:{}", BASE_PORT as usize + id).parse().unwrap();
        (
            Sock { evs: evs.into(), off: 0, nonblocking: AtomicBool::new(false), addr, id, ap, pong_due: 0, last_hdr: None, shared: shared.clone() },
            shared,
        )
    }

    fn pong_frame() -> Ev {
        Ev::Data(cframe(true, 10, [9, 8, 7, 6], &[]))
    }

    /// The client is between two frames and owes an answer to a Ping: is this the place where it (policy `ap`)
    /// puts its Pong? Positions are relative to the frames sent after the Ping was received (`last_hdr` is
    /// forgotten when a Ping arrives). Only a client that has something left to send answers.
    fn answer_here(&self) -> bool {
        if self.pong_due == 0 || self.off != 0 || self.evs.is_empty() {
            return false;
        }
        // first octet of the frame that is the very next thing on the wire, if a frame is
        let next: Option<u8> = match self.evs.front() {
            Some(Ev::Data(d)) => d.first().copied(),
            _ => None,
        };
        let last = self.last_hdr;
        match self.ap {
            // before the first frame of the next message
            2 => next.map(|b| matches!(b & 0x0f, 1 | 2)).unwrap_or(false),
            // after the first fragment of a fragmented message
            3 => next.map(|b| b & 0x0f == 0).unwrap_or(false) && last.map(|h| matches!(h & 0x8f, 1 | 2)).unwrap_or(false),
            // before the final fragment of a fragmented message
            4 => next.map(|b| b & 0x8f == 0x80).unwrap_or(false),
            // right after the last frame of a message
            5 => last.map(|h| matches!(h & 0x0f, 0 | 1 | 2) && h & 0x80 != 0).unwrap_or(false),
            _ => false,
        }
    }
}

impl Read for Sock {
    fn read(&mut self, buf: &mut [u8]) -> std::io::Result<usize> {
        hb_observe();
        loop {
            if self.answer_here() {
                self.pong_due = 0;
                self.evs.push_front(Sock::pong_frame());
            }
            let r = match self.evs.front() {
                None => Some(Ok(0)),
                Some(Ev::NotYet) => {
                    self.evs.pop_front();
                    if self.nonblocking.load(Ordering::SeqCst) {
                        Some(Err(Error::new(ErrorKind::WouldBlock, "nothing yet")))
                    } else {
                        None
                    }
                }
                Some(Ev::Data(d)) => {
                    let n = (d.len() - self.off).min(buf.len());
                    buf[..n].copy_from_slice(&d[self.off..self.off + n]);
                    self.off += n;
                    if self.off >= d.len() {
                        let hdr = d.first().copied();
                        self.evs.pop_front();
                        self.off = 0;
                        self.last_hdr = hdr;
                        if hdr.map(|h| h & 0x0f == 10).unwrap_or(false) {
                            // the last octet of a Pong has been handed to the server
                            hb_life(self.id);
                        }
                    }
                    Some(Ok(n))
                }
            };
            self.shared.lock().unwrap().left = self.evs.len();
            if let Some(r) = r {
                return r;
            }
        }
    }
}

impl Write for Sock {
    fn write(&mut self, buf: &[u8]) -> std::io::Result<usize> {
        hb_observe();
        let mut sh = self.shared.lock().unwrap();
        sh.writes.push(buf.to_vec());
        // a client that is still there answers a Ping (only between frames)
        if self.ap != 0 && buf.first() == Some(&0x89) && self.off == 0 && !self.evs.is_empty() {
            match self.ap {
                // at once: the Pong is the next thing the server reads
                1 => self.evs.push_front(Sock::pong_frame()),
                // at once, several in a row
                6 => {
                    for _ in 0..3 {
                        self.evs.push_front(Sock::pong_frame());
                    }
                }
                // at a place of its frame stream chosen by the policy (see `answer_here`)
                _ => {
                    self.pong_due += 1;
                    self.last_hdr = None;
                }
            }
            sh.left = self.evs.len();
        }
        Ok(buf.len())
    }
    fn flush(&mut self) -> std::io::Result<()> {
        Ok(())
    }
}

impl MockIo for Sock {
    fn peer_addr(&self) -> Result<SocketAddr, Error> {
        Ok(self.addr)
    }
    fn shutdown(&self) -> std::io::Result<()> {
        Ok(())
    }
    fn set_timeout(&self, _timeout: Option<Duration>) -> std::io::Result<()> {
        Ok(())
    }
    fn set_nonblocking(&self, nonblocking: bool) -> std::io::Result<()> {
        self.nonblocking.store(nonblocking, Ordering::SeqCst);
        Ok(())
    }
}

/// RFC 6455 section 5.2 octets of a client frame (the harness's own encoder).
fn cframe(fin: bool, opcode: u8, key: [u8; 4], payload: &[u8]) -> Vec<u8> {
    let mut v = Vec::with_capacity(payload.len() + 14);
    v.push((opcode & 0x0f) | if fin { 0x80 } else { 0 });
    let l = payload.len();
    if l <= 125 {
        v.push(0x80 | l as u8);
    } else if l <= 65535 {
        v.push(0x80 | 126);
        v.push((l >> 8) as u8);
        v.push(l as u8);
    } else {
        v.push(0x80 | 127);
        for i in (0..8).rev() {
            v.push(((l as u64) >> (8 * i)) as u8);
        }
    }
    v.extend_from_slice(&key);
    for (i, x) in payload.iter().enumerate() {
        v.push(x ^ key[i % 4]);
    }
    v
}

/* ---------------------------------------------------------------- the heartbeat timeline */

/// What the harness can say about the clock readings of the loop, in ns since the run started (the resolution of
/// `Instant`, so that comparisons with the configured durations are exact). The loop reads
/// `Instant::now()` itself; every reading lies between two observations the harness makes on the same thread
/// (a `read`/`write` on a scripted socket, a tracer event), so each entry is a sound bound, whatever the scheduler
/// does:
///  * `L<lo>-<hi>` a sign of life of the client: its stream was created (`last_pong` initialised) or the last octet
///    of a Pong frame was handed to the server; the reading stored in `last_pong` lies in [lo, hi] (hi = the next
///    observation on the loop's thread);
///  * `A<t>` the client's poll ended with "nothing" at t and the client was NOT found timed out afterwards (the
///    heartbeat check was passed at a reading >= t); consecutive ones are folded into the last;
///  * `T<t>` the client was found timed out, reported at t (the check happened at a reading <= t);
///  * `w=`: `P<i>-<t>` the loop decided to ping in the iteration that started at i, reported at t (`last_ping` was
///    set in between; the first entry stands for the initial `last_ping`: thread spawn .. first event);
///    `Q<i>` it decided not to, in an iteration that started at i (consecutive ones folded into the last).
enum HbEv {
    Life(u64, u64),
    Alive(u64),
    Timed(u64),
}

enum WEv {
    P(u64, u64),
    Q(u64),
}

struct HbLog {
    t0: Instant,
    pending: Vec<(usize, usize)>,
    per: std::collections::BTreeMap<usize, Vec<HbEv>>,
    check: Option<(usize, u64)>,
    w: Vec<WEv>,
    spawned: u64,
    iter_start: u64,
    first: bool,
}

static HB: Mutex<Option<HbLog>> = Mutex::new(None);

fn hb_with<T>(f: impl FnOnce(&mut HbLog, u64) -> T) -> Option<T> {
    let mut g = HB.lock().unwrap_or_else(|e| e.into_inner());
    g.as_mut().map(|h| {
        let now = h.t0.elapsed().as_nanos() as u64;
        f(h, now)
    })
}

impl HbLog {
    fn observe(&mut self, now: u64) {
        for (c, k) in self.pending.drain(..) {
            if let Some(HbEv::Life(_, hi)) = self.per.get_mut(&c).and_then(|v| v.get_mut(k)) {
                *hi = now;
            }
        }
    }
    fn alive(&mut self, c: usize, t: u64) {
        let v = self.per.entry(c).or_default();
        if let Some(HbEv::Alive(x)) = v.last_mut() {
            *x = t;
        } else {
            v.push(HbEv::Alive(t));
        }
    }
}

/// An observation on the loop's thread: whatever clock reading the loop took before lies before now.
fn hb_observe() {
    hb_with(|h, now| h.observe(now));
}

/// The last octet of a Pong frame of client `c` has been handed out.
fn hb_life(c: usize) {
    hb_with(|h, now| {
        let v = h.per.entry(c).or_default();
        v.push(HbEv::Life(now, u64::MAX));
        let k = v.len() - 1;
        h.pending.push((c, k));
    });
}

fn hb_now() -> u64 {
    hb_with(|_, now| now).unwrap_or(0)
}

/// The stream of client `c` was created between lo and hi.
fn hb_created(c: usize, lo: u64, hi: u64) {
    hb_with(|h, _| h.per.entry(c).or_default().push(HbEv::Life(lo, hi)));
}

fn hb_event(ev: &AppEvent) {
    hb_with(|h, now| {
        h.observe(now);
        if let Some((c, t)) = h.check.take() {
            let timed_out = matches!(ev, AppEvent::TimedOut(a) if id_of(a) == c);
            if !timed_out {
                h.alive(c, t);
            }
        }
        match ev {
            AppEvent::IterStart(_) => {
                if h.first {
                    h.first = false;
                    h.w.push(WEv::P(h.spawned, now));
                }
                h.iter_start = now;
            }
            AppEvent::WillPing(true) => h.w.push(WEv::P(h.iter_start, now)),
            AppEvent::WillPing(false) => {
                let i = h.iter_start;
                if let Some(WEv::Q(x)) = h.w.last_mut() {
                    *x = i;
                } else {
                    h.w.push(WEv::Q(i));
                }
            }
            AppEvent::Recv(a, RecvSummary::None) => h.check = Some((id_of(a), now)),
            AppEvent::TimedOut(a) => h.per.entry(id_of(a)).or_default().push(HbEv::Timed(now)),
            _ => {}
        }
    });
}

fn hb_text(h: &HbLog, end: u64) -> String {
    let mut parts = vec![format!(
        "w={}",
        h.w.iter()
            .map(|e| match e {
                WEv::P(i, t) => format!("P{}-{}", i, t),
                WEv::Q(i) => format!("Q{}", i),
            })
            .collect::<Vec<_>>()
            .join(".")
    )];
    for (c, v) in &h.per {
        parts.push(format!(
            "{}={}",
            c,
            v.iter()
                .map(|e| match e {
                    HbEv::Life(lo, hi) => format!("L{}-{}", lo, (*hi).min(end)),
                    HbEv::Alive(t) => format!("A{}", t),
                    HbEv::Timed(t) => format!("T{}", t),
                })
                .collect::<Vec<_>>()
                .join(".")
        ));
    }
    parts.join(";")
}

/* ---------------------------------------------------------------- scenarios */

#[derive(Clone, Debug)]
enum It {
    Msg { text: bool, frags: usize, ping: bool, pong: bool, payload: Vec<u8> },
    /// the items, so many times over (`<n>x<item>+<item>…`)
    Rep(usize, Vec<It>),
    NotYet,
    Ping(Vec<u8>),
    Pong,
    Close(Vec<u8>),
    Garbage,
    Trunc,
}

#[derive(Clone, Debug)]
enum Act {
    Connect(usize),
    Unicast(usize, bool, Vec<u8>),
    Broadcast(bool, Vec<u8>),
}

#[derive(Clone, Debug)]
struct Scn {
    threads: usize,
    poll: Option<u64>,
    hb: Option<(u64, u64)>,
    ca: u8,
    da: u8,
    /// per client: where it puts its answers to the server's Pings (0 = it does not answer)
    ap: Vec<u8>,
    wait_gone: bool,
    /// the handlers registered on the app: bit 0 connect, bit 1 message, bit 2 disconnect
    hs: u8,
    /// the handlers hold an `AsyncSender` of the app
    sx: bool,
    clients: Vec<Vec<It>>,
    tl: Vec<(u64, Act)>,
}

const HS_C: u8 = 1;
const HS_M: u8 = 2;
const HS_D: u8 = 4;
const HS_ALL: u8 = 7;

fn hs_text(hs: u8) -> String {
    let mut t = String::new();
    if hs & HS_C != 0 {
        t.push('c');
    }
    if hs & HS_M != 0 {
        t.push('m');
    }
    if hs & HS_D != 0 {
        t.push('d');
    }
    if t.is_empty() {
        t.push('-');
    }
    t
}

fn parse_hs(v: &str) -> Option<u8> {
    let mut hs = 0;
    for c in v.chars() {
        match c {
            'c' => hs |= HS_C,
            'm' => hs |= HS_M,
            'd' => hs |= HS_D,
            '-' => {}
            _ => return None,
        }
    }
    Some(hs)
}

/// The generated dimension: all 8 subsets occur, half of the draws are the full set.
fn gen_hs(rng: &mut Rng) -> u8 {
    if rng.chance(1, 2) { HS_ALL } else { rng.below(8) as u8 }
}

fn tb(text: bool) -> char {
    if text { 'T' } else { 'B' }
}

fn it_text(i: &It) -> String {
    match i {
        It::Msg { text, frags, ping, pong, payload } => {
            if *frags <= 1 {
                format!("{}{}", tb(*text), hex(payload))
            } else {
                format!("{}{}{}{}", if *ping { 'g' } else if *pong { 'o' } else { 'f' }, frags, tb(*text), hex(payload))
            }
        }
        It::Rep(n, items) => format!("{}x{}", n, items.iter().map(it_text).collect::<Vec<_>>().join("+")),
        It::NotYet => "n".into(),
        It::Ping(p) => format!("P{}", hex(p)),
        It::Pong => "O".into(),
        It::Close(p) => format!("C{}", hex(p)),
        It::Garbage => "G".into(),
        It::Trunc => "R".into(),
    }
}

fn act_text(a: &Act) -> String {
    match a {
        Act::Connect(i) => format!("c{}", i),
        Act::Unicast(i, t, p) => format!("u{}:{}{}", i, tb(*t), hex(p)),
        Act::Broadcast(t, p) => format!("b{}{}", tb(*t), hex(p)),
    }
}

fn scn_text(s: &Scn) -> String {
    format!(
        "t={};p={};h={};ca={};da={};ap={};q={};hs={}{};cl={};tl={}",
        s.threads,
        s.poll.map(|x| x.to_string()).unwrap_or_else(|| "none".into()),
        s.hb.map(|(a, b)| format!("{}.{}", a, b)).unwrap_or_else(|| "-".into()),
        s.ca,
        s.da,
        ap_text(&s.ap),
        s.wait_gone as u8,
        hs_text(s.hs),
        if s.sx { ";sx=1" } else { "" },
        s.clients
            .iter()
            .map(|c| if c.is_empty() { "-".into() } else { c.iter().map(it_text).collect::<Vec<_>>().join(",") })
            .collect::<Vec<_>>()
            .join("/"),
        if s.tl.is_empty() { "-".into() } else { s.tl.iter().map(|(d, a)| format!("{}:{}", d, act_text(a))).collect::<Vec<_>>().join(",") }
    )
}

/// One digit when all clients have the same policy, else one digit per client.
fn ap_text(ap: &[u8]) -> String {
    match ap.first() {
        None => "0".into(),
        Some(a) if ap.iter().all(|x| x == a) => a.to_string(),
        _ => ap.iter().map(|x| x.to_string()).collect(),
    }
}

fn parse_ap(v: &str, nclients: usize) -> Option<Vec<u8>> {
    let d: Vec<u8> = v.chars().map(|c| c.to_digit(10).map(|x| x as u8)).collect::<Option<Vec<_>>>()?;
    if d.iter().any(|x| *x > 6) {
        return None;
    }
    match d.len() {
        1 => Some(vec![d[0]; nclients]),
        n if n == nclients => Some(d),
        _ => None,
    }
}

fn parse_tb(s: &str) -> Option<(bool, Vec<u8>)> {
    let t = match s.chars().next()? {
        'T' => true,
        'B' => false,
        _ => return None,
    };
    Some((t, unhex(&s[1..])))
}

fn parse_it(s: &str) -> Option<It> {
    let c = s.chars().next()?;
    match c {
        '0'..='9' => {
            let (n, items) = s.split_once('x')?;
            let items = items.split('+').map(parse_it).collect::<Option<Vec<_>>>()?;
            if items.iter().any(|i| matches!(i, It::Rep(..))) {
                return None;
            }
            Some(It::Rep(n.parse().ok()?, items))
        }
        'T' | 'B' => {
            let (text, payload) = parse_tb(s)?;
            Some(It::Msg { text, frags: 1, ping: false, pong: false, payload })
        }
        'f' | 'g' | 'o' => {
            let pos = s[1..].find(|x: char| x == 'T' || x == 'B')? + 1;
            let frags: usize = s[1..pos].parse().ok()?;
            let (text, payload) = parse_tb(&s[pos..])?;
            Some(It::Msg { text, frags, ping: c == 'g', pong: c == 'o', payload })
        }
        'n' => Some(It::NotYet),
        'P' => Some(It::Ping(unhex(&s[1..]))),
        'O' => Some(It::Pong),
        'C' => Some(It::Close(unhex(&s[1..]))),
        'G' => Some(It::Garbage),
        'R' => Some(It::Trunc),
        _ => None,
    }
}

fn parse_act(s: &str) -> Option<Act> {
    let c = s.chars().next()?;
    match c {
        'c' => Some(Act::Connect(s[1..].parse().ok()?)),
        'u' => {
            let (id, m) = s[1..].split_once(':')?;
            let (t, p) = parse_tb(m)?;
            Some(Act::Unicast(id.parse().ok()?, t, p))
        }
        'b' => {
            let (t, p) = parse_tb(&s[1..])?;
            Some(Act::Broadcast(t, p))
        }
        _ => None,
    }
}

fn parse_scn(s: &str) -> Option<Scn> {
    let mut kv = std::collections::HashMap::new();
    for part in s.split(';') {
        let (k, v) = part.split_once('=')?;
        kv.insert(k, v);
    }
    let clients = kv
        .get("cl")?
        .split('/')
        .map(|c| if c == "-" { Some(vec![]) } else { c.split(',').map(parse_it).collect::<Option<Vec<_>>>() })
        .collect::<Option<Vec<_>>>()?;
    let tl = match *kv.get("tl")? {
        "-" => vec![],
        t => t
            .split(',')
            .map(|st| {
                let (d, a) = st.split_once(':')?;
                Some((d.parse().ok()?, parse_act(a)?))
            })
            .collect::<Option<Vec<_>>>()?,
    };
    Some(Scn {
        threads: kv.get("t")?.parse().ok()?,
        poll: match *kv.get("p")? {
            "none" => None,
            x => Some(x.parse().ok()?),
        },
        hb: match *kv.get("h")? {
            "-" => None,
            x => {
                let (a, b) = x.split_once('.')?;
                Some((a.parse().ok()?, b.parse().ok()?))
            }
        },
        ca: kv.get("ca")?.parse().ok()?,
        da: kv.get("da")?.parse().ok()?,
        ap: parse_ap(kv.get("ap")?, clients.len())?,
        wait_gone: *kv.get("q")? == "1",
        hs: match kv.get("hs") {
            None => HS_ALL,
            Some(v) => parse_hs(v)?,
        },
        sx: matches!(kv.get("sx"), Some(&"1")),
        clients,
        tl,
    })
}

/// The events of a client's socket.
fn client_events(items: &[It]) -> Vec<Ev> {
    let mut evs = Vec::new();
    let mut n = 0usize;
    for it in items {
        match it {
            It::Rep(k, sub) => {
                for _ in 0..*k {
                    for it in sub {
                        item_events(it, n, &mut evs);
                        n += 1;
                    }
                }
            }
            it => {
                item_events(it, n, &mut evs);
                n += 1;
            }
        }
    }
    evs
}

fn item_events(it: &It, n: usize, evs: &mut Vec<Ev>) {
    let key = [(n as u8).wrapping_mul(17).wrapping_add(1), 0xa5, n as u8, 0x3c];
    match it {
        It::Msg { text, frags, ping, pong, payload } => {
            let op = if *text { 1 } else { 2 };
            if *frags <= 1 {
                evs.push(Ev::Data(cframe(true, op, key, payload)));
            } else {
                let k = *frags;
                let size = (payload.len() + k - 1) / k;
                for j in 0..k {
                    let lo = (j * size).min(payload.len());
                    let hi = ((j + 1) * size).min(payload.len());
                    evs.push(Ev::Data(cframe(j == k - 1, if j == 0 { op } else { 0 }, key, &payload[lo..hi])));
                    if j == 0 && *ping {
                        evs.push(Ev::Data(cframe(true, 9, key, &[0x70])));
                        evs.push(Ev::NotYet);
                    }
                    if j == 0 && *pong {
                        // an unsolicited Pong between the fragments
                        evs.push(Ev::Data(cframe(true, 10, key, &[])));
                    }
                }
            }
        }
        It::Rep(..) => {}
        It::NotYet => evs.push(Ev::NotYet),
        It::Ping(p) => evs.push(Ev::Data(cframe(true, 9, key, p))),
        It::Pong => evs.push(Ev::Data(cframe(true, 10, key, &[]))),
        It::Close(p) => evs.push(Ev::Data(cframe(true, 8, key, p))),
        It::Garbage => evs.push(Ev::Data(vec![0x83, 0x00])),
        It::Trunc => evs.push(Ev::Data(vec![0x82, 0x85, 1, 2, 3, 4, 0x55])),
    }
}

/* ---------------------------------------------------------------- the tracer */

fn id_of(a: &SocketAddr) -> usize {
    (a.port() as usize).wrapping_sub(BASE_PORT as usize) % 100000
}

fn ids(v: &[SocketAddr]) -> String {
    v.iter().map(|a| id_of(a).to_string()).collect::<Vec<_>>().join(".")
}

struct Trace {
    log: Vec<String>,
    cur: Vec<String>,
    cur_idle: bool,
    cur_quiet: bool,
    prev: Vec<String>,
    repeat: u64,
    quiet_iters: u64,
    /// consecutive iterations in which the loop saw or did something
    busy_streak: u64,
    /// messages received (whether or not a message handler exists)
    recv_msgs: u64,
    dispatched: u64,
    removed: HashSet<usize>,
    admitted: HashSet<usize>,
    exited: bool,
    /// the log grew beyond any sensible run: recording stopped
    overflow: bool,
    /// iterations started so far (`IterStart` events, folded or not)
    iters: u64,
}

static TRACE: Mutex<Option<Trace>> = Mutex::new(None);

impl Trace {
    fn new() -> Trace {
        Trace {
            log: Vec::new(),
            cur: Vec::new(),
            cur_idle: false,
            cur_quiet: false,
            prev: Vec::new(),
            repeat: 0,
            quiet_iters: 0,
            busy_streak: 0,
            recv_msgs: 0,
            dispatched: 0,
            removed: HashSet::new(),
            admitted: HashSet::new(),
            exited: false,
            overflow: false,
            iters: 0,
        }
    }
    /// The iteration collected in `cur` is over.
    fn close_iter(&mut self) {
        if self.cur.is_empty() {
            return;
        }
        if self.cur_quiet {
            self.quiet_iters += 1;
            self.busy_streak = 0;
        } else {
            self.quiet_iters = 0;
            self.busy_streak += 1;
        }
        if self.cur_idle && self.cur == self.prev {
            self.repeat += 1;
            self.cur.clear();
            return;
        }
        self.flush_repeat();
        self.log.extend(self.cur.iter().cloned());
        if self.cur_idle {
            // only an iteration that saw and did nothing can be folded into a repeat count
            self.prev = std::mem::take(&mut self.cur);
        } else {
            self.prev.clear();
            self.cur.clear();
        }
    }
    fn flush_repeat(&mut self) {
        if self.repeat > 0 {
            self.log.push(format!("*{}", self.repeat));
            self.repeat = 0;
        }
    }
    fn on(&mut self, ev: AppEvent) {
        use AppEvent::*;
        hb_event(&ev);
        if let IterStart(_) = &ev {
            self.iters += 1;
        }
        if self.log.len() + self.cur.len() > 60_000 {
            self.overflow = true;
            return;
        }
        let m = |t: bool, p: &[u8]| format!("{}{}", tb(t), hex(p));
        match ev {
            IterStart(keys) => {
                self.close_iter();
                self.cur_idle = true;
                self.cur_quiet = true;
                self.cur.push(format!("I{}", ids(&keys)));
            }
            ShutdownSeen => {
                self.close_iter();
                self.flush_repeat();
                self.log.push("S".into());
            }
            LoopExit => {
                self.close_iter();
                self.flush_repeat();
                self.log.push("X".into());
                self.exited = true;
                LOOP_LEFT.store(true, Ordering::SeqCst);
            }
            WillPing(b) => {
                if b {
                    self.cur_idle = false;
                }
                self.cur.push(format!("W{}", b as u8));
            }
            Recv(a, RecvSummary::None) => self.cur.push(format!("r{}:N", id_of(&a))),
            Recv(a, RecvSummary::Message(t, p)) => {
                self.busy();
                self.recv_msgs += 1;
                self.cur.push(format!("r{}:{}", id_of(&a), m(t, &p)));
            }
            Recv(a, RecvSummary::Err(closed)) => {
                self.busy();
                self.cur.push(format!("r{}:E{}", id_of(&a), closed as u8));
            }
            DispatchMessage(a, t, p) => {
                self.busy();
                self.dispatched += 1;
                self.cur.push(format!("m{}:{}", id_of(&a), m(t, &p)));
            }
            DispatchDisconnect(a) => {
                self.busy();
                self.dispatched += 1;
                self.cur.push(format!("d{}", id_of(&a)));
            }
            DispatchConnect(a) => {
                self.busy();
                self.dispatched += 1;
                self.cur.push(format!("c{}", id_of(&a)));
            }
            Removed(a) => {
                self.busy();
                self.removed.insert(id_of(&a));
                self.cur.push(format!("x{}", id_of(&a)));
            }
            TimedOut(a) => {
                self.busy();
                self.cur.push(format!("t{}", id_of(&a)));
            }
            Ping(a) => {
                self.cur_idle = false;
                self.cur.push(format!("p{}", id_of(&a)));
            }
            Admitted(a, present) => {
                self.busy();
                self.admitted.insert(id_of(&a));
                self.cur.push(format!("a{}:{}", id_of(&a), present as u8));
            }
            OutUnicast(a, present, t, p) => {
                self.busy();
                self.cur.push(format!("u{}:{}:{}", id_of(&a), present as u8, m(t, &p)));
            }
            OutBroadcast(rec, t, p) => {
                self.busy();
                self.cur.push(format!("b{}:{}", ids(&rec), m(t, &p)));
            }
        }
    }
    fn busy(&mut self) {
        self.cur_idle = false;
        self.cur_quiet = false;
    }
}

/* ---------------------------------------------------------------- handlers */

/// A server-side send as its issuer saw it (8th output field, entries joined by a blank):
/// `<stamp>:<who>:<op>` with
///  * stamp = how many iterations of the loop had STARTED when the call returned (`-`: it had not returned when the
///    logs were collected). The number is read under the tracer's mutex after the call, so an iteration that starts
///    later starts after the message was put into the channel and its flush finds it there;
///  * who = `c<a>` / `m<a>` / `d<a>`: through the `AsyncStream` handed to the connect / message / disconnect handler
///    run for client a; `C<a>` / `M<a>` / `D<a>`: through an `AsyncSender` from inside that handler; `e`: through
///    the `AsyncSender` on the harness thread;
///  * op = `u<id>:T<hex>` / `u<id>:B<hex>` a unicast to client id, `bT<hex>` / `bB<hex>` a broadcast; with a capital
///    `U` / `B` in front instead: the call panicked (`AsyncStream::send` on the stream given to a disconnect handler
///    does: `assert!(self.connected)`).
struct Issue {
    who: String,
    target: Option<usize>,
    body: String,
    stamp: Option<u64>,
    panicked: bool,
}

fn issue_text(i: &Issue) -> String {
    let stamp = i.stamp.map(|k| k.to_string()).unwrap_or_else(|| "-".into());
    match (i.target, i.panicked) {
        (Some(t), false) => format!("{}:{}:u{}:{}", stamp, i.who, t, i.body),
        (Some(t), true) => format!("{}:{}:U{}:{}", stamp, i.who, t, i.body),
        (None, false) => format!("{}:{}:b{}", stamp, i.who, i.body),
        (None, true) => format!("{}:{}:B{}", stamp, i.who, i.body),
    }
}

struct HState {
    log: Mutex<Vec<String>>,
    ca: u8,
    da: u8,
    /// the scripted clients of the scenario (for "the next client" as the addressee of a handler's unicast)
    n: usize,
    /// an `AsyncSender` of the app for the handlers (`sx=1`)
    sender: Mutex<Option<AsyncSender>>,
    issued: Mutex<Vec<Issue>>,
    /// handler calls that have started and not yet ended
    active: AtomicU64,
}

/// A handler call in progress (the first panic of a process takes milliseconds to unwind: the logs are collected
/// only when no call is in progress any more).
struct Running<'a>(&'a HState);

impl<'a> Running<'a> {
    fn new(state: &'a HState) -> Running<'a> {
        state.active.fetch_add(1, Ordering::SeqCst);
        Running(state)
    }
}

impl Drop for Running<'_> {
    fn drop(&mut self) {
        self.0.active.fetch_sub(1, Ordering::SeqCst);
    }
}

impl HState {
    fn new(ca: u8, da: u8, n: usize) -> HState {
        HState { log: Mutex::new(Vec::new()), ca, da, n, sender: Mutex::new(None), issued: Mutex::new(Vec::new()), active: AtomicU64::new(0) }
    }
}

fn mk(text: bool, p: &[u8]) -> Message {
    if text { Message::new(p) } else { Message::new_binary(p) }
}

fn addr_of(id: usize) -> SocketAddr {
    format!("127.0.0.1:{}", BASE_PORT as usize + id).parse().unwrap()
}

/// Make one send and write down how it went: the entry exists before the call, the stamp is taken after it.
fn issue(state: &HState, who: String, target: Option<usize>, text: bool, p: &[u8], call: impl FnOnce(Message)) {
    // (a text message whose bytes are not UTF-8 is a binary message: the record says what the message is)
    let msg = mk(text, p);
    let idx = {
        let mut g = state.issued.lock().unwrap_or_else(|e| e.into_inner());
        g.push(Issue { who, target, body: format!("{}{}", tb(msg.is_text()), hex(msg.bytes())), stamp: None, panicked: false });
        g.len() - 1
    };
    let r = std::panic::catch_unwind(std::panic::AssertUnwindSafe(move || call(msg)));
    // the run is not at rest before the loop has had an iteration of its own to take this message
    let k = with_trace(|t| {
        t.quiet_iters = 0;
        t.iters
    });
    let mut g = state.issued.lock().unwrap_or_else(|e| e.into_inner());
    g[idx].stamp = k;
    g[idx].panicked = r.is_err();
}

/// Through the `AsyncSender` the handlers were given, if any (`sx=1`).
fn via_sender(state: &HState, who: String, target: Option<usize>, text: bool, p: &[u8]) {
    let g = state.sender.lock().unwrap_or_else(|e| e.into_inner());
    if let Some(sender) = g.as_ref() {
        match target {
            Some(t) => issue(state, who, target, text, p, |m| sender.send(addr_of(t), m)),
            None => issue(state, who, None, text, p, |m| sender.broadcast(m)),
        }
    }
}

fn next_client(state: &HState, id: usize) -> usize {
    if state.n == 0 { id } else { (id + 1) % state.n }
}

fn on_connect(stream: AsyncStream, state: Arc<HState>) {
    let _running = Running::new(&state);
    let id = id_of(&stream.peer_addr());
    state.log.lock().unwrap().push(format!("c{}", id));
    if state.ca & 1 != 0 {
        issue(&state, format!("c{}", id), Some(id), true, format!("hi{}", id).as_bytes(), |m| stream.send(m));
    }
    if state.ca & 2 != 0 {
        issue(&state, format!("c{}", id), None, true, format!("join{}", id).as_bytes(), |m| stream.broadcast(m));
    }
    if state.ca & 4 != 0 {
        via_sender(&state, format!("C{}", id), None, true, format!("sjoin{}", id).as_bytes());
    }
    if state.ca & 8 != 0 {
        via_sender(&state, format!("C{}", id), Some(next_client(&state, id)), true, format!("meet{}", id).as_bytes());
    }
}

fn on_disconnect(stream: AsyncStream, state: Arc<HState>) {
    let _running = Running::new(&state);
    let id = id_of(&stream.peer_addr());
    state.log.lock().unwrap().push(format!("d{}", id));
    if state.da & 1 != 0 {
        issue(&state, format!("d{}", id), None, true, format!("left{}", id).as_bytes(), |m| stream.broadcast(m));
    }
    if state.da & 2 != 0 {
        // to the client that has gone, through its own (disconnected) stream
        issue(&state, format!("d{}", id), Some(id), true, format!("bye{}", id).as_bytes(), |m| stream.send(m));
    }
    if state.da & 4 != 0 {
        via_sender(&state, format!("D{}", id), None, false, format!("sleft{}", id).as_bytes());
    }
    if state.da & 8 != 0 {
        via_sender(&state, format!("D{}", id), Some(next_client(&state, id)), true, format!("gone{}", id).as_bytes());
    }
    if state.da & 16 != 0 {
        via_sender(&state, format!("D{}", id), Some(id), true, format!("self{}", id).as_bytes());
    }
}

fn on_message(stream: AsyncStream, message: Message, state: Arc<HState>) {
    let _running = Running::new(&state);
    let id = id_of(&stream.peer_addr());
    let p = message.bytes().to_vec();
    let t = message.is_text();
    state.log.lock().unwrap().push(format!("m{}:{}{}", id, tb(t), hex(&p)));
    let who = format!("m{}", id);
    match p.first().map(|b| b % 8) {
        Some(1) => issue(&state, who, Some(id), t, &p, |m| stream.send(m)),
        Some(2) => issue(&state, who, None, t, &p, |m| stream.broadcast(m)),
        Some(3) => {
            issue(&state, who.clone(), Some(id), t, &p, |m| stream.send(m));
            issue(&state, who, None, t, &p, |m| stream.broadcast(m));
        }
        // through the AsyncSender the handlers hold (nothing without one)
        Some(4) => via_sender(&state, format!("M{}", id), None, t, &p),
        Some(5) => via_sender(&state, format!("M{}", id), Some(next_client(&state, id)), t, &p),
        Some(6) => {
            issue(&state, who.clone(), Some(id), t, &p, |m| stream.send(m));
            issue(&state, who, Some(id), !t, &p[1..], |m| stream.send(m));
        }
        Some(7) => {
            std::thread::sleep(Duration::from_millis(1));
            issue(&state, who, Some(id), t, &p, |m| stream.send(m));
        }
        _ => {}
    }
}

/* ---------------------------------------------------------------- one run */

fn with_trace<T>(f: impl FnOnce(&mut Trace) -> T) -> Option<T> {
    let mut g = TRACE.lock().unwrap_or_else(|e| e.into_inner());
    g.as_mut().map(f)
}

fn wait_until(cap: Duration, mut cond: impl FnMut() -> bool) -> bool {
    let t0 = Instant::now();
    loop {
        if cond() {
            return true;
        }
        if t0.elapsed() >= cap {
            return false;
        }
        std::thread::sleep(Duration::from_micros(200));
    }
}

pub struct RunOut {
    pub out: String,
    pub clean: bool,
}

fn opcode_class(w: &[u8]) -> u8 {
    w.first().map(|b| b & 0x0f).unwrap_or(255)
}

/// So many consecutive iterations that saw or did something, after all input has been consumed: the loop is
/// not going to come to rest (a correct loop has finitely much to do then: the handlers' sends, removals).
const RESTLESS: u64 = 400;

/// Run one scenario in this process (at most one unclean run per process).
fn run_scn(s: &Scn) -> RunOut {
    LOOP_LEFT.store(false, Ordering::SeqCst);
    *TRACE.lock().unwrap_or_else(|e| e.into_inner()) = Some(Trace::new());
    // the heartbeat timeline is kept only when the app has a heartbeat
    *HB.lock().unwrap_or_else(|e| e.into_inner()) = s.hb.map(|_| HbLog {
        t0: Instant::now(),
        pending: Vec::new(),
        per: Default::default(),
        check: None,
        w: Vec::new(),
        spawned: 0,
        iter_start: 0,
        first: true,
    });
    install_app_sink(Box::new(|_seq, ev| {
        if let Some(t) = TRACE.lock().unwrap_or_else(|e| e.into_inner()).as_mut() {
            t.on(ev)
        }
    }));
    let state = Arc::new(HState::new(s.ca, s.da, s.clients.len()));
    let (shutdown_tx, shutdown_rx) = channel::<()>();
    let (hook_tx, hook_rx) = channel();
    let (done_tx, done_rx) = channel::<()>();
    let threads = s.threads;
    let poll = s.poll.map(Duration::from_micros);
    let hb = s.hb;
    let hs = s.hs;
    let st2 = state.clone();
    let helper = std::thread::Builder::new()
        .name("c12-app".into())
        .spawn(move || {
            let mut app: AsyncWebsocketApp<Arc<HState>> =
                AsyncWebsocketApp::new_unlinked_with_config(st2, threads).with_polling_interval(poll).with_shutdown(shutdown_rx);
            // only the handlers of the scenario are registered; the others stay `None`
            if hs & HS_C != 0 {
                app = app.with_connect_handler(|s: AsyncStream, st: Arc<Arc<HState>>| on_connect(s, (*st).clone()));
            }
            if hs & HS_D != 0 {
                app = app.with_disconnect_handler(|s: AsyncStream, st: Arc<Arc<HState>>| on_disconnect(s, (*st).clone()));
            }
            if hs & HS_M != 0 {
                app = app.with_message_handler(|s: AsyncStream, m: Message, st: Arc<Arc<HState>>| on_message(s, m, (*st).clone()));
            }
            if let Some((i, t)) = hb {
                app = app.with_heartbeat(Heartbeat::new(Duration::from_millis(i), Duration::from_millis(t)));
            }
            let _ = hook_tx.send((app.connect_hook().unwrap(), app.sender(), app.sender()));
            app.run();
            let _ = done_tx.send(());
        })
        .expect("spawn app thread");
    let (hook, sender, sender2): (_, AsyncSender, AsyncSender) = match hook_rx.recv_timeout(WATCHDOG) {
        Ok(x) => x,
        Err(_) => return RunOut { out: "WEDGED|||||".into(), clean: false },
    };
    if s.sx {
        *state.sender.lock().unwrap() = Some(sender2);
    }
    let mut socks: Vec<Option<Sock>> = Vec::new();
    let mut shared: Vec<Arc<Mutex<SockShared>>> = Vec::new();
    for (i, c) in s.clients.iter().enumerate() {
        let (sock, sh) = Sock::new(client_events(c), i, s.ap.get(i).copied().unwrap_or(0));
        socks.push(Some(sock));
        shared.push(sh);
    }
    let mut connected: Vec<usize> = Vec::new();
    for (d, a) in &s.tl {
        if *d > 0 {
            std::thread::sleep(Duration::from_micros(*d));
        }
        match a {
            Act::Connect(i) => {
                if let Some(sock) = socks.get_mut(*i).and_then(|x| x.take()) {
                    let lo = hb_now();
                    let ws = WebsocketStream::new(Stream::Mock(Box::new(sock)));
                    hb_created(*i, lo, hb_now());
                    let _ = hook.lock().unwrap().send(ws);
                    connected.push(*i);
                }
            }
            Act::Unicast(id, t, p) => issue(&state, "e".into(), Some(*id), *t, p, |m| sender.send(addr_of(*id), m)),
            Act::Broadcast(t, p) => issue(&state, "e".into(), None, *t, p, |m| sender.broadcast(m)),
        }
    }
    // let the app work until nothing moves any more
    with_trace(|t| t.quiet_iters = 0);
    let settled = |need_gone: bool| -> bool {
        // a script is over when it has been read to its end or its socket has been closed (client removed)
        let consumed = connected.iter().all(|i| {
            let sh = shared[*i].lock().unwrap();
            sh.left == 0 || sh.closed_in_loop
        });
        let execs = state.log.lock().unwrap().len() as u64;
        with_trace(|t| {
            let fed = consumed && connected.iter().all(|i| t.admitted.contains(i)) && t.dispatched == execs;
            t.overflow
                || fed && t.quiet_iters >= 2 && (!need_gone || connected.iter().all(|i| t.removed.contains(i)))
                // everything has been fed and the loop still finds something to do in every iteration: it will
                // not come to rest (the log shows why), waiting longer only makes the log longer
                || fed && t.busy_streak >= RESTLESS
        })
        .unwrap_or(true)
    };
    let gone_cap = s.hb.map(|(_, t)| t + 150).unwrap_or(0);
    // scripts paced against a long heartbeat timeout take several timeouts to play
    // (the caps only bound runs that do not come to rest; they are generous because on a heavily loaded machine
    // the loop's thread may not run for a second or more)
    let play_cap = s.hb.map(|(_, t)| 4 * t).unwrap_or(0).clamp(4000, 8000);
    if s.wait_gone && s.hb.is_some() {
        if !wait_until(Duration::from_millis(play_cap), || settled(false)) || !wait_until(Duration::from_millis(gone_cap.min(1500)), || settled(true)) {
            wait_until(Duration::from_millis(300), || settled(false));
        }
    } else {
        wait_until(Duration::from_millis(play_cap), || settled(false));
    }
    let _ = shutdown_tx.send(());
    let returned = done_rx.recv_timeout(WATCHDOG).is_ok();
    if returned {
        let _ = helper.join();
        // handlers still queued when the loop was left run now
        wait_until(WATCHDOG, || {
            let execs = state.log.lock().unwrap().len() as u64;
            with_trace(|t| t.dispatched == execs).unwrap_or(true) && state.active.load(Ordering::SeqCst) == 0
        });
        std::thread::sleep(Duration::from_micros(300));
    }
    remove_app_sink();
    let hbt = {
        let mut g = HB.lock().unwrap_or_else(|e| e.into_inner());
        let t = g.as_ref().map(|h| hb_text(h, h.t0.elapsed().as_nanos() as u64)).unwrap_or_default();
        *g = None;
        t
    };
    let overflow = with_trace(|t| t.overflow).unwrap_or(false);
    let log = {
        let mut g = TRACE.lock().unwrap_or_else(|e| e.into_inner());
        let l = g.as_ref().map(|t| t.log.join(" ")).unwrap_or_default();
        *g = None;
        l
    };
    if overflow {
        // the loop keeps doing something in every iteration: the log is useless beyond this point
        return RunOut { out: format!("OVERFLOW|{}||||", log.split(' ').take(400).collect::<Vec<_>>().join(" ")), clean: false };
    }
    let exec = state.log.lock().unwrap().clone();
    let issued = state.issued.lock().unwrap_or_else(|e| e.into_inner()).iter().map(issue_text).collect::<Vec<_>>().join(" ");
    let mut frames = Vec::new();
    let mut data = 0usize;
    let mut pings = 0usize;
    let mut consumed = Vec::new();
    let mut closed = Vec::new();
    for (i, sh) in shared.iter().enumerate() {
        let sh = sh.lock().unwrap();
        if sh.closed_in_loop {
            closed.push(i.to_string());
        }
        if !sh.writes.is_empty() {
            frames.push(format!("{}={}", i, sh.writes.iter().map(|w| hex(w)).collect::<Vec<_>>().join(".")));
        }
        data += sh.writes.iter().filter(|w| matches!(opcode_class(w), 1 | 2)).count();
        pings += sh.writes.iter().filter(|w| opcode_class(w) == 9).count();
        if connected.contains(&i) && sh.left == 0 {
            consumed.push(i.to_string());
        }
    }
    let summary = if returned { format!("returned;exec={};data={};pings={}", exec.len(), data, pings) } else { "WEDGED".to_string() };
    RunOut {
        out: format!("{}|{}|{}|{}|{}|{}|{}|{}", summary, log, exec.join(" "), frames.join(","), consumed.join(","), closed.join(","), hbt, issued),
        clean: returned,
    }
}

/* ---------------------------------------------------------------- real sockets */

/// `real` scenario: `t=<threads>;p=<poll µs>;n=<clients>;m=<messages per client>[;hs=<handlers>]`: the internal
/// Humphrey app on a free loopback port, reference clients doing the HTTP upgrade and sending masked frames.
/// Clients read the greeting (if a connect handler is registered), send their messages (`<client><k>` as text;
/// first byte chosen so that the handler echoes), read the echoes (if a message handler is registered), then
/// every client but the last closes and reads the answering Close. Addresses are ephemeral ports.
fn run_real(threads: usize, poll: u64, n: usize, m: usize, hs: u8) -> RunOut {
    use std::net::{TcpListener, TcpStream};
    LOOP_LEFT.store(false, Ordering::SeqCst);
    *TRACE.lock().unwrap_or_else(|e| e.into_inner()) = Some(Trace::new());
    // a free port
    let port = match TcpListener::bind("127.0.0.1:0").and_then(|l| l.local_addr()) {
        Ok(a) => a.port(),
        Err(_) => return RunOut { out: "NOPORT|||||".into(), clean: true },
    };
    // ids: the clients' local ports are not known in advance, so the log uses `port - BASE_PORT` as they come;
    // the harness rewrites them to 0..n-1 afterwards
    install_app_sink(Box::new(|_seq, ev| {
        if let Some(t) = TRACE.lock().unwrap_or_else(|e| e.into_inner()).as_mut() {
            t.on(ev)
        }
    }));
    let state = Arc::new(HState::new(1, 0, 0));
    let (shutdown_tx, shutdown_rx) = channel::<()>();
    let (done_tx, done_rx) = channel::<()>();
    let st2 = state.clone();
    let helper = std::thread::Builder::new()
        .name("c12-real".into())
        .spawn(move || {
            let mut app: AsyncWebsocketApp<Arc<HState>> = AsyncWebsocketApp::new_with_config(st2, threads, 2)
                .with_address(("127.0.0.1", port))
                .with_polling_interval(Some(Duration::from_micros(poll)))
                .with_shutdown(shutdown_rx);
            if hs & HS_C != 0 {
                app = app.with_connect_handler(|s: AsyncStream, st: Arc<Arc<HState>>| on_connect(s, (*st).clone()));
            }
            if hs & HS_D != 0 {
                app = app.with_disconnect_handler(|s: AsyncStream, st: Arc<Arc<HState>>| on_disconnect(s, (*st).clone()));
            }
            if hs & HS_M != 0 {
                app = app.with_message_handler(|s: AsyncStream, m: Message, st: Arc<Arc<HState>>| on_message(s, m, (*st).clone()));
            }
            app.run();
            let _ = done_tx.send(());
        })
        .expect("spawn app thread");
    // reference clients
    fn read_frame(s: &mut TcpStream) -> Option<(u8, Vec<u8>)> {
        let mut h = [0u8; 2];
        s.read_exact(&mut h).ok()?;
        let mut len = (h[1] & 0x7f) as usize;
        if len == 126 {
            let mut b = [0u8; 2];
            s.read_exact(&mut b).ok()?;
            len = u16::from_be_bytes(b) as usize;
        } else if len == 127 {
            let mut b = [0u8; 8];
            s.read_exact(&mut b).ok()?;
            len = u64::from_be_bytes(b) as usize;
        }
        let mut p = vec![0u8; len];
        s.read_exact(&mut p).ok()?;
        Some((h[0], p))
    }
    let mut clients: Vec<(TcpStream, usize, Vec<Vec<u8>>)> = Vec::new(); // stream, local port id, raw frames read
    let mut ok = true;
    for i in 0..n {
        let mut st = None;
        for _ in 0..200 {
            match TcpStream::connect(("127.0.0.1", port)) {
                Ok(s) => {
                    st = Some(s);
                    break;
                }
                Err(_) => std::thread::sleep(Duration::from_millis(5)),
            }
        }
        let mut s = match st {
            Some(s) => s,
            None => {
                ok = false;
                break;
            }
        };
        let _ = s.set_read_timeout(Some(Duration::from_millis(1500)));
        let req = format!(
            "GET /c{} HTTP/1.1\r\nHost: localhost\r\nUpgrade: websocket\r\nConnection: Upgrade\r\nSec-WebSocket-Key: dGhlIHNhbXBsZSBub25jZQ==\r\nSec-WebSocket-Version: 13\r\n\r\n",
            i
        );
        if s.write_all(req.as_bytes()).is_err() {
            ok = false;
            break;
        }
        // response head
        let mut head = Vec::new();
        let mut b = [0u8; 1];
        while !head.ends_with(b"\r\n\r\n") {
            match s.read(&mut b) {
                Ok(1) => head.push(b[0]),
                _ => {
                    ok = false;
                    break;
                }
            }
        }
        if !ok || !head.starts_with(b"HTTP/1.1 101") {
            ok = false;
            break;
        }
        let lp = s.local_addr().map(|a| id_of(&a)).unwrap_or(0);
        clients.push((s, lp, Vec::new()));
    }
    if ok && hs & HS_C != 0 {
        // greeting (connect handler, ca = 1)
        for c in clients.iter_mut() {
            match read_frame(&mut c.0) {
                Some((h, p)) => c.2.push(raw(h, &p)),
                None => ok = false,
            }
        }
    }
    fn raw(h: u8, p: &[u8]) -> Vec<u8> {
        // re-encode as the server must have written it (unmasked, minimal length form)
        let mut v = vec![h];
        let l = p.len();
        if l <= 125 {
            v.push(l as u8);
        } else if l <= 65535 {
            v.push(126);
            v.extend_from_slice(&(l as u16).to_be_bytes());
        } else {
            v.push(127);
            v.extend_from_slice(&(l as u64).to_be_bytes());
        }
        v.extend_from_slice(p);
        v
    }
    if ok {
        for k in 0..m {
            for (i, c) in clients.iter_mut().enumerate() {
                // first byte 'a' = 97 = 1 mod 8: echoed
                let payload = format!("a{}-{}", i, k).into_bytes();
                if c.0.write_all(&cframe(true, 1, [k as u8, 7, i as u8, 99], &payload)).is_err() {
                    ok = false;
                }
            }
            if hs & HS_M != 0 {
                for c in clients.iter_mut() {
                    match read_frame(&mut c.0) {
                        Some((h, p)) => c.2.push(raw(h, &p)),
                        None => ok = false,
                    }
                }
            }
        }
        // every client but the last says goodbye and reads the answering Close
        let last = clients.len().saturating_sub(1);
        for (i, c) in clients.iter_mut().enumerate() {
            if i != last {
                let _ = c.0.write_all(&cframe(true, 8, [1, 2, 3, 4], &[3, 232]));
                if let Some((h, p)) = read_frame(&mut c.0) {
                    c.2.push(raw(h, &p));
                }
            }
        }
    }
    // handler runs expected, and what the loop itself must have seen by then (tracer), handlers or not
    let gone = n.saturating_sub(1);
    let want_c = if hs & HS_C != 0 { n } else { 0 };
    let want_m = if hs & HS_M != 0 { n * m } else { 0 };
    let want_d = if hs & HS_D != 0 { gone } else { 0 };
    let want = if ok { (want_c + want_m + want_d) as u64 } else { 0 };
    wait_until(Duration::from_millis(1500), || {
        let execs = state.log.lock().unwrap().len() as u64;
        with_trace(|t| {
            let fed = t.dispatched == execs
                && execs >= want
                && (!ok || t.admitted.len() >= n && t.recv_msgs >= (n * m) as u64 && t.removed.len() >= gone);
            fed && t.quiet_iters >= 2 || t.overflow || t.dispatched == execs && execs >= want && t.busy_streak >= RESTLESS
        })
        .unwrap_or(true)
    });
    let _ = shutdown_tx.send(());
    let returned = done_rx.recv_timeout(WATCHDOG).is_ok();
    if returned {
        let _ = helper.join();
        wait_until(WATCHDOG, || {
            let execs = state.log.lock().unwrap().len() as u64;
            with_trace(|t| t.dispatched == execs).unwrap_or(true) && state.active.load(Ordering::SeqCst) == 0
        });
    }
    remove_app_sink();
    let log = {
        let mut g = TRACE.lock().unwrap_or_else(|e| e.into_inner());
        let l = g.as_ref().map(|t| t.log.join(" ")).unwrap_or_default();
        *g = None;
        l
    };
    // the last client is still connected: after `run` has returned its stream is dropped and a Close arrives
    let exec = state.log.lock().unwrap().clone();
    let issued = state.issued.lock().unwrap_or_else(|e| e.into_inner()).iter().map(issue_text).collect::<Vec<_>>().join(" ");
    let mut frames = Vec::new();
    let mut data = 0;
    for (_, lp, fr) in clients.iter() {
        if !fr.is_empty() {
            frames.push(format!("{}={}", lp, fr.iter().map(|w| hex(w)).collect::<Vec<_>>().join(".")));
        }
        data += fr.iter().filter(|w| matches!(opcode_class(w), 1 | 2)).count();
    }
    let summary = if !ok {
        "CLIENT-FAILED".to_string()
    } else if returned {
        format!("returned;exec={};data={};pings=0", exec.len(), data)
    } else {
        "WEDGED".to_string()
    };
    // the port stays bound by the detached Humphrey app thread: one real run per process
    RunOut { out: format!("{}|{}|{}|{}||||{}", summary, log, exec.join(" "), frames.join(","), issued), clean: false }
}

fn parse_real(s: &str) -> Option<(usize, u64, usize, usize, u8)> {
    let mut kv = std::collections::HashMap::new();
    for part in s.split(';') {
        let (k, v) = part.split_once('=')?;
        kv.insert(k, v);
    }
    let hs = match kv.get("hs") {
        None => HS_ALL,
        Some(v) => parse_hs(v)?,
    };
    Some((kv.get("t")?.parse().ok()?, kv.get("p")?.parse().ok()?, kv.get("n")?.parse().ok()?, kv.get("m")?.parse().ok()?, hs))
}

/* ---------------------------------------------------------------- child processes */

/// `hv __c12child`: read `<fn> <scenario>` lines from stdin, answer `<fn>\t<scenario>\t<out>` per line. Ends
/// (exit code 3) after the first run that may have left threads behind.
pub fn child() {
    std::panic::set_hook(Box::new(|_| {}));
    let stdin = std::io::stdin();
    let stdout = std::io::stdout();
    for line in stdin.lock().lines() {
        let line = match line {
            Ok(l) => l,
            Err(_) => break,
        };
        let (f, scn) = match line.split_once(' ') {
            Some(x) => x,
            None => continue,
        };
        let r = match f {
            "app" => match parse_scn(scn) {
                Some(s) => run_scn(&s),
                None => RunOut { out: "BADSCN|||||".into(), clean: true },
            },
            "real" => match parse_real(scn) {
                Some((t, p, n, m, hs)) => run_real(t, p, n, m, hs),
                None => RunOut { out: "BADSCN|||||".into(), clean: true },
            },
            _ => continue,
        };
        {
            let mut o = stdout.lock();
            let _ = writeln!(o, "{}\t{}\t{}", f, scn, r.out);
            let _ = o.flush();
        }
        if !r.clean {
            std::process::exit(3);
        }
    }
}

/// Run the jobs in child processes; a child that ends early is replaced and continues with the rest.
fn run_batch(jobs: &[(String, String)], wedges: &AtomicU64, max_wedges: u64) -> Vec<(String, String, String)> {
    let exe = std::env::current_exe().expect("current_exe");
    let mut res = Vec::new();
    let mut next = 0;
    while next < jobs.len() {
        if wedges.load(Ordering::SeqCst) >= max_wedges {
            break;
        }
        let mut ch = std::process::Command::new(&exe)
            .arg("__c12child")
            .stdin(std::process::Stdio::piped())
            .stdout(std::process::Stdio::piped())
            .stderr(std::process::Stdio::null())
            .spawn()
            .expect("spawn child");
        let si = ch.stdin.take().unwrap();
        let batch: Vec<(String, String)> = jobs[next..(next + 200).min(jobs.len())].to_vec();
        // the scenario lines may exceed the pipe buffer: write them from a thread of their own
        let writer = std::thread::spawn(move || {
            let mut si = si;
            for (f, s) in batch {
                if si.write_all(format!("{} {}\n", f, s).as_bytes()).is_err() {
                    break;
                }
            }
        });
        let so = ch.stdout.take().unwrap();
        let mut got = 0;
        for line in std::io::BufReader::new(so).lines() {
            let line = match line {
                Ok(l) => l,
                Err(_) => break,
            };
            let f: Vec<&str> = line.split('\t').collect();
            if f.len() != 3 {
                continue;
            }
            if f[2].starts_with("WEDGED") {
                wedges.fetch_add(1, Ordering::SeqCst);
            }
            res.push((f[0].to_string(), f[1].to_string(), f[2].to_string()));
            got += 1;
        }
        let _ = ch.wait();
        let _ = writer.join();
        if got == 0 {
            let (f, s) = &jobs[next];
            res.push((f.clone(), s.clone(), "CHILD-DIED|||||".into()));
            got = 1;
        }
        next += got;
    }
    res
}

pub fn exec(f: &[String]) -> Option<String> {
    match (f[0].as_str(), f.len()) {
        ("app", 2) | ("real", 2) => {
            let w = AtomicU64::new(0);
            let r = run_batch(&[(f[0].clone(), f[1].clone())], &w, 1);
            r.first().map(|x| x.2.clone())
        }
        _ => None,
    }
}

/* ---------------------------------------------------------------- generator */

fn ascii(rng: &mut Rng, first: u8, n: usize) -> Vec<u8> {
    let mut v = vec![first];
    for _ in 1..n.max(1) {
        v.push(b'a' + rng.below(26) as u8);
    }
    v
}

fn gen_payload(rng: &mut Rng, text: bool) -> Vec<u8> {
    let n = match rng.below(12) {
        0 => 0,
        1 => rng.range(126, 300) as usize,
        2 => rng.range(20, 125) as usize,
        _ => rng.range(1, 8) as usize,
    };
    if n == 0 {
        return vec![];
    }
    if text {
        // first byte decides what the handler does: '`'..'g' = 96..103 = 0..7 mod 8
        let first = b'`' + rng.below(8) as u8;
        ascii(rng, first, n)
    } else {
        let mut v = rng.bytes(n);
        v[0] = rng.below(256) as u8;
        v
    }
}

fn gen_client(rng: &mut Rng, hb: bool) -> Vec<It> {
    let mut v = Vec::new();
    let n = rng.range(0, 7);
    for _ in 0..n {
        match rng.below(14) {
            0 | 1 => v.push(It::NotYet),
            2 => {
                let k = rng.below(4) as usize;
                v.push(It::Ping(rng.bytes(k)))
            }
            3 => v.push(It::Pong),
            _ => {
                let text = rng.chance(2, 3);
                let payload = gen_payload(rng, text);
                let frags = if rng.chance(1, 4) { rng.range(2, 4) as usize } else { 1 };
                let ping = frags > 1 && rng.chance(1, 3);
                let pong = frags > 1 && !ping && rng.chance(1, 4);
                v.push(It::Msg { text, frags, ping, pong, payload });
            }
        }
    }
    // the ending: Close, abrupt EOF, garbage, a truncated frame
    match rng.below(if hb { 6 } else { 10 }) {
        0 | 1 | 2 => {}
        3 => v.push(It::Garbage),
        4 => v.push(It::Trunc),
        _ => v.push(It::Close(if rng.chance(1, 2) { vec![3, 232] } else { vec![] })),
    }
    v
}

fn gen_scn(rng: &mut Rng) -> Scn {
    let nclients = match rng.below(6) {
        0 => 1,
        1 => 2,
        _ => rng.range(1, 8) as usize,
    };
    let threads = if rng.chance(1, 3) { 1 } else { rng.range(1, 8) as usize };
    let poll = match rng.below(8) {
        0 => None,
        1 => Some(0),
        2 => Some(100),
        3 => Some(500),
        4 => Some(1000),
        5 => Some(2000),
        6 => Some(rng.range(3000, 6000)),
        _ => Some(10000),
    };
    let hb = if rng.chance(1, 3) { Some((rng.range(1, 3), rng.range(10, 25))) } else { None };
    let clients: Vec<Vec<It>> = (0..nclients).map(|_| gen_client(rng, hb.is_some())).collect();
    let mut tl: Vec<(u64, Act)> = Vec::new();
    let delay = |rng: &mut Rng| -> u64 {
        match rng.below(4) {
            0 => 0,
            1 => rng.range(1, 300),
            2 => rng.range(300, 1500),
            _ => rng.range(1500, 3000),
        }
    };
    let burst = rng.chance(1, 3); // all clients at once
    for i in 0..nclients {
        if rng.chance(1, 25) {
            continue; // never connects
        }
        tl.push((if burst { 0 } else { delay(rng) }, Act::Connect(i)));
        let k = rng.below(3);
        for _ in 0..k {
            let text = rng.chance(1, 2);
            let k = rng.range(0, 6) as usize;
            let p = if text { ascii(rng, b'x', k + 1) } else { rng.bytes(k) };
            if rng.chance(1, 2) {
                let target = if rng.chance(1, 8) { 900 } else { rng.below(nclients as u64) as usize };
                tl.push((delay(rng), Act::Unicast(target, text, p)));
            } else {
                tl.push((delay(rng), Act::Broadcast(text, p)));
            }
        }
    }
    if rng.chance(1, 2) {
        // shuffle the external sends among the connects a little
        for i in (1..tl.len()).rev() {
            if rng.chance(1, 3) {
                tl.swap(i, i - 1);
            }
        }
    }
    Scn {
        threads,
        poll,
        hb,
        ca: rng.below(4) as u8,
        da: rng.below(2) as u8,
        ap: if hb.is_some() && rng.chance(3, 4) {
            // live clients answer the Pings: at once, or each at a place of its own frame stream
            if rng.chance(1, 2) { vec![1; nclients] } else { (0..nclients).map(|_| rng.below(7) as u8).collect() }
        } else {
            vec![0; nclients]
        },
        wait_gone: hb.is_some() && rng.chance(2, 3),
        hs: gen_hs(rng),
        sx: false,
        clients,
        tl,
    }
}


/* ---------------------------------------------------------------- who sends: every handler kind, inside and outside */

/// The sending dimension (drawn from a generator of its own, so that the scenarios stay what they were in
/// everything else): what the connect and disconnect handlers do (`ca` 0..15, `da` 0..31: through the stream they
/// are given and through an AsyncSender, unicast and broadcast, to live and to gone clients), whether the handlers
/// hold an AsyncSender at all (`sx`), and sends from outside AFTER the connects, while clients close, break or
/// time out (0..3 of them, up to a few poll intervals / one heartbeat timeout apart).
fn enrich(s: &mut Scn, rng: &mut Rng) {
    let n = s.clients.len();
    s.sx = rng.chance(2, 3);
    if rng.chance(2, 3) {
        s.ca = rng.below(16) as u8;
    }
    if rng.chance(2, 3) {
        s.da = rng.below(32) as u8;
    }
    if n > 64 {
        // a broadcast per connect or disconnect costs n frames each: unicasts only
        s.ca &= 1 | 8;
        s.da &= 2 | 8 | 16;
    }
    let late = s.hb.map(|(_, t)| t * 1000).unwrap_or(4000);
    for _ in 0..rng.below(4) {
        let d = match rng.below(4) {
            0 => 0,
            1 => rng.range(200, 1500),
            2 => rng.range(1500, 5000),
            _ => rng.range(late / 2, late + late / 2),
        };
        let text = rng.chance(1, 2);
        let k = rng.range(0, 6) as usize;
        let p = if text { ascii(rng, b'x', k + 1) } else { rng.bytes(k) };
        if rng.chance(1, 2) {
            let target = if n == 0 || rng.chance(1, 8) { 900 + n } else { rng.below(n as u64) as usize };
            s.tl.push((d, Act::Unicast(target, text, p)));
        } else {
            s.tl.push((d, Act::Broadcast(text, p)));
        }
    }
}

/// Sends written down: every handler kind issues unicasts and broadcasts through the stream it is given and through
/// an AsyncSender, with other clients connected at that moment - in particular the disconnect handler of a client
/// that closed (with / without status), broke (reserved opcode, cut frame, end of the connection) or timed out.
fn directed_senders() -> Vec<String> {
    let mut v: Vec<String> = Vec::new();
    // client 0 goes in one of these ways after one message; clients 1 and 2 stay for some 20 ms
    let stay = "T60,50xn,T60/40xn,T60,C";
    for end in ["T6161,C", "T6161,C03e8", "T6161,G", "T6161,R", "T6161"] {
        for da in [1, 2, 4, 8, 16, 31] {
            v.push(format!("t=2;p=500;h=-;ca=0;da={};ap=0;q=0;hs=cmd;sx=1;cl={}/{};tl=0:c0,0:c1,0:c2,6000:bT6c617465", da, end, stay));
        }
        // a disconnect handler only, one handler thread
        v.push(format!("t=1;p=1000;h=-;ca=0;da=31;ap=0;q=0;hs=d;sx=1;cl={}/{};tl=0:c0,0:c1,0:c2", end, stay));
    }
    // timed out (silent under a heartbeat) beside two clients that answer the Pings
    for da in [1, 2, 4, 8, 16, 31] {
        v.push(format!("t=2;p=500;h=1.8;ca=0;da={};ap=011;q=0;hs=cmd;sx=1;cl=100xn/T60,70xn,T60/60xn,T60,C;tl=0:c0,0:c1,0:c2", da));
    }
    v.push("t=1;p=500;h=2.6;ca=0;da=31;ap=011;q=0;hs=d;sx=1;cl=100xn/T60,70xn,T60/60xn,T60,C;tl=0:c0,0:c1,0:c2".into());
    // all clients go, one after the other: the later disconnect handlers have fewer and fewer to tell
    v.push("t=1;p=500;h=-;ca=0;da=5;ap=0;q=0;hs=cmd;sx=1;cl=T60,C/n,n,n,n,T60,G/8xn,R/12xn/20xn,C03e8;tl=0:c0,0:c1,0:c2,0:c3,0:c4".into());
    // the connect handler: through the stream and through the AsyncSender, to clients of the same batch (not yet
    // inserted / already inserted), of an earlier batch and to one that never connects
    for ca in [4, 8, 12, 15] {
        v.push(format!("t=2;p=1000;h=-;ca={};da=0;ap=0;q=0;hs=cmd;sx=1;cl=30xn,T60/30xn,T60/20xn,C/-;tl=0:c0,0:c1,3000:c2", ca));
        v.push(format!("t=1;p=200;h=-;ca={};da=0;ap=0;q=0;hs=c;sx=1;cl=30xn/30xn/20xn;tl=0:c0,800:c1,800:c2", ca));
    }
    // the message handler: 'd' = 4 mod 8 broadcast, 'e' = 5 mod 8 unicast to the next client, through the AsyncSender;
    // the next client connected, gone (client 2 closes first) and the sender itself (one client)
    v.push("t=2;p=500;h=-;ca=0;da=0;ap=0;q=0;hs=cmd;sx=1;cl=n,n,T6461,T6561,20xn/n,n,n,B6401,B6501,20xn,C/C;tl=0:c0,0:c1,0:c2".into());
    v.push("t=1;p=500;h=-;ca=1;da=1;ap=0;q=0;hs=m;sx=1;cl=T6561,T6461,T6361,n,n,C;tl=0:c0".into());
    // without an AsyncSender in the handlers the same payloads do nothing
    v.push("t=1;p=500;h=-;ca=12;da=28;ap=0;q=0;hs=cmd;cl=T6561,T6461,n,n,C/10xn;tl=0:c0,0:c1".into());
    v
}

/* ---------------------------------------------------------------- heartbeat-paced, many-client and long-run families */

/// Sizes and counts "well above small": around powers of two and typical limits.
const COUNTS_QUICK: &[usize] = &[100, 128, 255, 256, 257, 1000, 1024, 2048, 4096];
const COUNTS_THOROUGH: &[usize] = &[100, 127, 128, 129, 255, 256, 257, 511, 512, 513, 1000, 1023, 1024, 1025, 2048, 4096, 8192];

fn small_text(rng: &mut Rng, echo: bool, min: usize) -> Vec<u8> {
    // '`' = 96 = 0 mod 8: the handler does nothing; 'a' = 1 mod 8: echo
    let n = rng.range(min as u64, (min + 6) as u64) as usize;
    ascii(rng, if echo { b'a' } else { b'`' }, n)
}

/// A client that lives through several heartbeat timeouts: a unit of its frame stream repeated for
/// `mult/2` timeouts, one unit every `period` µs (the app sleeps `poll` µs per iteration; `n` = one iteration in
/// which nothing arrives). Where its Pongs go is the policy `ap` (answers to the server's Pings, placed by the
/// socket) or, for `ap` = 0, the unit itself (unsolicited Pongs at fixed places; or none at all: a silent client).
fn hb_client(rng: &mut Rng, ap: u8, poll: u64, interval_ms: u64, timeout_ms: u64) -> Vec<It> {
    let late = rng.chance(1, 10);
    let period = if late {
        // Pongs further apart than the timeout: such a client IS timed out
        timeout_ms * 1250
    } else {
        *rng.pick(&[interval_ms * 500, interval_ms * 1000, interval_ms * 2000, timeout_ms * 400])
    };
    let g = ((period / poll.max(1)).max(2) - 1) as usize;
    let frag = |rng: &mut Rng, pong: bool| -> It {
        let k = rng.range(2, 4) as usize;
        let echo = rng.chance(1, 4);
        It::Msg { text: rng.chance(3, 4), frags: k, ping: false, pong, payload: small_text(rng, echo, k) }
    };
    let whole = |rng: &mut Rng| -> It {
        let echo = rng.chance(1, 4);
        It::Msg { text: rng.chance(3, 4), frags: 1, ping: false, pong: false, payload: small_text(rng, echo, 1) }
    };
    let mut unit: Vec<It> = match ap {
        0 => match rng.below(8) {
            0 => vec![],                              // silent
            1 => vec![It::Pong],                      // alone
            2 => vec![It::Pong, whole(rng)],          // before a message
            3 | 4 => vec![frag(rng, true)],           // between the fragments
            5 => vec![whole(rng), It::Pong],          // after a message
            6 => vec![frag(rng, false), It::Pong],    // after the last fragment
            _ => vec![It::Pong, It::Pong, It::Pong],  // several in a row
        },
        1 | 6 => match rng.below(3) {
            0 => vec![],
            1 => vec![whole(rng)],
            _ => vec![frag(rng, false)],
        },
        3 | 4 => vec![frag(rng, false)],
        _ => {
            if rng.chance(1, 2) { vec![whole(rng)] } else { vec![frag(rng, false)] }
        }
    };
    for _ in 0..g {
        unit.push(It::NotYet);
    }
    let mult = *rng.pick(&[3u64, 5, 7]);
    let k = (mult * timeout_ms * 1000 / 2 / ((g as u64 + 1) * poll.max(1)) + 1) as usize;
    let mut v = vec![It::Rep(k, unit)];
    match rng.below(3) {
        0 => {}
        1 => v.push(It::Close(vec![])),
        _ => v.push(It::Close(vec![3, 232])),
    }
    v
}

fn gen_hb_scn(rng: &mut Rng, thorough: bool, nclients: usize) -> Scn {
    let poll = *rng.pick(&[200u64, 500, 1000, 2000]);
    let interval = *rng.pick(&[1u64, 2, 3, 5]);
    let timeout = if nclients > 8 {
        *rng.pick(&[6u64, 8, 10])
    } else if thorough && rng.chance(1, 40) {
        *rng.pick(&[64u64, 100, 250])
    } else {
        *rng.pick(&[4u64, 6, 8, 10, 16, 25, 40])
    };
    let ap: Vec<u8> = (0..nclients).map(|_| rng.below(7) as u8).collect();
    let clients: Vec<Vec<It>> = ap.iter().map(|a| hb_client(rng, *a, poll, interval, timeout)).collect();
    let burst = rng.chance(1, 2);
    let mut tl: Vec<(u64, Act)> = Vec::new();
    for i in 0..nclients {
        tl.push((if burst { 0 } else { rng.range(0, 1500) }, Act::Connect(i)));
    }
    if rng.chance(1, 3) {
        tl.push((timeout * 500, Act::Broadcast(true, ascii(rng, b'x', 3))));
    }
    Scn {
        threads: if rng.chance(1, 3) { 1 } else { rng.range(1, 4) as usize },
        poll: Some(poll),
        hb: Some((interval, timeout)),
        ca: rng.below(4) as u8,
        da: rng.below(2) as u8,
        ap,
        wait_gone: rng.chance(1, 2),
        hs: gen_hs(rng),
        sx: false,
        clients,
        tl,
    }
}

/// MANY clients with short scripts: connected at once or in groups, broadcasts and unicasts from outside, a few
/// broadcasting handlers (every broadcast costs one frame per client).
fn gen_many_scn(rng: &mut Rng, nclients: usize, hb: bool) -> Scn {
    let few = |rng: &mut Rng| rng.chance(3, (nclients as u64).max(3));
    let clients: Vec<Vec<It>> = (0..nclients)
        .map(|_| {
            let mut v = Vec::new();
            for _ in 0..rng.below(4) {
                match rng.below(6) {
                    0 => v.push(It::NotYet),
                    1 => v.push(It::Ping(vec![])),
                    _ => {
                        // first byte: 1 echo, 2 broadcast (rare), 0 nothing
                        let first = if few(rng) { b'b' } else if rng.chance(1, 2) { b'a' } else { b'`' };
                        let frags = if rng.chance(1, 5) { 2 } else { 1 };
                        let n = rng.range(2, 5) as usize;
                        v.push(It::Msg { text: true, frags, ping: false, pong: false, payload: ascii(rng, first, n) });
                    }
                }
            }
            match rng.below(if hb { 5 } else { 8 }) {
                0 | 1 => {}
                2 => v.push(It::Garbage),
                _ => v.push(It::Close(if rng.chance(1, 2) { vec![3, 232] } else { vec![] })),
            }
            v
        })
        .collect();
    let mut tl: Vec<(u64, Act)> = Vec::new();
    let group = *rng.pick(&[1usize, 7, 64, 100_000]);
    for i in 0..nclients {
        tl.push((if i % group == 0 && i > 0 { rng.range(100, 1500) } else { 0 }, Act::Connect(i)));
        if few(rng) {
            if rng.chance(1, 2) {
                let target = if rng.chance(1, 6) { 20000 } else { rng.below(nclients as u64) as usize };
                tl.push((0, Act::Unicast(target, true, ascii(rng, b'x', 3))));
            } else {
                tl.push((0, Act::Broadcast(rng.chance(1, 2), ascii(rng, b'x', 2))));
            }
        }
    }
    tl.push((rng.range(0, 2000), Act::Broadcast(true, ascii(rng, b'x', 4))));
    Scn {
        threads: *rng.pick(&[1usize, 2, 8]),
        poll: *rng.pick(&[None, Some(0), Some(500), Some(2000)]),
        hb: if hb { Some((rng.range(1, 3), rng.range(10, 25))) } else { None },
        // the connect handler greets; it broadcasts only when that stays affordable (n frames per client)
        ca: if nclients <= 64 { rng.below(4) as u8 } else { rng.below(2) as u8 },
        da: if nclients <= 64 { rng.below(2) as u8 } else { 0 },
        ap: if hb { (0..nclients).map(|_| rng.below(7) as u8).collect() } else { vec![0; nclients] },
        wait_gone: hb && rng.chance(1, 2),
        hs: gen_hs(rng),
        sx: false,
        clients,
        tl,
    }
}

/// LONG runs: one to three clients; `count` messages, each in an iteration of its own (`per_poll` = 1) or many of
/// them available in one poll, or `count` iterations in which nothing but the heartbeat happens.
fn gen_long_scn(rng: &mut Rng, count: usize, kind: u64) -> Scn {
    let nclients = rng.range(1, 3) as usize;
    let hb = kind == 2 || rng.chance(1, 4);
    let clients: Vec<Vec<It>> = (0..nclients)
        .map(|c| {
            let n = if c == 0 { count } else { count / 8 + 1 };
            let echo = rng.chance(1, 3);
            let m = It::Msg { text: rng.chance(1, 2), frags: 1, ping: false, pong: false, payload: small_text(rng, echo, 1) };
            let f = It::Msg { text: true, frags: 2, ping: false, pong: rng.chance(1, 2), payload: small_text(rng, false, 2) };
            let mut v = match kind {
                // one message per iteration
                0 => vec![It::Rep(n, vec![m, It::NotYet])],
                // all of them available in one poll (every 16th fragmented)
                1 => vec![It::Rep(n / 16 + 1, vec![m.clone(), m.clone(), m.clone(), f, m.clone(), m.clone(), m.clone(), m.clone(), m.clone(), m.clone(), m.clone(), m.clone(), m.clone(), m.clone(), m.clone(), m])],
                // iterations in which nothing arrives
                _ => vec![It::Rep(n, vec![It::NotYet]), m],
            };
            if rng.chance(1, 2) {
                v.push(It::Close(vec![]));
            }
            v
        })
        .collect();
    let mut tl: Vec<(u64, Act)> = (0..nclients).map(|i| (0, Act::Connect(i))).collect();
    tl.push((300, Act::Broadcast(true, ascii(rng, b'x', 3))));
    Scn {
        threads: *rng.pick(&[1usize, 1, 4]),
        poll: if kind == 2 { Some(*rng.pick(&[0u64, 10, 50])) } else { *rng.pick(&[None, Some(0), Some(10)]) },
        hb: if hb { Some((rng.range(1, 3), *rng.pick(&[8u64, 16, 25]))) } else { None },
        ca: rng.below(2) as u8,
        da: 0,
        ap: if hb { (0..nclients).map(|_| *rng.pick(&[1u8, 1, 2, 3, 5, 6])).collect() } else { vec![0; nclients] },
        wait_gone: false,
        hs: if rng.chance(1, 2) { HS_ALL } else { gen_hs(rng) },
        sx: false,
        clients,
        tl,
    }
}

/// Heartbeat situations written down: one client per place at which a Pong can stand in a frame stream, each
/// living through several timeouts; silent clients; a client whose Pongs come too late.
fn directed_heartbeat() -> Vec<String> {
    let mut v: Vec<String> = Vec::new();
    // answers to the server's Pings, placed by the socket: ap = 1 at once, 2 before the next message, 3 after the
    // first fragment, 4 before the final fragment, 5 after the last frame of a message, 6 three at once
    for (ap, unit) in [(1, "n+n+n"), (1, "T6061+n+n"), (2, "T6061+n+n"), (2, "f3T606162+n+n"), (3, "f2T6061+n+n"), (3, "f4T60616263+n+n"), (4, "f3T606162+n+n"), (5, "T6061+n+n"), (5, "f2T6061+n+n"), (6, "f2T6161+n+n")] {
        v.push(format!("t=1;p=500;h=1.8;ca=0;da=1;ap={};q=0;hs=cmd;cl=40x{},C;tl=0:c0", ap, unit));
    }
    // unsolicited Pongs at fixed places of the stream (the client does not react to Pings)
    for unit in ["O+n+n+n", "O+T6061+n+n", "o2T6061+n+n", "o4T60616263+n+n", "T6061+O+n+n", "f2T6061+O+n+n", "O+O+O+n+n"] {
        v.push(format!("t=2;p=500;h=2.8;ca=1;da=1;ap=0;q=0;hs=cmd;cl=40x{},C03e8;tl=0:c0", unit));
    }
    // silent clients (messages, but no Pong ever) are timed out after the timeout; a live one beside them is not
    v.push("t=1;p=500;h=1.8;ca=0;da=1;ap=0;q=1;hs=cmd;cl=60xn/60xT60+n/60xo2T6061+n;tl=0:c0,0:c1,0:c2".into());
    v.push("t=1;p=1000;h=2.10;ca=0;da=0;ap=030;q=1;hs=md;cl=40xf2T6061+n/40xf2T6061+n/40xT6061+n;tl=0:c0,0:c1,0:c2".into());
    // Pongs further apart than the timeout
    v.push("t=1;p=500;h=1.6;ca=0;da=1;ap=0;q=0;hs=cmd;cl=6xo2T6061+n+n+n+n+n+n+n+n+n+n+n+n+n+n+n+n+n+n+n+n;tl=0:c0".into());
    v
}

/// Scenarios written down for the situations the property text singles out.
fn directed() -> Vec<String> {
    vec![
        // shutdown as the first thing the loop sees
        "t=1;p=1000;h=-;ca=0;da=0;ap=0;q=0;cl=-;tl=-".into(),
        // one client, three messages in one poll interval, echo, close
        "t=1;p=1000;h=-;ca=1;da=1;ap=0;q=0;cl=T6131,T6132,B01ff,C03e8;tl=0:c0".into(),
        // a unicast queued for a client that closes in the same iteration (echo of its last message)
        "t=1;p=5000;h=-;ca=0;da=0;ap=0;q=0;cl=T6161,C;tl=0:c0".into(),
        // a broadcast from the connect handler while the second client of the same batch is not yet inserted
        "t=4;p=2000;h=-;ca=2;da=0;ap=0;q=0;cl=T60/T60/T60;tl=0:c0,0:c1,0:c2".into(),
        // messages already available from a stream admitted in this iteration
        "t=2;p=10000;h=-;ca=3;da=1;ap=0;q=0;cl=T6261,T6362,C/n,n,T62;tl=0:c0,0:c1,100:bT78,100:u1:T79,0:u900:T7a".into(),
        // Err other than close: reserved opcode, truncated frame
        "t=3;p=500;h=-;ca=0;da=1;ap=0;q=0;cl=T61,G/B02,R/T60;tl=0:c0,200:c1,200:c2".into(),
        // abrupt EOF with heartbeat: timed out; a live client answers pings
        "t=2;p=1000;h=2.15;ca=1;da=1;ap=1;q=1;cl=T61/n,n,n,n,n,n,n,n,n,n,n,n,n,n,n,n,n,n,n,n,n,n,n,n,T62,C;tl=0:c0,0:c1".into(),
        // fragmented messages with a ping in between, several per poll
        "t=1;p=2000;h=-;ca=0;da=0;ap=0;q=0;cl=g3T616263646566,f2B0102,T63,n,f4T67,C03e8;tl=0:c0,500:bB00".into(),
        // shutdown while handlers are queued (slow handlers, one thread)
        "t=1;p=0;h=-;ca=0;da=0;ap=0;q=0;cl=T67,T67,T67,T67,T67,T67,T67,T67;tl=0:c0".into(),
        // eight clients, eight threads, no sleep at all
        "t=8;p=none;h=-;ca=3;da=1;ap=0;q=0;cl=T61,C/T62,C/T63,C/T66,C/B01,C/B02,C/B03/T60;tl=0:c0,0:c1,0:c2,0:c3,0:c4,0:c5,0:c6,0:c7,0:bT7a".into(),
    ]
    .into_iter()
    .chain(directed_handlers())
    .chain(directed_heartbeat())
    .chain(directed_senders())
    .collect()
}

/// The handlers are optional: the same situations on apps that register only some of them (`hs=`). Whatever is
/// registered, a client that closes / breaks / times out must leave the table, and later broadcasts, unicasts
/// and pings must pass it by.
fn directed_handlers() -> Vec<String> {
    let mut v: Vec<String> = Vec::new();
    // a client closes, another stays; afterwards a broadcast, a unicast to the closed one and one to the other
    for hs in ["m", "-", "cm", "c", "d", "md", "cd", "cmd"] {
        v.push(format!(
            "t=2;p=1000;h=-;ca=1;da=1;ap=0;q=0;hs={};cl=T6161,C03e8/T6162,n,n,n,n,n,n,n,n,n,n,n,n,T60;tl=0:c0,0:c1,4000:bT6e657773,0:u0:T78,0:u1:T79",
            hs
        ));
    }
    // Err other than Close (reserved opcode, truncated frame, abrupt EOF) without a disconnect handler
    v.push("t=3;p=500;h=-;ca=0;da=1;ap=0;q=0;hs=cm;cl=T61,G/B02,R/T60/T63;tl=0:c0,200:c1,200:c2,0:c3,3000:bB00,0:u0:T7a,0:u1:T7a".into());
    // heartbeat: a client at EOF times out and is removed, a live one keeps answering pings; nobody is told
    v.push("t=2;p=1000;h=2.15;ca=1;da=1;ap=1;q=1;hs=m;cl=T61/n,n,n,n,n,n,n,n,n,n,n,n,n,n,n,n,n,n,n,n,n,n,n,n,n,n,n,n,n,n,T62,C;tl=0:c0,0:c1,25000:bT70".into());
    v.push("t=1;p=500;h=1.12;ca=0;da=0;ap=0;q=1;hs=-;cl=-/T61;tl=0:c0,0:c1,20000:bB01,0:u0:T7a".into());
    // no message handler: messages are received and dropped, the Close still removes the client
    v.push("t=1;p=2000;h=-;ca=3;da=1;ap=0;q=0;hs=cd;cl=T6161,f3T626364656667,C/T6262;tl=0:c0,0:c1,3000:bT78".into());
    v
}

pub fn gen(out: &mut Out, thorough: bool, seed: u64) {
    let mut rng = Rng::new(seed ^ 0xC12);
    let mut jobs: Vec<(String, String)> = directed().into_iter().map(|s| ("app".to_string(), s)).collect();
    let n = if thorough { 20000 } else { 1500 };
    for _ in 0..n {
        jobs.push(("app".into(), scn_text(&gen_scn(&mut rng))));
    }
    // heartbeat-paced clients, many clients, long runs (generators of their own: the random scenarios above stay
    // what they were)
    let mut rng2 = Rng::new(seed ^ 0xC12_0B);
    let (n_hb, n_hb_many) = if thorough { (2500, 40) } else { (220, 4) };
    for _ in 0..n_hb {
        let k = rng2.range(1, 4) as usize;
        jobs.push(("app".into(), scn_text(&gen_hb_scn(&mut rng2, thorough, k))));
    }
    for i in 0..n_hb_many {
        jobs.push(("app".into(), scn_text(&gen_hb_scn(&mut rng2, thorough, if i % 4 == 3 { 200 } else { 50 }))));
    }
    let many: Vec<usize> = if thorough { vec![50, 50, 64, 100, 128, 200, 200, 255, 256, 257, 500, 1000] } else { vec![50, 200] };
    for (i, n) in many.iter().enumerate() {
        for hb in [false, true] {
            if *n > 300 && hb {
                continue;
            }
            let _ = i;
            jobs.push(("app".into(), scn_text(&gen_many_scn(&mut rng2, *n, hb))));
        }
    }
    let counts = if thorough { COUNTS_THOROUGH } else { COUNTS_QUICK };
    for (i, c) in counts.iter().enumerate() {
        for kind in 0..3u64 {
            // quick: every count once, the kinds in turn
            if !thorough && (i as u64) % 3 != kind {
                continue;
            }
            jobs.push(("app".into(), scn_text(&gen_long_scn(&mut rng2, *c, kind))));
        }
    }
    let n_new = jobs.len() - directed().len() - n;
    // who sends (a generator of its own again): the scenario kinds above with the sending dimension drawn
    let mut rng3 = Rng::new(seed ^ 0xC12_5E);
    let before = jobs.len();
    let (n_rand, n_paced) = if thorough { (6000, 600) } else { (450, 50) };
    for _ in 0..n_rand {
        let mut s = gen_scn(&mut rng3);
        enrich(&mut s, &mut rng3);
        jobs.push(("app".into(), scn_text(&s)));
    }
    for _ in 0..n_paced {
        let k = rng3.range(2, 4) as usize;
        let mut s = gen_hb_scn(&mut rng3, thorough, k);
        enrich(&mut s, &mut rng3);
        jobs.push(("app".into(), scn_text(&s)));
    }
    let many_s: Vec<usize> = if thorough { vec![50, 64, 100, 128, 200, 255, 256, 257, 500, 1000] } else { vec![50, 64, 200] };
    for n in many_s.iter() {
        for hb in [false, true] {
            if *n > 300 && hb {
                continue;
            }
            let mut s = gen_many_scn(&mut rng3, *n, hb);
            enrich(&mut s, &mut rng3);
            jobs.push(("app".into(), scn_text(&s)));
        }
    }
    for (i, c) in counts.iter().enumerate() {
        if thorough || i % 3 == 0 {
            let mut s = gen_long_scn(&mut rng3, *c, (i as u64) % 3);
            enrich(&mut s, &mut rng3);
            jobs.push(("app".into(), scn_text(&s)));
        }
    }
    let n_send = jobs.len() - before;
    let nreal = if thorough { 60 } else { 12 };
    for i in 0..nreal {
        let t = 1 + (i % 4) * 2;
        // the handlers registered: every other run all three, the others walk through the remaining subsets
        let hs = if i % 2 == 0 { HS_ALL } else { [HS_M, 0, HS_C | HS_M, HS_D, HS_C, HS_M | HS_D, HS_C | HS_D][(i / 2) % 7] };
        jobs.push((
            "real".into(),
            format!("t={};p={};n={};m={};hs={}", if i % 3 == 0 { 1 } else { t }, [1000, 0, 5000][i % 3], 1 + i % 4, 1 + i % 3, hs_text(hs)),
        ));
    }
    let wedges = AtomicU64::new(0);
    let max_wedges = 4;
    let par = std::thread::available_parallelism().map(|x| x.get()).unwrap_or(2).clamp(1, 6);
    // interleave so that every worker gets a mix
    let mut parts: Vec<Vec<(String, String)>> = vec![Vec::new(); par];
    for (i, j) in jobs.iter().enumerate() {
        parts[i % par].push(j.clone());
    }
    let mut results: Vec<Vec<(String, String, String)>> = Vec::new();
    std::thread::scope(|sc| {
        let hs: Vec<_> = parts.iter().map(|c| sc.spawn(|| run_batch(c, &wedges, max_wedges))).collect();
        for h in hs {
            results.push(h.join().unwrap_or_default());
        }
    });
    let mut done = 0;
    for (f, scn, o) in results.into_iter().flatten() {
        done += 1;
        let log = o.split('|').nth(1).unwrap_or("");
        let summary = o.split('|').next().unwrap_or("");
        out.count(&format!("kind={}", f));
        if let Some(s) = parse_scn(&scn) {
            out.count(&format!("clients={}", match s.clients.len() { n @ 0..=8 => n.to_string(), 9..=64 => "9-64".into(), 65..=256 => "65-256".into(), 257..=512 => "257-512".into(), _ => ">512".into() }));
            out.count(&format!("handler_threads={}", s.threads));
            out.count(&format!(
                "poll_us={}",
                match s.poll {
                    None => "none".to_string(),
                    Some(p) if p > 2000 && p < 10000 => "3000-6000".to_string(),
                    Some(p) => p.to_string(),
                }
            ));
            out.count(if s.hb.is_some() { "heartbeat_on" } else { "heartbeat_off" });
            if let Some((_, timeout)) = s.hb {
                out.count(&format!("heartbeat_timeout_ms={}", match timeout { 0..=9 => "<10", 10..=25 => "10-25", 26..=63 => "26-63", _ => ">=64" }));
                // where the clients' Pongs stand, and how long the clients were kept
                for (i, c) in s.clients.iter().enumerate() {
                    let ap = s.ap.get(i).copied().unwrap_or(0);
                    out.count(&format!("client_pong_policy={}", ["none", "at-once", "before-message", "after-first-fragment", "before-final-fragment", "after-message", "three-at-once"][ap.min(6) as usize]));
                    let flat: Vec<&It> = c.iter().flat_map(|i| match i { It::Rep(_, v) => v.iter().collect::<Vec<_>>(), x => vec![x] }).collect();
                    if flat.iter().any(|i| matches!(i, It::Msg { pong: true, .. })) {
                        out.count("clients_with_scripted_pong_between_fragments");
                    }
                    if flat.iter().any(|i| matches!(i, It::Pong)) {
                        out.count("clients_with_scripted_pong_outside_messages");
                    }
                }
                let hbf = o.split('|').nth(6).unwrap_or("");
                for part in hbf.split(';').filter(|p| !p.starts_with("w=")) {
                    let evs: Vec<&str> = part.split_once('=').map(|x| x.1.split('.').collect()).unwrap_or_default();
                    let num = |e: &str| -> u64 { e[1..].split('-').next().and_then(|x| x.parse().ok()).unwrap_or(0) };
                    let first = evs.first().map(|e| num(e)).unwrap_or(0);
                    let last = evs.last().map(|e| num(e)).unwrap_or(0);
                    let lived = (last - first.min(last)) / (timeout.max(1) * 1_000_000);
                    let pongs = evs.iter().filter(|e| e.starts_with('L')).count().saturating_sub(1);
                    if pongs > 0 {
                        out.count(&format!("client_with_pongs_kept_for_timeouts={}", match lived { 0 => "<1", 1 => "1", 2 => "2", _ => ">=3" }));
                    }
                    if evs.last().map(|e| e.starts_with('T')).unwrap_or(false) {
                        out.count(if pongs > 0 { "clients_timed_out_after_pongs" } else { "clients_timed_out_silent" });
                    }
                }
            }
            let longest: usize = s.clients.iter().map(|c| client_events(c).len()).max().unwrap_or(0);
            out.count(&format!("longest_client_stream_events={}", match longest { 0..=20 => "<=20", 21..=99 => "21-99", 100..=999 => "100-999", 1000..=9999 => "1000-9999", _ => ">=10000" }));
            out.count(&format!("handlers={}", hs_text(s.hs)));
        } else if let Some((_, _, _, _, hs)) = parse_real(&scn) {
            out.count(&format!("handlers={}", hs_text(hs)));
        }
        let toks: Vec<&str> = log.split(' ').collect();
        let has = |p: &dyn Fn(&str) -> bool| toks.iter().any(|t| p(t));
        if has(&|t| t.starts_with('t')) {
            out.count("runs_with_timeout_disconnect");
        }
        if has(&|t| t.starts_with('x')) {
            out.count("runs_with_removal");
            if !has(&|t| t.starts_with('d')) {
                out.count("runs_with_removal_without_disconnect_handler");
            }
        }
        if has(&|t| t.starts_with('r') && t.ends_with(":E1")) {
            out.count("runs_with_close");
        }
        if has(&|t| t.starts_with('r') && t.ends_with(":E0")) {
            out.count("runs_with_error_disconnect");
        }
        if has(&|t| t.starts_with('u') && t.contains(":0:")) {
            out.count("runs_with_unicast_to_absent");
        }
        if has(&|t| t.starts_with('u') && t.contains(":1:")) {
            out.count("runs_with_unicast_delivered");
        }
        if has(&|t| t.starts_with('b')) {
            out.count("runs_with_broadcast");
        }
        if has(&|t| t.starts_with('p')) {
            out.count("runs_with_ping");
        }
        // who issued what (8th field), and whether a gone client's disconnect handler told anybody
        let issued = o.split('|').nth(7).unwrap_or("");
        let mut told = false;
        let mut dead_stream_broadcast = false;
        for e in issued.split(' ').filter(|e| !e.is_empty()) {
            let f: Vec<&str> = e.splitn(3, ':').collect();
            if f.len() != 3 {
                continue;
            }
            let kind = match f[1].chars().next() {
                Some('c') => "connect-handler-stream",
                Some('m') => "message-handler-stream",
                Some('d') => "disconnect-handler-stream",
                Some('C') => "connect-handler-sender",
                Some('M') => "message-handler-sender",
                Some('D') => "disconnect-handler-sender",
                _ => "outside-sender",
            };
            let op = match f[2].chars().next() {
                Some('u') => "unicast",
                Some('b') => "broadcast",
                Some('U') => "unicast-panicked",
                _ => "broadcast-panicked",
            };
            out.count(&format!("issued={}:{}", kind, op));
            if f[2].starts_with('b') && (f[1].starts_with('d') || f[1].starts_with('D')) {
                if f[1].starts_with('d') {
                    dead_stream_broadcast = true;
                }
                let body = &f[2][1..];
                if toks.iter().any(|t| t.starts_with('b') && !t.starts_with("b:") && t.ends_with(body) && t[1..].split(':').nth(1) == Some(body)) {
                    told = true;
                    // how the client whose disconnect handler this is had gone
                    let a = &f[1][1..];
                    let how = if toks.iter().any(|t| t.strip_prefix('t') == Some(a)) {
                        "timed-out"
                    } else if toks.iter().any(|t| t.strip_prefix('r').and_then(|x| x.strip_suffix(":E1")) == Some(a)) {
                        "closed"
                    } else {
                        "broke"
                    };
                    out.count(&format!("disconnect_handler_broadcast_reached_connected_clients_after_client={}", how));
                }
            }
        }
        if dead_stream_broadcast {
            out.count("runs_with_broadcast_through_disconnected_stream");
        }
        if told {
            out.count("runs_with_disconnect_handler_broadcast_reaching_connected_clients");
        }
        // several messages of one client in one iteration
        let mut multi = false;
        let mut cnt = std::collections::HashMap::new();
        for t in &toks {
            if t.starts_with('I') {
                cnt.clear();
            } else if t.starts_with('m') {
                let a = t[1..].split(':').next().unwrap_or("");
                let e = cnt.entry(a.to_string()).or_insert(0);
                *e += 1;
                if *e >= 2 {
                    multi = true;
                }
            }
        }
        if multi {
            out.count("runs_with_several_messages_per_poll");
        }
        if summary.starts_with("WEDGED") {
            out.count("WEDGED");
        }
        let iters = toks.iter().filter(|t| t.starts_with('I')).count();
        out.count(&format!("iterations_logged={}", match iters { 0 => "0", 1..=5 => "1-5", 6..=20 => "6-20", 21..=100 => "21-100", 101..=999 => "101-999", _ => ">=1000" }));
        // at least one client was admitted (the connect dispatch `c<a>` exists only with a connect handler)
        let nontrivial = toks.iter().any(|t| t.starts_with('c') || t.starts_with('a'));
        out.case(&[&f, &scn], &o, nontrivial);
    }
    if done < jobs.len() {
        out.extra.insert("stopped_early".into(), format!("{} of {} scenarios run: {} wedged", done, jobs.len(), wedges.load(Ordering::SeqCst)));
    }
    out.extra.insert(
        "scenarios".into(),
        format!("{} ({} directed, {} random, {} heartbeat-paced / many-client / long-run, {} with the sending dimension drawn, {} real-socket)", jobs.len(), directed().len(), n, n_new, n_send, nreal),
    );
}
