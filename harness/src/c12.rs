//! C12: the REAL `humphrey_ws::AsyncWebsocketApp::run` on a helper thread, fed with scripted clients
//! (`WebsocketStream::new(Stream::Mock(..))` sent through `connect_hook()`; the socket is the C11 scripted
//! socket with a per-client peer address) or, in the `real` cases, with loopback TCP clients; handlers log
//! into a shared Vec and reply / broadcast through `AsyncStream`; an `AsyncSender` is used from the harness
//! thread; the run ends with the shutdown signal. The H4 tracer (`humphrey_ws::verif::app_event`) records
//! what the loop saw and did. Every scenario runs in a child process (`hv __c12child`) under a watchdog.
//!
//! Case line: `app <TAB> scenario <TAB> out`, `out = summary|h4log|execlog|frames|consumed|closed`.
//!
//! scenario = `t=<handler threads>;p=<poll µs or none>;h=<interval ms>.<timeout ms> or -;ca=<0..3>;da=<0..1>;`
//!            `ap=<0|1>;q=<0|1>;hs=<handlers>;cl=<client>/<client>/…;tl=<step>,<step>,…`
//!   handlers = the handlers registered on the app: a subset of the letters `c` (connect), `m` (message),
//!             `d` (disconnect), `-` for none. A scenario without `hs=` (older case lines) registers all three.
//!             An unregistered handler is simply not given to the builder; `ca` / `da` and the message
//!             handler's behaviour then have no effect.
//!   client  = items joined by `,` (`-` = none; the end of the list is the end of the connection = EOF):
//!             `T<hex>` / `B<hex>` text / binary message in one frame, `f<k>T<hex>` in k fragments,
//!             `g<k>T<hex>` in k fragments with a Ping and a pause after the first, `n` a moment at which
//!             nothing has arrived, `P<hex>` Ping, `O` Pong, `C<hex>` Close, `G` a frame with a reserved opcode,
//!             `R` a frame cut short by the end of the connection
//!   step    = `<µs to sleep first>:<action>`, action = `c<i>` client i's stream is handed to the app,
//!             `u<id>:T<hex>` / `u<id>:B<hex>` AsyncSender::send to client id (900 = nobody's address),
//!             `bT<hex>` / `bB<hex>` AsyncSender::broadcast
//!   ca: connect handler 0 nothing, 1 greets (unicast), 2 broadcasts, 3 both; da: disconnect handler 1 broadcasts;
//!   ap: live scripted clients answer the server's Pings; q: wait until every client is gone before shutdown.
//!   The message handler looks at the first payload byte modulo 8: 1 echo, 2 broadcast, 3 both, 6 two echoes,
//!   7 echo after 1 ms, else nothing.
//! h4log tokens (client id = port - 41000): `I<k1>.<k2>…` iteration start with the key order, `W0|W1` heartbeat
//!   decision, `r<a>:T<hex>|B<hex>|E0|E1|N` receive result, `m<a>:T<hex>` `d<a>` `c<a>` handler dispatch,
//!   `x<a>` removed, `t<a>` timed out, `p<a>` ping, `a<a>:<0|1>` admitted (1: address already present),
//!   `u<a>:<0|1>:T<hex>` unicast taken (1: addressee present), `b<a1>.<a2>…:T<hex>` broadcast taken with its
//!   recipients, `S` shutdown seen, `X` loop left, `*<n>` the preceding iteration (which saw and did nothing)
//!   happened n more times.
//! execlog: `c<a>` / `m<a>:T<hex>` / `d<a>` in the order in which the handlers started to run.
//! frames: `<id>=<hex of write 1>.<hex of write 2>…` joined by `,`; consumed: ids whose script was read to its end;
//! closed: ids whose scripted socket was closed (the stream dropped) before the loop was left.
//! summary: `returned;exec=<handler runs>;data=<data frames written>;pings=<ping frames written>` or `WEDGED`.
use crate::c11::Ev;
use crate::common::*;
use humphrey::stream::{MockIo, Stream};
use humphrey_ws::async_app::{AsyncSender, AsyncStream, AsyncWebsocketApp};
use humphrey_ws::message::Message;
use humphrey_ws::ping::Heartbeat;
use humphrey_ws::stream::WebsocketStream;
use humphrey_ws::verif::{install_app_sink, remove_app_sink, AppEvent, RecvSummary};
use std::collections::{HashSet, VecDeque};
use std::io::{BufRead, Error, ErrorKind, Read, Write};
use std::net::SocketAddr;
use std::sync::atomic::{AtomicBool, AtomicU64, Ordering};
use std::sync::mpsc::channel;
use std::sync::{Arc, Mutex};
use std::time::{Duration, Instant};

const WATCHDOG: Duration = Duration::from_millis(4000);
const BASE_PORT: u16 = 41000;

/* ---------------------------------------------------------------- the scripted socket (C11's, with an address) */

#[derive(Default)]
pub struct SockShared {
    pub writes: Vec<Vec<u8>>,
    pub left: usize,
    /// the socket was closed (dropped by its owner) while the loop was still running
    pub closed_in_loop: bool,
}

/// Set by the tracer when the loop is left (`LoopExit`), cleared when a run starts.
static LOOP_LEFT: AtomicBool = AtomicBool::new(false);

impl Drop for Sock {
    fn drop(&mut self) {
        if !LOOP_LEFT.load(Ordering::SeqCst) {
            if let Ok(mut sh) = self.shared.lock() {
                sh.closed_in_loop = true;
            }
        }
    }
}

pub struct Sock {
    evs: VecDeque<Ev>,
    off: usize,
    nonblocking: AtomicBool,
    addr: SocketAddr,
    autopong: bool,
    shared: Arc<Mutex<SockShared>>,
}

impl Sock {
    fn new(evs: Vec<Ev>, id: usize, autopong: bool) -> (Sock, Arc<Mutex<SockShared>>) {
        let shared = Arc::new(Mutex::new(SockShared { writes: Vec::new(), left: evs.len(), closed_in_loop: false }));
        let addr: SocketAddr = format!("127.0.0.1:{}", BASE_PORT as usize + id).parse().unwrap();
        (Sock { evs: evs.into(), off: 0, nonblocking: AtomicBool::new(false), addr, autopong, shared: shared.clone() }, shared)
    }
}

impl Read for Sock {
    fn read(&mut self, buf: &mut [u8]) -> std::io::Result<usize> {
        loop {
            let r = match self.evs.front() {
                None => Some(Ok(0)),
                Some(Ev::NotYet) => {
                    self.evs.pop_front();
                    if self.nonblocking.load(Ordering::SeqCst) {
                        Some(Err(Error::new(ErrorKind::WouldBlock, "nothing yet")))
                    } else {
                        None
                    }
                }
                Some(Ev::Data(d)) => {
                    let n = (d.len() - self.off).min(buf.len());
                    buf[..n].copy_from_slice(&d[self.off..self.off + n]);
                    self.off += n;
                    if self.off >= d.len() {
                        self.evs.pop_front();
                        self.off = 0;
                    }
                    Some(Ok(n))
                }
            };
            self.shared.lock().unwrap().left = self.evs.len();
            if let Some(r) = r {
                return r;
            }
        }
    }
}

impl Write for Sock {
    fn write(&mut self, buf: &[u8]) -> std::io::Result<usize> {
        let mut sh = self.shared.lock().unwrap();
        sh.writes.push(buf.to_vec());
        // a client that is still there answers a Ping (only between frames)
        if self.autopong && buf.first() == Some(&0x89) && self.off == 0 && !self.evs.is_empty() {
            self.evs.push_front(Ev::Data(cframe(true, 10, [9, 8, 7, 6], &[])));
            sh.left = self.evs.len();
        }
        Ok(buf.len())
    }
    fn flush(&mut self) -> std::io::Result<()> {
        Ok(())
    }
}

impl MockIo for Sock {
    fn peer_addr(&self) -> Result<SocketAddr, Error> {
        Ok(self.addr)
    }
    fn shutdown(&self) -> std::io::Result<()> {
        Ok(())
    }
    fn set_timeout(&self, _timeout: Option<Duration>) -> std::io::Result<()> {
        Ok(())
    }
    fn set_nonblocking(&self, nonblocking: bool) -> std::io::Result<()> {
        self.nonblocking.store(nonblocking, Ordering::SeqCst);
        Ok(())
    }
}

/// RFC 6455 section 5.2 octets of a client frame (the harness's own encoder).
fn cframe(fin: bool, opcode: u8, key: [u8; 4], payload: &[u8]) -> Vec<u8> {
    let mut v = Vec::with_capacity(payload.len() + 14);
    v.push((opcode & 0x0f) | if fin { 0x80 } else { 0 });
    let l = payload.len();
    if l <= 125 {
        v.push(0x80 | l as u8);
    } else if l <= 65535 {
        v.push(0x80 | 126);
        v.push((l >> 8) as u8);
        v.push(l as u8);
    } else {
        v.push(0x80 | 127);
        for i in (0..8).rev() {
            v.push(((l as u64) >> (8 * i)) as u8);
        }
    }
    v.extend_from_slice(&key);
    for (i, x) in payload.iter().enumerate() {
        v.push(x ^ key[i % 4]);
    }
    v
}

/* ---------------------------------------------------------------- scenarios */

#[derive(Clone, Debug)]
enum It {
    Msg { text: bool, frags: usize, ping: bool, payload: Vec<u8> },
    NotYet,
    Ping(Vec<u8>),
    Pong,
    Close(Vec<u8>),
    Garbage,
    Trunc,
}

#[derive(Clone, Debug)]
enum Act {
    Connect(usize),
    Unicast(usize, bool, Vec<u8>),
    Broadcast(bool, Vec<u8>),
}

#[derive(Clone, Debug)]
struct Scn {
    threads: usize,
    poll: Option<u64>,
    hb: Option<(u64, u64)>,
    ca: u8,
    da: u8,
    ap: bool,
    wait_gone: bool,
    /// the handlers registered on the app: bit 0 connect, bit 1 message, bit 2 disconnect
    hs: u8,
    clients: Vec<Vec<It>>,
    tl: Vec<(u64, Act)>,
}

const HS_C: u8 = 1;
const HS_M: u8 = 2;
const HS_D: u8 = 4;
const HS_ALL: u8 = 7;

fn hs_text(hs: u8) -> String {
    let mut t = String::new();
    if hs & HS_C != 0 {
        t.push('c');
    }
    if hs & HS_M != 0 {
        t.push('m');
    }
    if hs & HS_D != 0 {
        t.push('d');
    }
    if t.is_empty() {
        t.push('-');
    }
    t
}

fn parse_hs(v: &str) -> Option<u8> {
    let mut hs = 0;
    for c in v.chars() {
        match c {
            'c' => hs |= HS_C,
            'm' => hs |= HS_M,
            'd' => hs |= HS_D,
            '-' => {}
            _ => return None,
        }
    }
    Some(hs)
}

/// The generated dimension: all 8 subsets occur, half of the draws are the full set.
fn gen_hs(rng: &mut Rng) -> u8 {
    if rng.chance(1, 2) { HS_ALL } else { rng.below(8) as u8 }
}

fn tb(text: bool) -> char {
    if text { 'T' } else { 'B' }
}

fn it_text(i: &It) -> String {
    match i {
        It::Msg { text, frags, ping, payload } => {
            if *frags <= 1 {
                format!("{}{}", tb(*text), hex(payload))
            } else {
                format!("{}{}{}{}", if *ping { 'g' } else { 'f' }, frags, tb(*text), hex(payload))
            }
        }
        It::NotYet => "n".into(),
        It::Ping(p) => format!("P{}", hex(p)),
        It::Pong => "O".into(),
        It::Close(p) => format!("C{}", hex(p)),
        It::Garbage => "G".into(),
        It::Trunc => "R".into(),
    }
}

fn act_text(a: &Act) -> String {
    match a {
        Act::Connect(i) => format!("c{}", i),
        Act::Unicast(i, t, p) => format!("u{}:{}{}", i, tb(*t), hex(p)),
        Act::Broadcast(t, p) => format!("b{}{}", tb(*t), hex(p)),
    }
}

fn scn_text(s: &Scn) -> String {
    format!(
        "t={};p={};h={};ca={};da={};ap={};q={};hs={};cl={};tl={}",
        s.threads,
        s.poll.map(|x| x.to_string()).unwrap_or_else(|| "none".into()),
        s.hb.map(|(a, b)| format!("{}.{}", a, b)).unwrap_or_else(|| "-".into()),
        s.ca,
        s.da,
        s.ap as u8,
        s.wait_gone as u8,
        hs_text(s.hs),
        s.clients
            .iter()
            .map(|c| if c.is_empty() { "-".into() } else { c.iter().map(it_text).collect::<Vec<_>>().join(",") })
            .collect::<Vec<_>>()
            .join("/"),
        if s.tl.is_empty() { "-".into() } else { s.tl.iter().map(|(d, a)| format!("{}:{}", d, act_text(a))).collect::<Vec<_>>().join(",") }
    )
}

fn parse_tb(s: &str) -> Option<(bool, Vec<u8>)> {
    let t = match s.chars().next()? {
        'T' => true,
        'B' => false,
        _ => return None,
    };
    Some((t, unhex(&s[1..])))
}

fn parse_it(s: &str) -> Option<It> {
    let c = s.chars().next()?;
    match c {
        'T' | 'B' => {
            let (text, payload) = parse_tb(s)?;
            Some(It::Msg { text, frags: 1, ping: false, payload })
        }
        'f' | 'g' => {
            let pos = s[1..].find(|x: char| x == 'T' || x == 'B')? + 1;
            let frags: usize = s[1..pos].parse().ok()?;
            let (text, payload) = parse_tb(&s[pos..])?;
            Some(It::Msg { text, frags, ping: c == 'g', payload })
        }
        'n' => Some(It::NotYet),
        'P' => Some(It::Ping(unhex(&s[1..]))),
        'O' => Some(It::Pong),
        'C' => Some(It::Close(unhex(&s[1..]))),
        'G' => Some(It::Garbage),
        'R' => Some(It::Trunc),
        _ => None,
    }
}

fn parse_act(s: &str) -> Option<Act> {
    let c = s.chars().next()?;
    match c {
        'c' => Some(Act::Connect(s[1..].parse().ok()?)),
        'u' => {
            let (id, m) = s[1..].split_once(':')?;
            let (t, p) = parse_tb(m)?;
            Some(Act::Unicast(id.parse().ok()?, t, p))
        }
        'b' => {
            let (t, p) = parse_tb(&s[1..])?;
            Some(Act::Broadcast(t, p))
        }
        _ => None,
    }
}

fn parse_scn(s: &str) -> Option<Scn> {
    let mut kv = std::collections::HashMap::new();
    for part in s.split(';') {
        let (k, v) = part.split_once('=')?;
        kv.insert(k, v);
    }
    let clients = kv
        .get("cl")?
        .split('/')
        .map(|c| if c == "-" { Some(vec![]) } else { c.split(',').map(parse_it).collect::<Option<Vec<_>>>() })
        .collect::<Option<Vec<_>>>()?;
    let tl = match *kv.get("tl")? {
        "-" => vec![],
        t => t
            .split(',')
            .map(|st| {
                let (d, a) = st.split_once(':')?;
                Some((d.parse().ok()?, parse_act(a)?))
            })
            .collect::<Option<Vec<_>>>()?,
    };
    Some(Scn {
        threads: kv.get("t")?.parse().ok()?,
        poll: match *kv.get("p")? {
            "none" => None,
            x => Some(x.parse().ok()?),
        },
        hb: match *kv.get("h")? {
            "-" => None,
            x => {
                let (a, b) = x.split_once('.')?;
                Some((a.parse().ok()?, b.parse().ok()?))
            }
        },
        ca: kv.get("ca")?.parse().ok()?,
        da: kv.get("da")?.parse().ok()?,
        ap: *kv.get("ap")? == "1",
        wait_gone: *kv.get("q")? == "1",
        hs: match kv.get("hs") {
            None => HS_ALL,
            Some(v) => parse_hs(v)?,
        },
        clients,
        tl,
    })
}

/// The events of a client's socket.
fn client_events(items: &[It]) -> Vec<Ev> {
    let mut evs = Vec::new();
    for (n, it) in items.iter().enumerate() {
        let key = [(n as u8).wrapping_mul(17).wrapping_add(1), 0xa5, n as u8, 0x3c];
        match it {
            It::Msg { text, frags, ping, payload } => {
                let op = if *text { 1 } else { 2 };
                if *frags <= 1 {
                    evs.push(Ev::Data(cframe(true, op, key, payload)));
                } else {
                    let k = *frags;
                    let size = (payload.len() + k - 1) / k;
                    for j in 0..k {
                        let lo = (j * size).min(payload.len());
                        let hi = ((j + 1) * size).min(payload.len());
                        evs.push(Ev::Data(cframe(j == k - 1, if j == 0 { op } else { 0 }, key, &payload[lo..hi])));
                        if j == 0 && *ping {
                            evs.push(Ev::Data(cframe(true, 9, key, &[0x70])));
                            evs.push(Ev::NotYet);
                        }
                    }
                }
            }
            It::NotYet => evs.push(Ev::NotYet),
            It::Ping(p) => evs.push(Ev::Data(cframe(true, 9, key, p))),
            It::Pong => evs.push(Ev::Data(cframe(true, 10, key, &[]))),
            It::Close(p) => evs.push(Ev::Data(cframe(true, 8, key, p))),
            It::Garbage => evs.push(Ev::Data(vec![0x83, 0x00])),
            It::Trunc => evs.push(Ev::Data(vec![0x82, 0x85, 1, 2, 3, 4, 0x55])),
        }
    }
    evs
}

/* ---------------------------------------------------------------- the tracer */

fn id_of(a: &SocketAddr) -> usize {
    (a.port() as usize).wrapping_sub(BASE_PORT as usize) % 100000
}

fn ids(v: &[SocketAddr]) -> String {
    v.iter().map(|a| id_of(a).to_string()).collect::<Vec<_>>().join(".")
}

struct Trace {
    log: Vec<String>,
    cur: Vec<String>,
    cur_idle: bool,
    cur_quiet: bool,
    prev: Vec<String>,
    repeat: u64,
    quiet_iters: u64,
    /// consecutive iterations in which the loop saw or did something
    busy_streak: u64,
    /// messages received (whether or not a message handler exists)
    recv_msgs: u64,
    dispatched: u64,
    removed: HashSet<usize>,
    admitted: HashSet<usize>,
    exited: bool,
    /// the log grew beyond any sensible run: recording stopped
    overflow: bool,
}

static TRACE: Mutex<Option<Trace>> = Mutex::new(None);

impl Trace {
    fn new() -> Trace {
        Trace {
            log: Vec::new(),
            cur: Vec::new(),
            cur_idle: false,
            cur_quiet: false,
            prev: Vec::new(),
            repeat: 0,
            quiet_iters: 0,
            busy_streak: 0,
            recv_msgs: 0,
            dispatched: 0,
            removed: HashSet::new(),
            admitted: HashSet::new(),
            exited: false,
            overflow: false,
        }
    }
    /// The iteration collected in `cur` is over.
    fn close_iter(&mut self) {
        if self.cur.is_empty() {
            return;
        }
        if self.cur_quiet {
            self.quiet_iters += 1;
            self.busy_streak = 0;
        } else {
            self.quiet_iters = 0;
            self.busy_streak += 1;
        }
        if self.cur_idle && self.cur == self.prev {
            self.repeat += 1;
            self.cur.clear();
            return;
        }
        self.flush_repeat();
        self.log.extend(self.cur.iter().cloned());
        if self.cur_idle {
            // only an iteration that saw and did nothing can be folded into a repeat count
            self.prev = std::mem::take(&mut self.cur);
        } else {
            self.prev.clear();
            self.cur.clear();
        }
    }
    fn flush_repeat(&mut self) {
        if self.repeat > 0 {
            self.log.push(format!("*{}", self.repeat));
            self.repeat = 0;
        }
    }
    fn on(&mut self, ev: AppEvent) {
        use AppEvent::*;
        if self.log.len() + self.cur.len() > 60_000 {
            self.overflow = true;
            return;
        }
        let m = |t: bool, p: &[u8]| format!("{}{}", tb(t), hex(p));
        match ev {
            IterStart(keys) => {
                self.close_iter();
                self.cur_idle = true;
                self.cur_quiet = true;
                self.cur.push(format!("I{}", ids(&keys)));
            }
            ShutdownSeen => {
                self.close_iter();
                self.flush_repeat();
                self.log.push("S".into());
            }
            LoopExit => {
                self.close_iter();
                self.flush_repeat();
                self.log.push("X".into());
                self.exited = true;
                LOOP_LEFT.store(true, Ordering::SeqCst);
            }
            WillPing(b) => {
                if b {
                    self.cur_idle = false;
                }
                self.cur.push(format!("W{}", b as u8));
            }
            Recv(a, RecvSummary::None) => self.cur.push(format!("r{}:N", id_of(&a))),
            Recv(a, RecvSummary::Message(t, p)) => {
                self.busy();
                self.recv_msgs += 1;
                self.cur.push(format!("r{}:{}", id_of(&a), m(t, &p)));
            }
            Recv(a, RecvSummary::Err(closed)) => {
                self.busy();
                self.cur.push(format!("r{}:E{}", id_of(&a), closed as u8));
            }
            DispatchMessage(a, t, p) => {
                self.busy();
                self.dispatched += 1;
                self.cur.push(format!("m{}:{}", id_of(&a), m(t, &p)));
            }
            DispatchDisconnect(a) => {
                self.busy();
                self.dispatched += 1;
                self.cur.push(format!("d{}", id_of(&a)));
            }
            DispatchConnect(a) => {
                self.busy();
                self.dispatched += 1;
                self.cur.push(format!("c{}", id_of(&a)));
            }
            Removed(a) => {
                self.busy();
                self.removed.insert(id_of(&a));
                self.cur.push(format!("x{}", id_of(&a)));
            }
            TimedOut(a) => {
                self.busy();
                self.cur.push(format!("t{}", id_of(&a)));
            }
            Ping(a) => {
                self.cur_idle = false;
                self.cur.push(format!("p{}", id_of(&a)));
            }
            Admitted(a, present) => {
                self.busy();
                self.admitted.insert(id_of(&a));
                self.cur.push(format!("a{}:{}", id_of(&a), present as u8));
            }
            OutUnicast(a, present, t, p) => {
                self.busy();
                self.cur.push(format!("u{}:{}:{}", id_of(&a), present as u8, m(t, &p)));
            }
            OutBroadcast(rec, t, p) => {
                self.busy();
                self.cur.push(format!("b{}:{}", ids(&rec), m(t, &p)));
            }
        }
    }
    fn busy(&mut self) {
        self.cur_idle = false;
        self.cur_quiet = false;
    }
}

/* ---------------------------------------------------------------- handlers */

struct HState {
    log: Mutex<Vec<String>>,
    ca: u8,
    da: u8,
}

fn mk(text: bool, p: &[u8]) -> Message {
    if text { Message::new(p) } else { Message::new_binary(p) }
}

fn on_connect(stream: AsyncStream, state: Arc<HState>) {
    let id = id_of(&stream.peer_addr());
    state.log.lock().unwrap().push(format!("c{}", id));
    if state.ca & 1 == 1 {
        stream.send(Message::new(format!("hi{}", id)));
    }
    if state.ca & 2 == 2 {
        stream.broadcast(Message::new(format!("join{}", id)));
    }
}

fn on_disconnect(stream: AsyncStream, state: Arc<HState>) {
    let id = id_of(&stream.peer_addr());
    state.log.lock().unwrap().push(format!("d{}", id));
    if state.da == 1 {
        stream.broadcast(Message::new(format!("left{}", id)));
    }
}

fn on_message(stream: AsyncStream, message: Message, state: Arc<HState>) {
    let id = id_of(&stream.peer_addr());
    let p = message.bytes().to_vec();
    let t = message.is_text();
    state.log.lock().unwrap().push(format!("m{}:{}{}", id, tb(t), hex(&p)));
    match p.first().map(|b| b % 8) {
        Some(1) => stream.send(mk(t, &p)),
        Some(2) => stream.broadcast(mk(t, &p)),
        Some(3) => {
            stream.send(mk(t, &p));
            stream.broadcast(mk(t, &p));
        }
        Some(6) => {
            stream.send(mk(t, &p));
            stream.send(mk(!t, &p[1..]));
        }
        Some(7) => {
            std::thread::sleep(Duration::from_millis(1));
            stream.send(mk(t, &p));
        }
        _ => {}
    }
}

/* ---------------------------------------------------------------- one run */

fn with_trace<T>(f: impl FnOnce(&mut Trace) -> T) -> Option<T> {
    let mut g = TRACE.lock().unwrap_or_else(|e| e.into_inner());
    g.as_mut().map(f)
}

fn wait_until(cap: Duration, mut cond: impl FnMut() -> bool) -> bool {
    let t0 = Instant::now();
    loop {
        if cond() {
            return true;
        }
        if t0.elapsed() >= cap {
            return false;
        }
        std::thread::sleep(Duration::from_micros(200));
    }
}

pub struct RunOut {
    pub out: String,
    pub clean: bool,
}

fn opcode_class(w: &[u8]) -> u8 {
    w.first().map(|b| b & 0x0f).unwrap_or(255)
}

/// So many consecutive iterations that saw or did something, after all input has been consumed: the loop is
/// not going to come to rest (a correct loop has finitely much to do then: the handlers' sends, removals).
const RESTLESS: u64 = 400;

/// Run one scenario in this process (at most one unclean run per process).
fn run_scn(s: &Scn) -> RunOut {
    LOOP_LEFT.store(false, Ordering::SeqCst);
    *TRACE.lock().unwrap_or_else(|e| e.into_inner()) = Some(Trace::new());
    install_app_sink(Box::new(|_seq, ev| {
        if let Some(t) = TRACE.lock().unwrap_or_else(|e| e.into_inner()).as_mut() {
            t.on(ev)
        }
    }));
    let state = Arc::new(HState { log: Mutex::new(Vec::new()), ca: s.ca, da: s.da });
    let (shutdown_tx, shutdown_rx) = channel::<()>();
    let (hook_tx, hook_rx) = channel();
    let (done_tx, done_rx) = channel::<()>();
    let threads = s.threads;
    let poll = s.poll.map(Duration::from_micros);
    let hb = s.hb;
    let hs = s.hs;
    let st2 = state.clone();
    let helper = std::thread::Builder::new()
        .name("c12-app".into())
        .spawn(move || {
            let mut app: AsyncWebsocketApp<Arc<HState>> =
                AsyncWebsocketApp::new_unlinked_with_config(st2, threads).with_polling_interval(poll).with_shutdown(shutdown_rx);
            // only the handlers of the scenario are registered; the others stay `None`
            if hs & HS_C != 0 {
                app = app.with_connect_handler(|s: AsyncStream, st: Arc<Arc<HState>>| on_connect(s, (*st).clone()));
            }
            if hs & HS_D != 0 {
                app = app.with_disconnect_handler(|s: AsyncStream, st: Arc<Arc<HState>>| on_disconnect(s, (*st).clone()));
            }
            if hs & HS_M != 0 {
                app = app.with_message_handler(|s: AsyncStream, m: Message, st: Arc<Arc<HState>>| on_message(s, m, (*st).clone()));
            }
            if let Some((i, t)) = hb {
                app = app.with_heartbeat(Heartbeat::new(Duration::from_millis(i), Duration::from_millis(t)));
            }
            let _ = hook_tx.send((app.connect_hook().unwrap(), app.sender()));
            app.run();
            let _ = done_tx.send(());
        })
        .expect("spawn app thread");
    let (hook, sender): (_, AsyncSender) = match hook_rx.recv_timeout(WATCHDOG) {
        Ok(x) => x,
        Err(_) => return RunOut { out: "WEDGED|||||".into(), clean: false },
    };
    let mut socks: Vec<Option<Sock>> = Vec::new();
    let mut shared: Vec<Arc<Mutex<SockShared>>> = Vec::new();
    for (i, c) in s.clients.iter().enumerate() {
        let (sock, sh) = Sock::new(client_events(c), i, s.ap);
        socks.push(Some(sock));
        shared.push(sh);
    }
    let mut connected: Vec<usize> = Vec::new();
    let addr_of = |id: usize| -> SocketAddr { format!("127.0.0.1:{}", BASE_PORT as usize + id).parse().unwrap() };
    for (d, a) in &s.tl {
        if *d > 0 {
            std::thread::sleep(Duration::from_micros(*d));
        }
        match a {
            Act::Connect(i) => {
                if let Some(sock) = socks.get_mut(*i).and_then(|x| x.take()) {
                    let ws = WebsocketStream::new(Stream::Mock(Box::new(sock)));
                    let _ = hook.lock().unwrap().send(ws);
                    connected.push(*i);
                }
            }
            Act::Unicast(id, t, p) => sender.send(addr_of(*id), mk(*t, p)),
            Act::Broadcast(t, p) => sender.broadcast(mk(*t, p)),
        }
    }
    // let the app work until nothing moves any more
    with_trace(|t| t.quiet_iters = 0);
    let settled = |need_gone: bool| -> bool {
        let consumed = connected.iter().all(|i| shared[*i].lock().unwrap().left == 0);
        let execs = state.log.lock().unwrap().len() as u64;
        with_trace(|t| {
            let fed = consumed && connected.iter().all(|i| t.admitted.contains(i)) && t.dispatched == execs;
            t.overflow
                || fed && t.quiet_iters >= 2 && (!need_gone || connected.iter().all(|i| t.removed.contains(i)))
                // everything has been fed and the loop still finds something to do in every iteration: it will
                // not come to rest (the log shows why), waiting longer only makes the log longer
                || fed && t.busy_streak >= RESTLESS
        })
        .unwrap_or(true)
    };
    let gone_cap = s.hb.map(|(_, t)| t + 150).unwrap_or(0);
    if s.wait_gone && s.hb.is_some() {
        if !wait_until(Duration::from_millis(gone_cap.min(1500)), || settled(true)) {
            wait_until(Duration::from_millis(300), || settled(false));
        }
    } else {
        wait_until(Duration::from_millis(1500), || settled(false));
    }
    let _ = shutdown_tx.send(());
    let returned = done_rx.recv_timeout(WATCHDOG).is_ok();
    if returned {
        let _ = helper.join();
        // handlers still queued when the loop was left run now
        wait_until(Duration::from_millis(1000), || {
            let execs = state.log.lock().unwrap().len() as u64;
            with_trace(|t| t.dispatched == execs).unwrap_or(true)
        });
        std::thread::sleep(Duration::from_micros(300));
    }
    remove_app_sink();
    let overflow = with_trace(|t| t.overflow).unwrap_or(false);
    let log = {
        let mut g = TRACE.lock().unwrap_or_else(|e| e.into_inner());
        let l = g.as_ref().map(|t| t.log.join(" ")).unwrap_or_default();
        *g = None;
        l
    };
    if overflow {
        // the loop keeps doing something in every iteration: the log is useless beyond this point
        return RunOut { out: format!("OVERFLOW|{}||||", log.split(' ').take(400).collect::<Vec<_>>().join(" ")), clean: false };
    }
    let exec = state.log.lock().unwrap().clone();
    let mut frames = Vec::new();
    let mut data = 0usize;
    let mut pings = 0usize;
    let mut consumed = Vec::new();
    let mut closed = Vec::new();
    for (i, sh) in shared.iter().enumerate() {
        let sh = sh.lock().unwrap();
        if sh.closed_in_loop {
            closed.push(i.to_string());
        }
        if !sh.writes.is_empty() {
            frames.push(format!("{}={}", i, sh.writes.iter().map(|w| hex(w)).collect::<Vec<_>>().join(".")));
        }
        data += sh.writes.iter().filter(|w| matches!(opcode_class(w), 1 | 2)).count();
        pings += sh.writes.iter().filter(|w| opcode_class(w) == 9).count();
        if connected.contains(&i) && sh.left == 0 {
            consumed.push(i.to_string());
        }
    }
    let summary = if returned { format!("returned;exec={};data={};pings={}", exec.len(), data, pings) } else { "WEDGED".to_string() };
    RunOut {
        out: format!("{}|{}|{}|{}|{}|{}", summary, log, exec.join(" "), frames.join(","), consumed.join(","), closed.join(",")),
        clean: returned,
    }
}

/* ---------------------------------------------------------------- real sockets */

/// `real` scenario: `t=<threads>;p=<poll µs>;n=<clients>;m=<messages per client>[;hs=<handlers>]`: the internal
/// Humphrey app on a free loopback port, reference clients doing the HTTP upgrade and sending masked frames.
/// Clients read the greeting (if a connect handler is registered), send their messages (`<client><k>` as text;
/// first byte chosen so that the handler echoes), read the echoes (if a message handler is registered), then
/// every client but the last closes and reads the answering Close. Addresses are ephemeral ports.
fn run_real(threads: usize, poll: u64, n: usize, m: usize, hs: u8) -> RunOut {
    use std::net::{TcpListener, TcpStream};
    LOOP_LEFT.store(false, Ordering::SeqCst);
    *TRACE.lock().unwrap_or_else(|e| e.into_inner()) = Some(Trace::new());
    // a free port
    let port = match TcpListener::bind("127.0.0.1:0").and_then(|l| l.local_addr()) {
        Ok(a) => a.port(),
        Err(_) => return RunOut { out: "NOPORT|||||".into(), clean: true },
    };
    // ids: the clients' local ports are not known in advance, so the log uses `port - BASE_PORT` as they come;
    // the harness rewrites them to 0..n-1 afterwards
    install_app_sink(Box::new(|_seq, ev| {
        if let Some(t) = TRACE.lock().unwrap_or_else(|e| e.into_inner()).as_mut() {
            t.on(ev)
        }
    }));
    let state = Arc::new(HState { log: Mutex::new(Vec::new()), ca: 1, da: 0 });
    let (shutdown_tx, shutdown_rx) = channel::<()>();
    let (done_tx, done_rx) = channel::<()>();
    let st2 = state.clone();
    let helper = std::thread::Builder::new()
        .name("c12-real".into())
        .spawn(move || {
            let mut app: AsyncWebsocketApp<Arc<HState>> = AsyncWebsocketApp::new_with_config(st2, threads, 2)
                .with_address(("127.0.0.1", port))
                .with_polling_interval(Some(Duration::from_micros(poll)))
                .with_shutdown(shutdown_rx);
            if hs & HS_C != 0 {
                app = app.with_connect_handler(|s: AsyncStream, st: Arc<Arc<HState>>| on_connect(s, (*st).clone()));
            }
            if hs & HS_D != 0 {
                app = app.with_disconnect_handler(|s: AsyncStream, st: Arc<Arc<HState>>| on_disconnect(s, (*st).clone()));
            }
            if hs & HS_M != 0 {
                app = app.with_message_handler(|s: AsyncStream, m: Message, st: Arc<Arc<HState>>| on_message(s, m, (*st).clone()));
            }
            app.run();
            let _ = done_tx.send(());
        })
        .expect("spawn app thread");
    // reference clients
    fn read_frame(s: &mut TcpStream) -> Option<(u8, Vec<u8>)> {
        let mut h = [0u8; 2];
        s.read_exact(&mut h).ok()?;
        let mut len = (h[1] & 0x7f) as usize;
        if len == 126 {
            let mut b = [0u8; 2];
            s.read_exact(&mut b).ok()?;
            len = u16::from_be_bytes(b) as usize;
        } else if len == 127 {
            let mut b = [0u8; 8];
            s.read_exact(&mut b).ok()?;
            len = u64::from_be_bytes(b) as usize;
        }
        let mut p = vec![0u8; len];
        s.read_exact(&mut p).ok()?;
        Some((h[0], p))
    }
    let mut clients: Vec<(TcpStream, usize, Vec<Vec<u8>>)> = Vec::new(); // stream, local port id, raw frames read
    let mut ok = true;
    for i in 0..n {
        let mut st = None;
        for _ in 0..200 {
            match TcpStream::connect(("127.0.0.1", port)) {
                Ok(s) => {
                    st = Some(s);
                    break;
                }
                Err(_) => std::thread::sleep(Duration::from_millis(5)),
            }
        }
        let mut s = match st {
            Some(s) => s,
            None => {
                ok = false;
                break;
            }
        };
        let _ = s.set_read_timeout(Some(Duration::from_millis(1500)));
        let req = format!(
            "GET /c{} HTTP/1.1\r\nHost: localhost\r\nUpgrade: websocket\r\nConnection: Upgrade\r\nSec-WebSocket-Key: dGhlIHNhbXBsZSBub25jZQ==\r\nSec-WebSocket-Version: 13\r\n\r\n",
            i
        );
        if s.write_all(req.as_bytes()).is_err() {
            ok = false;
            break;
        }
        // response head
        let mut head = Vec::new();
        let mut b = [0u8; 1];
        while !head.ends_with(b"\r\n\r\n") {
            match s.read(&mut b) {
                Ok(1) => head.push(b[0]),
                _ => {
                    ok = false;
                    break;
                }
            }
        }
        if !ok || !head.starts_with(b"HTTP/1.1 101") {
            ok = false;
            break;
        }
        let lp = s.local_addr().map(|a| id_of(&a)).unwrap_or(0);
        clients.push((s, lp, Vec::new()));
    }
    if ok && hs & HS_C != 0 {
        // greeting (connect handler, ca = 1)
        for c in clients.iter_mut() {
            match read_frame(&mut c.0) {
                Some((h, p)) => c.2.push(raw(h, &p)),
                None => ok = false,
            }
        }
    }
    fn raw(h: u8, p: &[u8]) -> Vec<u8> {
        // re-encode as the server must have written it (unmasked, minimal length form)
        let mut v = vec![h];
        let l = p.len();
        if l <= 125 {
            v.push(l as u8);
        } else if l <= 65535 {
            v.push(126);
            v.extend_from_slice(&(l as u16).to_be_bytes());
        } else {
            v.push(127);
            v.extend_from_slice(&(l as u64).to_be_bytes());
        }
        v.extend_from_slice(p);
        v
    }
    if ok {
        for k in 0..m {
            for (i, c) in clients.iter_mut().enumerate() {
                // first byte 'a' = 97 = 1 mod 8: echoed
                let payload = format!("a{}-{}", i, k).into_bytes();
                if c.0.write_all(&cframe(true, 1, [k as u8, 7, i as u8, 99], &payload)).is_err() {
                    ok = false;
                }
            }
            if hs & HS_M != 0 {
                for c in clients.iter_mut() {
                    match read_frame(&mut c.0) {
                        Some((h, p)) => c.2.push(raw(h, &p)),
                        None => ok = false,
                    }
                }
            }
        }
        // every client but the last says goodbye and reads the answering Close
        let last = clients.len().saturating_sub(1);
        for (i, c) in clients.iter_mut().enumerate() {
            if i != last {
                let _ = c.0.write_all(&cframe(true, 8, [1, 2, 3, 4], &[3, 232]));
                if let Some((h, p)) = read_frame(&mut c.0) {
                    c.2.push(raw(h, &p));
                }
            }
        }
    }
    // handler runs expected, and what the loop itself must have seen by then (tracer), handlers or not
    let gone = n.saturating_sub(1);
    let want_c = if hs & HS_C != 0 { n } else { 0 };
    let want_m = if hs & HS_M != 0 { n * m } else { 0 };
    let want_d = if hs & HS_D != 0 { gone } else { 0 };
    let want = if ok { (want_c + want_m + want_d) as u64 } else { 0 };
    wait_until(Duration::from_millis(1500), || {
        let execs = state.log.lock().unwrap().len() as u64;
        with_trace(|t| {
            let fed = t.dispatched == execs
                && execs >= want
                && (!ok || t.admitted.len() >= n && t.recv_msgs >= (n * m) as u64 && t.removed.len() >= gone);
            fed && t.quiet_iters >= 2 || t.overflow || t.dispatched == execs && execs >= want && t.busy_streak >= RESTLESS
        })
        .unwrap_or(true)
    });
    let _ = shutdown_tx.send(());
    let returned = done_rx.recv_timeout(WATCHDOG).is_ok();
    if returned {
        let _ = helper.join();
        wait_until(Duration::from_millis(1000), || {
            let execs = state.log.lock().unwrap().len() as u64;
            with_trace(|t| t.dispatched == execs).unwrap_or(true)
        });
    }
    remove_app_sink();
    let log = {
        let mut g = TRACE.lock().unwrap_or_else(|e| e.into_inner());
        let l = g.as_ref().map(|t| t.log.join(" ")).unwrap_or_default();
        *g = None;
        l
    };
    // the last client is still connected: after `run` has returned its stream is dropped and a Close arrives
    let exec = state.log.lock().unwrap().clone();
    let mut frames = Vec::new();
    let mut data = 0;
    for (_, lp, fr) in clients.iter() {
        if !fr.is_empty() {
            frames.push(format!("{}={}", lp, fr.iter().map(|w| hex(w)).collect::<Vec<_>>().join(".")));
        }
        data += fr.iter().filter(|w| matches!(opcode_class(w), 1 | 2)).count();
    }
    let summary = if !ok {
        "CLIENT-FAILED".to_string()
    } else if returned {
        format!("returned;exec={};data={};pings=0", exec.len(), data)
    } else {
        "WEDGED".to_string()
    };
    // the port stays bound by the detached Humphrey app thread: one real run per process
    RunOut { out: format!("{}|{}|{}|{}||", summary, log, exec.join(" "), frames.join(",")), clean: false }
}

fn parse_real(s: &str) -> Option<(usize, u64, usize, usize, u8)> {
    let mut kv = std::collections::HashMap::new();
    for part in s.split(';') {
        let (k, v) = part.split_once('=')?;
        kv.insert(k, v);
    }
    let hs = match kv.get("hs") {
        None => HS_ALL,
        Some(v) => parse_hs(v)?,
    };
    Some((kv.get("t")?.parse().ok()?, kv.get("p")?.parse().ok()?, kv.get("n")?.parse().ok()?, kv.get("m")?.parse().ok()?, hs))
}

/* ---------------------------------------------------------------- child processes */

/// `hv __c12child`: read `<fn> <scenario>` lines from stdin, answer `<fn>\t<scenario>\t<out>` per line. Ends
/// (exit code 3) after the first run that may have left threads behind.
pub fn child() {
    std::panic::set_hook(Box::new(|_| {}));
    let stdin = std::io::stdin();
    let stdout = std::io::stdout();
    for line in stdin.lock().lines() {
        let line = match line {
            Ok(l) => l,
            Err(_) => break,
        };
        let (f, scn) = match line.split_once(' ') {
            Some(x) => x,
            None => continue,
        };
        let r = match f {
            "app" => match parse_scn(scn) {
                Some(s) => run_scn(&s),
                None => RunOut { out: "BADSCN|||||".into(), clean: true },
            },
            "real" => match parse_real(scn) {
                Some((t, p, n, m, hs)) => run_real(t, p, n, m, hs),
                None => RunOut { out: "BADSCN|||||".into(), clean: true },
            },
            _ => continue,
        };
        {
            let mut o = stdout.lock();
            let _ = writeln!(o, "{}\t{}\t{}", f, scn, r.out);
            let _ = o.flush();
        }
        if !r.clean {
            std::process::exit(3);
        }
    }
}

/// Run the jobs in child processes; a child that ends early is replaced and continues with the rest.
fn run_batch(jobs: &[(String, String)], wedges: &AtomicU64, max_wedges: u64) -> Vec<(String, String, String)> {
    let exe = std::env::current_exe().expect("current_exe");
    let mut res = Vec::new();
    let mut next = 0;
    while next < jobs.len() {
        if wedges.load(Ordering::SeqCst) >= max_wedges {
            break;
        }
        let mut ch = std::process::Command::new(&exe)
            .arg("__c12child")
            .stdin(std::process::Stdio::piped())
            .stdout(std::process::Stdio::piped())
            .stderr(std::process::Stdio::null())
            .spawn()
            .expect("spawn child");
        let si = ch.stdin.take().unwrap();
        let batch: Vec<(String, String)> = jobs[next..(next + 200).min(jobs.len())].to_vec();
        // the scenario lines may exceed the pipe buffer: write them from a thread of their own
        let writer = std::thread::spawn(move || {
            let mut si = si;
            for (f, s) in batch {
                if si.write_all(format!("{} {}\n", f, s).as_bytes()).is_err() {
                    break;
                }
            }
        });
        let so = ch.stdout.take().unwrap();
        let mut got = 0;
        for line in std::io::BufReader::new(so).lines() {
            let line = match line {
                Ok(l) => l,
                Err(_) => break,
            };
            let f: Vec<&str> = line.split('\t').collect();
            if f.len() != 3 {
                continue;
            }
            if f[2].starts_with("WEDGED") {
                wedges.fetch_add(1, Ordering::SeqCst);
            }
            res.push((f[0].to_string(), f[1].to_string(), f[2].to_string()));
            got += 1;
        }
        let _ = ch.wait();
        let _ = writer.join();
        if got == 0 {
            let (f, s) = &jobs[next];
            res.push((f.clone(), s.clone(), "CHILD-DIED|||||".into()));
            got = 1;
        }
        next += got;
    }
    res
}

pub fn exec(f: &[String]) -> Option<String> {
    match (f[0].as_str(), f.len()) {
        ("app", 2) | ("real", 2) => {
            let w = AtomicU64::new(0);
            let r = run_batch(&[(f[0].clone(), f[1].clone())], &w, 1);
            r.first().map(|x| x.2.clone())
        }
        _ => None,
    }
}

/* ---------------------------------------------------------------- generator */

fn ascii(rng: &mut Rng, first: u8, n: usize) -> Vec<u8> {
    let mut v = vec![first];
    for _ in 1..n.max(1) {
        v.push(b'a' + rng.below(26) as u8);
    }
    v
}

fn gen_payload(rng: &mut Rng, text: bool) -> Vec<u8> {
    let n = match rng.below(12) {
        0 => 0,
        1 => rng.range(126, 300) as usize,
        2 => rng.range(20, 125) as usize,
        _ => rng.range(1, 8) as usize,
    };
    if n == 0 {
        return vec![];
    }
    if text {
        // first byte decides what the handler does: '`'..'g' = 96..103 = 0..7 mod 8
        let first = b'`' + rng.below(8) as u8;
        ascii(rng, first, n)
    } else {
        let mut v = rng.bytes(n);
        v[0] = rng.below(256) as u8;
        v
    }
}

fn gen_client(rng: &mut Rng, hb: bool) -> Vec<It> {
    let mut v = Vec::new();
    let n = rng.range(0, 7);
    for _ in 0..n {
        match rng.below(14) {
            0 | 1 => v.push(It::NotYet),
            2 => {
                let k = rng.below(4) as usize;
                v.push(It::Ping(rng.bytes(k)))
            }
            3 => v.push(It::Pong),
            _ => {
                let text = rng.chance(2, 3);
                let payload = gen_payload(rng, text);
                let frags = if rng.chance(1, 4) { rng.range(2, 4) as usize } else { 1 };
                v.push(It::Msg { text, frags, ping: frags > 1 && rng.chance(1, 3), payload });
            }
        }
    }
    // the ending: Close, abrupt EOF, garbage, a truncated frame
    match rng.below(if hb { 6 } else { 10 }) {
        0 | 1 | 2 => {}
        3 => v.push(It::Garbage),
        4 => v.push(It::Trunc),
        _ => v.push(It::Close(if rng.chance(1, 2) { vec![3, 232] } else { vec![] })),
    }
    v
}

fn gen_scn(rng: &mut Rng) -> Scn {
    let nclients = match rng.below(6) {
        0 => 1,
        1 => 2,
        _ => rng.range(1, 8) as usize,
    };
    let threads = if rng.chance(1, 3) { 1 } else { rng.range(1, 8) as usize };
    let poll = match rng.below(8) {
        0 => None,
        1 => Some(0),
        2 => Some(100),
        3 => Some(500),
        4 => Some(1000),
        5 => Some(2000),
        6 => Some(rng.range(3000, 6000)),
        _ => Some(10000),
    };
    let hb = if rng.chance(1, 3) { Some((rng.range(1, 3), rng.range(10, 25))) } else { None };
    let clients: Vec<Vec<It>> = (0..nclients).map(|_| gen_client(rng, hb.is_some())).collect();
    let mut tl: Vec<(u64, Act)> = Vec::new();
    let delay = |rng: &mut Rng| -> u64 {
        match rng.below(4) {
            0 => 0,
            1 => rng.range(1, 300),
            2 => rng.range(300, 1500),
            _ => rng.range(1500, 3000),
        }
    };
    let burst = rng.chance(1, 3); // all clients at once
    for i in 0..nclients {
        if rng.chance(1, 25) {
            continue; // never connects
        }
        tl.push((if burst { 0 } else { delay(rng) }, Act::Connect(i)));
        let k = rng.below(3);
        for _ in 0..k {
            let text = rng.chance(1, 2);
            let k = rng.range(0, 6) as usize;
            let p = if text { ascii(rng, b'x', k + 1) } else { rng.bytes(k) };
            if rng.chance(1, 2) {
                let target = if rng.chance(1, 8) { 900 } else { rng.below(nclients as u64) as usize };
                tl.push((delay(rng), Act::Unicast(target, text, p)));
            } else {
                tl.push((delay(rng), Act::Broadcast(text, p)));
            }
        }
    }
    if rng.chance(1, 2) {
        // shuffle the external sends among the connects a little
        for i in (1..tl.len()).rev() {
            if rng.chance(1, 3) {
                tl.swap(i, i - 1);
            }
        }
    }
    Scn {
        threads,
        poll,
        hb,
        ca: rng.below(4) as u8,
        da: rng.below(2) as u8,
        ap: hb.is_some() && rng.chance(3, 4),
        wait_gone: hb.is_some() && rng.chance(2, 3),
        hs: gen_hs(rng),
        clients,
        tl,
    }
}

/// Scenarios written down for the situations the property text singles out.
fn directed() -> Vec<String> {
    vec![
        // shutdown as the first thing the loop sees
        "t=1;p=1000;h=-;ca=0;da=0;ap=0;q=0;cl=-;tl=-".into(),
        // one client, three messages in one poll interval, echo, close
        "t=1;p=1000;h=-;ca=1;da=1;ap=0;q=0;cl=T6131,T6132,B01ff,C03e8;tl=0:c0".into(),
        // a unicast queued for a client that closes in the same iteration (echo of its last message)
        "t=1;p=5000;h=-;ca=0;da=0;ap=0;q=0;cl=T6161,C;tl=0:c0".into(),
        // a broadcast from the connect handler while the second client of the same batch is not yet inserted
        "t=4;p=2000;h=-;ca=2;da=0;ap=0;q=0;cl=T60/T60/T60;tl=0:c0,0:c1,0:c2".into(),
        // messages already available from a stream admitted in this iteration
        "t=2;p=10000;h=-;ca=3;da=1;ap=0;q=0;cl=T6261,T6362,C/n,n,T62;tl=0:c0,0:c1,100:bT78,100:u1:T79,0:u900:T7a".into(),
        // Err other than close: reserved opcode, truncated frame
        "t=3;p=500;h=-;ca=0;da=1;ap=0;q=0;cl=T61,G/B02,R/T60;tl=0:c0,200:c1,200:c2".into(),
        // abrupt EOF with heartbeat: timed out; a live client answers pings
        "t=2;p=1000;h=2.15;ca=1;da=1;ap=1;q=1;cl=T61/n,n,n,n,n,n,n,n,n,n,n,n,n,n,n,n,n,n,n,n,n,n,n,n,T62,C;tl=0:c0,0:c1".into(),
        // fragmented messages with a ping in between, several per poll
        "t=1;p=2000;h=-;ca=0;da=0;ap=0;q=0;cl=g3T616263646566,f2B0102,T63,n,f4T67,C03e8;tl=0:c0,500:bB00".into(),
        // shutdown while handlers are queued (slow handlers, one thread)
        "t=1;p=0;h=-;ca=0;da=0;ap=0;q=0;cl=T67,T67,T67,T67,T67,T67,T67,T67;tl=0:c0".into(),
        // eight clients, eight threads, no sleep at all
        "t=8;p=none;h=-;ca=3;da=1;ap=0;q=0;cl=T61,C/T62,C/T63,C/T66,C/B01,C/B02,C/B03/T60;tl=0:c0,0:c1,0:c2,0:c3,0:c4,0:c5,0:c6,0:c7,0:bT7a".into(),
    ]
    .into_iter()
    .chain(directed_handlers())
    .collect()
}

/// The handlers are optional: the same situations on apps that register only some of them (`hs=`). Whatever is
/// registered, a client that closes / breaks / times out must leave the table, and later broadcasts, unicasts
/// and pings must pass it by.
fn directed_handlers() -> Vec<String> {
    let mut v: Vec<String> = Vec::new();
    // a client closes, another stays; afterwards a broadcast, a unicast to the closed one and one to the other
    for hs in ["m", "-", "cm", "c", "d", "md", "cd", "cmd"] {
        v.push(format!(
            "t=2;p=1000;h=-;ca=1;da=1;ap=0;q=0;hs={};cl=T6161,C03e8/T6162,n,n,n,n,n,n,n,n,n,n,n,n,T60;tl=0:c0,0:c1,4000:bT6e657773,0:u0:T78,0:u1:T79",
            hs
        ));
    }
    // Err other than Close (reserved opcode, truncated frame, abrupt EOF) without a disconnect handler
    v.push("t=3;p=500;h=-;ca=0;da=1;ap=0;q=0;hs=cm;cl=T61,G/B02,R/T60/T63;tl=0:c0,200:c1,200:c2,0:c3,3000:bB00,0:u0:T7a,0:u1:T7a".into());
    // heartbeat: a client at EOF times out and is removed, a live one keeps answering pings; nobody is told
    v.push("t=2;p=1000;h=2.15;ca=1;da=1;ap=1;q=1;hs=m;cl=T61/n,n,n,n,n,n,n,n,n,n,n,n,n,n,n,n,n,n,n,n,n,n,n,n,n,n,n,n,n,n,T62,C;tl=0:c0,0:c1,25000:bT70".into());
    v.push("t=1;p=500;h=1.12;ca=0;da=0;ap=0;q=1;hs=-;cl=-/T61;tl=0:c0,0:c1,20000:bB01,0:u0:T7a".into());
    // no message handler: messages are received and dropped, the Close still removes the client
    v.push("t=1;p=2000;h=-;ca=3;da=1;ap=0;q=0;hs=cd;cl=T6161,f3T626364656667,C/T6262;tl=0:c0,0:c1,3000:bT78".into());
    v
}

pub fn gen(out: &mut Out, thorough: bool, seed: u64) {
    let mut rng = Rng::new(seed ^ 0xC12);
    let mut jobs: Vec<(String, String)> = directed().into_iter().map(|s| ("app".to_string(), s)).collect();
    let n = if thorough { 20000 } else { 1500 };
    for _ in 0..n {
        jobs.push(("app".into(), scn_text(&gen_scn(&mut rng))));
    }
    let nreal = if thorough { 60 } else { 12 };
    for i in 0..nreal {
        let t = 1 + (i % 4) * 2;
        // the handlers registered: every other run all three, the others walk through the remaining subsets
        let hs = if i % 2 == 0 { HS_ALL } else { [HS_M, 0, HS_C | HS_M, HS_D, HS_C, HS_M | HS_D, HS_C | HS_D][(i / 2) % 7] };
        jobs.push((
            "real".into(),
            format!("t={};p={};n={};m={};hs={}", if i % 3 == 0 { 1 } else { t }, [1000, 0, 5000][i % 3], 1 + i % 4, 1 + i % 3, hs_text(hs)),
        ));
    }
    let wedges = AtomicU64::new(0);
    let max_wedges = 4;
    let par = std::thread::available_parallelism().map(|x| x.get()).unwrap_or(2).clamp(1, 6);
    // interleave so that every worker gets a mix
    let mut parts: Vec<Vec<(String, String)>> = vec![Vec::new(); par];
    for (i, j) in jobs.iter().enumerate() {
        parts[i % par].push(j.clone());
    }
    let mut results: Vec<Vec<(String, String, String)>> = Vec::new();
    std::thread::scope(|sc| {
        let hs: Vec<_> = parts.iter().map(|c| sc.spawn(|| run_batch(c, &wedges, max_wedges))).collect();
        for h in hs {
            results.push(h.join().unwrap_or_default());
        }
    });
    let mut done = 0;
    for (f, scn, o) in results.into_iter().flatten() {
        done += 1;
        let log = o.split('|').nth(1).unwrap_or("");
        let summary = o.split('|').next().unwrap_or("");
        out.count(&format!("kind={}", f));
        if let Some(s) = parse_scn(&scn) {
            out.count(&format!("clients={}", s.clients.len()));
            out.count(&format!("handler_threads={}", s.threads));
            out.count(&format!(
                "poll_us={}",
                match s.poll {
                    None => "none".to_string(),
                    Some(p) if p > 2000 && p < 10000 => "3000-6000".to_string(),
                    Some(p) => p.to_string(),
                }
            ));
            out.count(if s.hb.is_some() { "heartbeat_on" } else { "heartbeat_off" });
            out.count(&format!("handlers={}", hs_text(s.hs)));
        } else if let Some((_, _, _, _, hs)) = parse_real(&scn) {
            out.count(&format!("handlers={}", hs_text(hs)));
        }
        let toks: Vec<&str> = log.split(' ').collect();
        let has = |p: &dyn Fn(&str) -> bool| toks.iter().any(|t| p(t));
        if has(&|t| t.starts_with('t')) {
            out.count("runs_with_timeout_disconnect");
        }
        if has(&|t| t.starts_with('x')) {
            out.count("runs_with_removal");
            if !has(&|t| t.starts_with('d')) {
                out.count("runs_with_removal_without_disconnect_handler");
            }
        }
        if has(&|t| t.starts_with('r') && t.ends_with(":E1")) {
            out.count("runs_with_close");
        }
        if has(&|t| t.starts_with('r') && t.ends_with(":E0")) {
            out.count("runs_with_error_disconnect");
        }
        if has(&|t| t.starts_with('u') && t.contains(":0:")) {
            out.count("runs_with_unicast_to_absent");
        }
        if has(&|t| t.starts_with('u') && t.contains(":1:")) {
            out.count("runs_with_unicast_delivered");
        }
        if has(&|t| t.starts_with('b')) {
            out.count("runs_with_broadcast");
        }
        if has(&|t| t.starts_with('p')) {
            out.count("runs_with_ping");
        }
        // several messages of one client in one iteration
        let mut multi = false;
        let mut cnt = std::collections::HashMap::new();
        for t in &toks {
            if t.starts_with('I') {
                cnt.clear();
            } else if t.starts_with('m') {
                let a = t[1..].split(':').next().unwrap_or("");
                let e = cnt.entry(a.to_string()).or_insert(0);
                *e += 1;
                if *e >= 2 {
                    multi = true;
                }
            }
        }
        if multi {
            out.count("runs_with_several_messages_per_poll");
        }
        if summary.starts_with("WEDGED") {
            out.count("WEDGED");
        }
        let iters = toks.iter().filter(|t| t.starts_with('I')).count();
        out.count(&format!("iterations_logged={}", match iters { 0 => "0", 1..=5 => "1-5", 6..=20 => "6-20", 21..=100 => "21-100", _ => ">100" }));
        // at least one client was admitted (the connect dispatch `c<a>` exists only with a connect handler)
        let nontrivial = toks.iter().any(|t| t.starts_with('c') || t.starts_with('a'));
        out.case(&[&f, &scn], &o, nontrivial);
    }
    if done < jobs.len() {
        out.extra.insert("stopped_early".into(), format!("{} of {} scenarios run: {} wedged", done, jobs.len(), wedges.load(Ordering::SeqCst)));
    }
    out.extra.insert("scenarios".into(), format!("{} ({} directed, {} random, {} real-socket)", jobs.len(), directed().len(), n, nreal));
}
