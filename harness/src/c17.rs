//! C17: whole operation sequences against the real `AuthProvider<Vec<User>>` (clock = `VERIF_NOW`) and the
//! closure registered by `with_auth_route`, observed after every step.
//!
//! Real uids and tokens are random; they are renamed to small indices in order of first appearance
//! (`u0`, `t3`, …). The operation list handed to the Lean model carries, for every call that draws a uid or a
//! token, the index the drawn value received ("fresh here"). The format of the drawn values (token = 64
//! lower-case hex digits, uid = UUID v4, all distinct) is checked here and reported as the `#fmt=` suffix.
use crate::common::*;
use humphrey::http::address::Address;
use humphrey::http::headers::{HeaderType, Headers};
use humphrey::http::method::Method;
use humphrey::http::{Request, Response, StatusCode};
use humphrey::App;
use humphrey_auth::app::{AuthApp, AuthState};
use humphrey_auth::config::AuthConfig;
use humphrey_auth::error::AuthError;
use humphrey_auth::session::VERIF_NOW;
use humphrey_auth::user::User;
use humphrey_auth::AuthProvider;
use std::collections::{BTreeMap, HashSet};
use std::sync::atomic::Ordering;
use std::sync::{Arc, Mutex, MutexGuard};

struct HState {
    auth: Mutex<AuthProvider<Vec<User>>>,
}

impl AuthState<Vec<User>> for HState {
    fn auth_provider(&self) -> MutexGuard<AuthProvider<Vec<User>>> {
        // a panic inside a provider call (u64 overflow) must not wedge the rest of the sequence
        self.auth.lock().unwrap_or_else(|e| e.into_inner())
    }
}

#[derive(Clone, Debug, PartialEq)]
pub enum AOp {
    CreateUser(u64),             // password index
    RemoveUser(u64),             // uid index
    Verify(u64, u64),            // uid index, password index
    Exists(u64),
    CreateSession(u64),
    CreateSessionLifetime(u64, u64),
    Refresh(u64),                // token index
    Invalidate(u64),
    InvalidateUser(u64),
    GetUid(u64),
    AuthRoute(Option<u64>, u64), // cookie token index, header layout variant
    Tick(u64),
}

#[derive(Clone, Debug)]
pub struct Cfg {
    pepper: u64, // 0 = none
    dl: u64,
    rl: u64,
    now0: u64,
}

fn pepper_bytes(p: u64) -> Option<Vec<u8>> {
    if p == 0 { None } else { Some(format!("pepper-{}", p).into_bytes()) }
}

fn password(p: u64) -> String {
    match p {
        0 => "correct horse battery staple".into(),
        1 => "pässwörd-1".into(),
        n => format!("password-{}", n),
    }
}

fn err_name(e: &AuthError) -> &'static str {
    match e {
        AuthError::GenericError => "GenericError",
        AuthError::UserNotFound => "UserNotFound",
        AuthError::UserAlreadyExists => "UserAlreadyExists",
        AuthError::InvalidToken => "InvalidToken",
        AuthError::SessionAlreadyExists => "SessionAlreadyExists",
    }
}

fn token_format_ok(t: &str) -> bool {
    t.len() == 64 && t.bytes().all(|b| b.is_ascii_digit() || (b'a'..=b'f').contains(&b))
}

fn uid_format_ok(u: &str) -> bool {
    let b = u.as_bytes();
    b.len() == 36
        && b.iter().enumerate().all(|(i, c)| match i {
            8 | 13 | 18 | 23 => *c == b'-',
            _ => c.is_ascii_digit() || (b'a'..=b'f').contains(c),
        })
        && b[14] == b'4'
        && matches!(b[19], b'8' | b'9' | b'a' | b'b')
}

/// Pre-created users (Argon2 is ~30 ms per hash): `(user, password index)` per pepper.
pub struct Pool {
    users: BTreeMap<u64, Vec<(User, u64)>>,
}

const POOL_PW: [u64; 5] = [0, 1, 0, 2, 3];

impl Pool {
    fn new() -> Self {
        Pool { users: BTreeMap::new() }
    }
    fn get(&mut self, pepper: u64, k: usize) -> Vec<(User, u64)> {
        let v = self.users.entry(pepper).or_insert_with(|| {
            POOL_PW
                .iter()
                .map(|p| (User::create(password(*p), pepper_bytes(pepper).as_deref()).unwrap(), *p))
                .collect()
        });
        v[..k].to_vec()
    }
}

struct Runner {
    app: App<HState>,
    state: Arc<HState>,
    uids: Vec<String>,
    toks: Vec<String>,
    now: u64,
    fmt: Vec<String>,
    ops: Vec<String>,
    outs: Vec<String>,
    pub kinds: Vec<String>,
}

impl Runner {
    fn uid(&self, i: u64) -> String {
        match i {
            900 => String::new(),
            901 => "00000000-0000-4000-8000-000000000000".into(),
            902 => "nobody".into(),
            i if (i as usize) < self.uids.len() => self.uids[i as usize].clone(),
            i => format!("unknown-uid-{}", i),
        }
    }
    fn tok(&self, i: u64) -> String {
        match i {
            900 => String::new(),
            901 => "0".repeat(64),
            902 => "deadbeef".into(),
            903 => self.toks.first().map(|t| t.to_uppercase()).unwrap_or_else(|| "ABC".into()),
            i if (i as usize) < self.toks.len() => self.toks[i as usize].clone(),
            i => format!("unknown-token-{}", i),
        }
    }
    fn uid_index(&self, u: &str) -> String {
        match self.uids.iter().position(|x| x == u) {
            Some(i) => i.to_string(),
            None => "?".into(),
        }
    }
    fn observe(&self) -> String {
        let p = self.state.auth_provider();
        let mut p = p;
        let bits: String = self.uids.iter().map(|u| if p.exists(u) { '1' } else { '0' }).collect();
        let owners: Vec<String> = self
            .toks
            .iter()
            .map(|t| match p.get_uid_by_token(t) {
                Ok(u) => self.uid_index(&u),
                Err(_) => "-".into(),
            })
            .collect();
        format!("/{}/{}", bits, owners.join(","))
    }
    fn new_token(&mut self, t: String) -> String {
        if !token_format_ok(&t) {
            self.fmt.push(format!("token-format:{}", t));
        }
        match self.toks.iter().position(|x| *x == t) {
            Some(i) => {
                self.fmt.push(format!("token-repeated:t{}", i));
                format!("t{}", i)
            }
            None => {
                self.toks.push(t);
                format!("t{}", self.toks.len() - 1)
            }
        }
    }
    fn request(&self, cookie: Option<u64>, variant: u64) -> Request {
        let mut headers = Headers::new();
        headers.add(HeaderType::Host, "localhost");
        match cookie {
            Some(t) => {
                let tok = self.tok(t);
                let v = match variant % 3 {
                    0 => format!("HumphreyToken={}", tok),
                    1 => format!("theme=dark; HumphreyToken={}", tok),
                    _ => format!("HumphreyToken={}; lang=en", tok),
                };
                headers.add(HeaderType::Cookie, v);
            }
            None => {
                if variant % 2 == 1 {
                    headers.add(HeaderType::Cookie, "theme=dark; Token=abc");
                }
            }
        }
        Request {
            method: Method::Get,
            uri: "/auth".into(),
            query: String::new(),
            version: "HTTP/1.1".into(),
            headers,
            content: None,
            address: Address::new("127.0.0.1:4000").unwrap(),
        }
    }

    fn step(&mut self, op: &AOp) {
        let st = self.state.clone();
        let res = |r: Result<String, String>| r.unwrap_or_else(|_| "PANIC".into());
        let (code, opstr, out): (&str, String, String) = match op {
            AOp::Tick(d) => {
                self.now += d;
                VERIF_NOW.store(self.now, Ordering::SeqCst);
                ("tk", format!("tk:{}", d), "-".into())
            }
            AOp::CreateUser(p) => {
                let next = self.uids.len();
                let r = guarded(|| st.auth_provider().create_user(password(*p)));
                let out = match r {
                    Ok(Ok(uid)) => {
                        if !uid_format_ok(&uid) {
                            self.fmt.push(format!("uid-format:{}", uid));
                        }
                        match self.uids.iter().position(|x| *x == uid) {
                            Some(i) => {
                                self.fmt.push(format!("uid-repeated:u{}", i));
                                format!("u{}", i)
                            }
                            None => {
                                self.uids.push(uid);
                                format!("u{}", self.uids.len() - 1)
                            }
                        }
                    }
                    Ok(Err(e)) => format!("E:{}", err_name(&e)),
                    Err(_) => "PANIC".into(),
                };
                ("cu", format!("cu:{}:{}", p, next), out)
            }
            AOp::RemoveUser(u) => {
                let uid = self.uid(*u);
                let r = guarded(|| st.auth_provider().remove_user(&uid));
                ("ru", format!("ru:{}", u), res(r.map(|x| match x {
                    Ok(()) => "ok".into(),
                    Err(e) => format!("E:{}", err_name(&e)),
                })))
            }
            AOp::Verify(u, p) => {
                let uid = self.uid(*u);
                let r = guarded(|| st.auth_provider().verify(&uid, password(*p)));
                ("vf", format!("vf:{}:{}", u, p), res(r.map(|b| if b { "1".into() } else { "0".into() })))
            }
            AOp::Exists(u) => {
                let uid = self.uid(*u);
                let r = guarded(|| st.auth_provider().exists(&uid));
                ("ex", format!("ex:{}", u), res(r.map(|b| if b { "1".into() } else { "0".into() })))
            }
            AOp::CreateSession(u) | AOp::CreateSessionLifetime(u, _) => {
                let uid = self.uid(*u);
                let next = self.toks.len();
                let r = match op {
                    AOp::CreateSessionLifetime(_, l) => {
                        guarded(|| st.auth_provider().create_session_with_lifetime(&uid, *l))
                    }
                    _ => guarded(|| st.auth_provider().create_session(&uid)),
                };
                let out = match r {
                    Ok(Ok(t)) => self.new_token(t),
                    Ok(Err(e)) => format!("E:{}", err_name(&e)),
                    Err(_) => "PANIC".into(),
                };
                match op {
                    AOp::CreateSessionLifetime(_, l) => ("cl", format!("cl:{}:{}:{}", u, l, next), out),
                    _ => ("cs", format!("cs:{}:{}", u, next), out),
                }
            }
            AOp::Refresh(t) => {
                let tok = self.tok(*t);
                let r = guarded(|| st.auth_provider().refresh_session(&tok));
                ("rf", format!("rf:{}", t), res(r.map(|x| match x {
                    Ok(()) => "ok".into(),
                    Err(e) => format!("E:{}", err_name(&e)),
                })))
            }
            AOp::Invalidate(t) => {
                let tok = self.tok(*t);
                let r = guarded(|| st.auth_provider().invalidate_session(&tok));
                ("is", format!("is:{}", t), res(r.map(|_| "ok".into())))
            }
            AOp::InvalidateUser(u) => {
                let uid = self.uid(*u);
                let r = guarded(|| st.auth_provider().invalidate_user_session(&uid));
                ("iu", format!("iu:{}", u), res(r.map(|_| "ok".into())))
            }
            AOp::GetUid(t) => {
                let tok = self.tok(*t);
                let r = guarded(|| st.auth_provider().get_uid_by_token(&tok));
                ("gt", format!("gt:{}", t), res(r.map(|x| match x {
                    Ok(u) => format!("u{}", self.uid_index(&u)),
                    Err(e) => format!("E:{}", err_name(&e)),
                })))
            }
            AOp::AuthRoute(c, variant) => {
                let req = self.request(*c, *variant);
                let handler = &self.app.verif_default_subapp().routes[0].handler;
                let r = guarded(|| handler.serve(req, st.clone()));
                let out = match r {
                    Ok(resp) => {
                        let code: u16 = resp.status_code.into();
                        let body = String::from_utf8_lossy(&resp.body).to_string();
                        match code {
                            200 => format!("200:u{}", self.uid_index(&body)),
                            401 if body == "401 Unauthorized" => "401".into(),
                            c => format!("http?{}:{}", c, hex(body.as_bytes())),
                        }
                    }
                    Err(_) => "PANIC".into(),
                };
                let s = match c {
                    Some(t) => format!("ar:{}", t),
                    None => "ar:-".into(),
                };
                ("ar", s, out)
            }
        };
        let kind = match out.as_bytes().first() {
            Some(b'u') => "uid".to_string(),
            Some(b't') => "token".to_string(),
            Some(b'2') => "200".to_string(),
            _ => out.clone(),
        };
        let tag = match op {
            AOp::Refresh(t) | AOp::Invalidate(t) | AOp::GetUid(t) | AOp::AuthRoute(Some(t), _) => {
                if (*t as usize) < self.toks.len() { "[issued]" } else { "[unknown]" }
            }
            AOp::AuthRoute(None, _) => "[no-cookie]",
            _ => "",
        };
        self.kinds.push(format!("{}{}={}", code, tag, kind));
        self.ops.push(opstr);
        let obs = self.observe();
        self.outs.push(format!("{}{}", out, obs));
    }
}

impl Runner {
    /// A provider over `init` = users present at the start `(user, password index)`.
    fn new(cfg: &Cfg, init: &[(User, u64)]) -> Runner {
        let mut config = AuthConfig::default().with_default_lifetime(cfg.dl).with_default_refresh_lifetime(cfg.rl);
        if let Some(p) = pepper_bytes(cfg.pepper) {
            config = config.with_pepper(p);
        }
        let users: Vec<User> = init.iter().map(|(u, _)| u.clone()).collect();
        let provider = AuthProvider::new(users).with_config(config);
        let app: App<HState> = App::new_with_config(1, HState { auth: Mutex::new(provider) })
            .with_auth_route("/auth", |_req: Request, _state: Arc<HState>, uid: String| Response::new(StatusCode::OK, uid));
        let state = app.get_state();
        VERIF_NOW.store(cfg.now0, Ordering::SeqCst);
        let mut r = Runner {
            app,
            state,
            uids: init.iter().map(|(u, _)| u.uid.clone()).collect(),
            toks: Vec::new(),
            now: cfg.now0,
            fmt: Vec::new(),
            ops: Vec::new(),
            outs: Vec::new(),
            kinds: Vec::new(),
        };
        for u in &r.uids {
            if !uid_format_ok(u) {
                r.fmt.push(format!("uid-format:{}", u));
            }
        }
        let distinct: HashSet<&String> = r.uids.iter().collect();
        if distinct.len() != r.uids.len() {
            r.fmt.push("uid-repeated:init".into());
        }
        r
    }
    /// Returns (ops field, output, per-step kinds).
    fn finish(self) -> (String, String, Vec<String>) {
        VERIF_NOW.store(u64::MAX, Ordering::SeqCst);
        let ops_s = if self.ops.is_empty() { "-".to_string() } else { self.ops.join(";") };
        let fmt = if self.fmt.is_empty() { "ok".to_string() } else { format!("bad:{}", self.fmt.join("|")) };
        (ops_s, format!("{}#fmt={}", self.outs.join(";"), fmt), self.kinds)
    }
}

fn init_str(init: &[(User, u64)]) -> String {
    if init.is_empty() {
        "-".to_string()
    } else {
        init.iter().enumerate().map(|(i, (_, p))| format!("{}:{}", i, p)).collect::<Vec<_>>().join(",")
    }
}

/// Run one fixed sequence on the real code.
fn run_seq(cfg: &Cfg, init: Vec<(User, u64)>, ops: &[AOp]) -> (String, String, String, Vec<String>) {
    let mut r = Runner::new(cfg, &init);
    for op in ops {
        r.step(op);
    }
    let (ops_s, out, kinds) = r.finish();
    (init_str(&init), ops_s, out, kinds)
}

fn cfg_str(c: &Cfg) -> String {
    format!("{},{},{},{}", c.pepper, c.dl, c.rl, c.now0)
}

fn parse_op(s: &str) -> Option<AOp> {
    let f: Vec<&str> = s.split(':').collect();
    let n = |i: usize| -> Option<u64> { f.get(i)?.parse().ok() };
    Some(match (f[0], f.len()) {
        ("cu", 3) => AOp::CreateUser(n(1)?),
        ("ru", 2) => AOp::RemoveUser(n(1)?),
        ("vf", 3) => AOp::Verify(n(1)?, n(2)?),
        ("ex", 2) => AOp::Exists(n(1)?),
        ("cs", 3) => AOp::CreateSession(n(1)?),
        ("cl", 4) => AOp::CreateSessionLifetime(n(1)?, n(2)?),
        ("rf", 2) => AOp::Refresh(n(1)?),
        ("is", 2) => AOp::Invalidate(n(1)?),
        ("iu", 2) => AOp::InvalidateUser(n(1)?),
        ("gt", 2) => AOp::GetUid(n(1)?),
        ("ar", 2) if f[1] == "-" => AOp::AuthRoute(None, 0),
        ("ar", 2) => AOp::AuthRoute(Some(n(1)?), 0),
        ("tk", 2) => AOp::Tick(n(1)?),
        _ => return None,
    })
}

fn pepper2(p: u64, p2: u64, pep: u64, pep2: u64) -> String {
    let r = guarded(|| {
        let u = User::create(password(p), pepper_bytes(pep).as_deref()).unwrap();
        u.verify(password(p2), pepper_bytes(pep2).as_deref())
    });
    match r {
        Ok(true) => "1".into(),
        Ok(false) => "0".into(),
        Err(_) => "PANIC".into(),
    }
}

/// Re-execute one stored case.
pub fn exec(f: &[String]) -> Option<String> {
    match (f[0].as_str(), f.len()) {
        ("seq", 4) => {
            let c: Vec<u64> = f[1].split(',').filter_map(|x| x.parse().ok()).collect();
            if c.len() != 4 {
                return None;
            }
            let cfg = Cfg { pepper: c[0], dl: c[1], rl: c[2], now0: c[3] };
            let mut init = Vec::new();
            if f[2] != "-" {
                for item in f[2].split(',') {
                    let (_, p) = item.split_once(':')?;
                    let p: u64 = p.parse().ok()?;
                    init.push((User::create(password(p), pepper_bytes(cfg.pepper).as_deref()).ok()?, p));
                }
            }
            let mut ops = Vec::new();
            if f[3] != "-" {
                for s in f[3].split(';') {
                    ops.push(parse_op(s)?);
                }
            }
            let (_, _, out, _) = run_seq(&cfg, init, &ops);
            Some(out)
        }
        ("pepper2", 5) => {
            let n: Vec<u64> = f[1..5].iter().filter_map(|x| x.parse().ok()).collect();
            if n.len() != 4 {
                return None;
            }
            Some(pepper2(n[0], n[1], n[2], n[3]))
        }
        _ => None,
    }
}

fn emit(out: &mut Out, cfg: &Cfg, init: Vec<(User, u64)>, ops: &[AOp], class: &str) {
    let (init_s, ops_s, res, kinds) = run_seq(cfg, init, ops);
    record(out, cfg, &init_s, &ops_s, &res, &kinds, class);
}

fn record(out: &mut Out, cfg: &Cfg, init_s: &str, ops_s: &str, res: &str, kinds: &[String], class: &str) {
    out.count(&format!("class={}", class));
    out.count(&format!("pepper={}", if cfg.pepper == 0 { "none" } else { "some" }));
    out.count(&format!("len={:02}..", kinds.len() / 10 * 10));
    for k in kinds {
        out.count(k);
    }
    let issued = kinds.iter().filter(|k| k.ends_with("=token")).count();
    out.hist.entry("fmt:tokens-checked(64 lower-case hex, distinct)".into()).and_modify(|x| *x += issued as u64).or_insert(issued as u64);
    let created = kinds.iter().filter(|k| *k == "cu=uid").count() as u64;
    out.hist.entry("fmt:uids-checked(uuid v4, distinct)".into()).and_modify(|x| *x += created).or_insert(created);
    out.count(if res.ends_with("#fmt=ok") { "fmt:sequence-ok" } else { "fmt:sequence-BAD" });
    let token_ops = kinds.iter().filter(|k| ["rf[", "is[", "gt[", "ar["].iter().any(|p| k.starts_with(p))).count();
    out.case(&["seq", &cfg_str(cfg), init_s, ops_s], res, issued >= 1 && token_ops >= 1);
}

/// Generator state: what the generator believes about the sequence so far (used only to bias choices).
struct Shadow {
    users: Vec<u64>,      // password index per uid index
    ntok: u64,
    now: u64,
    last_expiry: u64,
    verifies: u64,
    creates: u64,
}


#[allow(clippy::too_many_arguments)]
fn gen_seq(out: &mut Out, rng: &mut Rng, cfg: &Cfg, init: Vec<(User, u64)>, len: usize, max_create: u64, max_verify: u64, class: &str) {
    let init_pw: Vec<u64> = init.iter().map(|(_, p)| *p).collect();
    let mut sh = Shadow { users: init_pw, ntok: 0, now: cfg.now0, last_expiry: 0, verifies: 0, creates: 0 };
    let mut r = Runner::new(cfg, &init);
    let mut n = 0;
    if sh.users.is_empty() {
        let p = rng.below(4);
        r.step(&AOp::CreateUser(p));
        sh.users.push(p);
        sh.creates += 1;
        n += 1;
    }
    while n < len {
        sh.ntok = r.toks.len() as u64; // tokens really issued so far
        let pick_uid = |rng: &mut Rng, sh: &Shadow| -> u64 {
            if rng.chance(1, 12) { 900 + rng.below(3) } else { rng.below(sh.users.len() as u64) }
        };
        let pick_tok = |rng: &mut Rng, sh: &Shadow| -> u64 {
            if sh.ntok == 0 || rng.chance(1, 10) {
                900 + rng.below(4)
            } else if rng.chance(1, 2) {
                sh.ntok - 1 - rng.below(sh.ntok.min(2))
            } else {
                rng.below(sh.ntok)
            }
        };
        let lifetime = |rng: &mut Rng| -> u64 {
            match rng.below(10) {
                0..=2 => 0,
                3..=5 => rng.range(1, 30),
                6 => 3600,
                7 => 1_000_000,
                8 => rng.range(1, 5),
                _ => if rng.chance(1, 4) { u64::MAX } else { 60 },
            }
        };
        let w = rng.below(100);
        let op = match w {
            0..=4 => {
                if sh.creates < max_create && sh.users.len() < 5 {
                    sh.creates += 1;
                    let p = rng.below(4);
                    sh.users.push(p);
                    AOp::CreateUser(p)
                } else {
                    AOp::Exists(pick_uid(rng, &sh))
                }
            }
            5..=7 => AOp::RemoveUser(pick_uid(rng, &sh)),
            8..=9 => AOp::GetUid(pick_tok(rng, &sh)),
            10..=15 => {
                let u = pick_uid(rng, &sh);
                if u >= 900 {
                    AOp::Verify(u, rng.below(4))
                } else if sh.verifies < max_verify {
                    sh.verifies += 1;
                    let right = sh.users[u as usize];
                    let p = match rng.below(4) {
                        0 | 1 => right,
                        2 => *rng.pick(&sh.users), // some (other) user's password
                        _ => (right + 1 + rng.below(3)) % 5,
                    };
                    AOp::Verify(u, p)
                } else {
                    AOp::Exists(u)
                }
            }
            16..=19 => AOp::Exists(pick_uid(rng, &sh)),
            20..=29 => {
                sh.last_expiry = sh.now.saturating_add(cfg.dl);
                AOp::CreateSession(pick_uid(rng, &sh))
            }
            30..=44 => {
                let l = lifetime(rng);
                sh.last_expiry = sh.now.saturating_add(l);
                AOp::CreateSessionLifetime(pick_uid(rng, &sh), l)
            }
            45..=56 => {
                sh.last_expiry = sh.now.saturating_add(cfg.rl);
                AOp::Refresh(pick_tok(rng, &sh))
            }
            57..=62 => AOp::Invalidate(pick_tok(rng, &sh)),
            63..=67 => AOp::InvalidateUser(pick_uid(rng, &sh)),
            68..=76 => AOp::GetUid(pick_tok(rng, &sh)),
            77..=86 => {
                if rng.chance(1, 6) {
                    AOp::AuthRoute(None, rng.below(2))
                } else {
                    AOp::AuthRoute(Some(pick_tok(rng, &sh)), rng.below(3))
                }
            }
            _ => {
                let d = match rng.below(8) {
                    0 => 0,
                    1 => 1,
                    2 => rng.range(1, 20),
                    3 => 3600,
                    4 => 4000,
                    // land exactly on / just before the most recent expiry (`now < expiry` boundary)
                    5 if sh.last_expiry > sh.now && sh.last_expiry - sh.now < 10_000_000 => sh.last_expiry - sh.now,
                    6 if sh.last_expiry > sh.now + 1 && sh.last_expiry - sh.now < 10_000_000 => sh.last_expiry - sh.now - 1,
                    _ => rng.range(1, 5),
                };
                sh.now += d;
                AOp::Tick(d)
            }
        };
        r.step(&op);
        n += 1;
    }
    let (ops_s, res, kinds) = r.finish();
    record(out, cfg, &init_str(&init), &ops_s, &res, &kinds, class);
}

fn gen_cfg(rng: &mut Rng) -> Cfg {
    Cfg {
        pepper: if rng.chance(1, 2) { 0 } else { 1 + rng.below(2) },
        dl: *rng.pick(&[3600, 3600, 3600, 0, 5, 50]),
        rl: *rng.pick(&[3600, 3600, 3600, 0, 7, 7, 100, 100, 30, u64::MAX]),
        now0: 1000 + rng.below(1_000_000),
    }
}

pub fn gen(out: &mut Out, thorough: bool, seed: u64) {
    let mut rng = Rng::new(seed ^ 0xC17);
    let mut pool = Pool::new();
    // directed sequences: the scenarios the property names
    let base = Cfg { pepper: 0, dl: 3600, rl: 3600, now0: 5000 };
    let directed: Vec<Vec<AOp>> = vec![
        // expired token, then refresh, then look it up
        vec![AOp::CreateSessionLifetime(0, 0), AOp::Refresh(0), AOp::GetUid(0), AOp::AuthRoute(Some(0), 0)],
        // token expires by the clock, refresh afterwards
        vec![AOp::CreateSessionLifetime(0, 10), AOp::Tick(9), AOp::GetUid(0), AOp::Tick(1), AOp::GetUid(0), AOp::Refresh(0), AOp::GetUid(0)],
        // refresh in time extends
        vec![AOp::CreateSessionLifetime(0, 10), AOp::Tick(9), AOp::Refresh(0), AOp::Tick(3599), AOp::GetUid(0), AOp::Tick(1), AOp::GetUid(0)],
        // second session refused while live, allowed after expiry; old token dead
        vec![AOp::CreateSession(0), AOp::CreateSession(0), AOp::Tick(3600), AOp::CreateSession(0), AOp::GetUid(0), AOp::GetUid(1)],
        // removal kills the token; invalidation of unknown / expired tokens
        vec![AOp::CreateSession(1), AOp::RemoveUser(1), AOp::GetUid(0), AOp::Refresh(0), AOp::AuthRoute(Some(0), 1), AOp::Invalidate(0), AOp::Invalidate(900)],
        vec![AOp::CreateSessionLifetime(0, 0), AOp::Invalidate(0), AOp::CreateSession(0), AOp::InvalidateUser(0), AOp::GetUid(1), AOp::AuthRoute(None, 1)],
        // u64 overflow of now + lifetime
        vec![AOp::CreateSessionLifetime(0, u64::MAX), AOp::Exists(0), AOp::CreateSession(0), AOp::GetUid(0)],
        vec![],
    ];
    for ops in &directed {
        for pepper in [0u64, 1] {
            let cfg = Cfg { pepper, ..base.clone() };
            let init = pool.get(pepper, 2);
            emit(out, &cfg, init, ops, "directed");
        }
    }
    // the hash contract's pepper clause on the real Argon2
    let combos: &[(u64, u64, u64, u64)] =
        &[(0, 0, 0, 0), (0, 0, 1, 1), (0, 0, 0, 1), (0, 0, 1, 0), (0, 0, 1, 2), (0, 2, 1, 1), (1, 1, 2, 2), (1, 0, 0, 0), (2, 2, 2, 1)];
    for (p, p2, pep, pep2) in combos {
        let r = pepper2(*p, *p2, *pep, *pep2);
        out.count(&format!("pepper2={}", r));
        out.case(&["pepper2", &p.to_string(), &p2.to_string(), &pep.to_string(), &pep2.to_string()], &r, true);
    }
    // class A: everything through the provider, users created by create_user (Argon2 on every create / verify)
    let n_a = if thorough { 4000 } else { 400 };
    for _ in 0..n_a {
        let cfg = gen_cfg(&mut rng);
        let len = if rng.chance(1, 4) { rng.range(1, 12) } else { rng.range(12, 60) } as usize;
        gen_seq(out, &mut rng, &cfg, Vec::new(), len, 3, 4, "A:create_user");
    }
    // class B: users taken from a pre-created pool (cloned Vec<User>), no hashing unless a verify is drawn
    let n_b = if thorough { 60_000 } else { 12_000 };
    for i in 0..n_b {
        let cfg = gen_cfg(&mut rng);
        let k = rng.range(1, 5) as usize;
        let init = pool.get(cfg.pepper, k);
        let len = if rng.chance(1, 5) { rng.range(1, 12) } else { rng.range(12, 60) } as usize;
        let max_verify = if i % 8 == 0 { 1 } else { 0 };
        let max_create = if i % 8 == 4 { 1 } else { 0 };
        gen_seq(out, &mut rng, &cfg, init, len, max_create, max_verify, "B:pool");
    }
    out.extra.insert(
        "renaming".into(),
        "real uids/tokens renamed to indices by first appearance; format and distinctness checked in the harness (#fmt=)".into(),
    );
}
