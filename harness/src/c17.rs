//! C17: whole operation sequences against the real `AuthProvider<Vec<User>>` (clock = `VERIF_NOW`) and the
//! closure registered by `with_auth_route`, observed after every step.
//!
//! Real uids and tokens are random; they are renamed to small indices in order of first appearance
//! (`u0`, `t3`, …). The operation list handed to the Lean model carries, for every call that draws a uid or a
//! token, the index the drawn value received ("fresh here"). The format of the drawn values (token = 64
//! lower-case hex digits, uid = UUID v4, all distinct) is checked here and reported as the `#fmt=` suffix.
use crate::common::*;
use humphrey::http::address::Address;
use humphrey::http::headers::{HeaderType, Headers};
use humphrey::http::method::Method;
use humphrey::http::{Request, Response, StatusCode};
use humphrey::App;
use humphrey_auth::app::{AuthApp, AuthState};
use humphrey_auth::config::AuthConfig;
use humphrey_auth::error::AuthError;
use humphrey_auth::session::VERIF_NOW;
use humphrey_auth::user::User;
use humphrey_auth::AuthProvider;
use std::collections::{BTreeMap, HashSet};
use std::sync::atomic::Ordering;
use std::sync::{Arc, Mutex, MutexGuard};

struct HState {
    auth: Mutex<AuthProvider<Vec<User>>>,
}

impl AuthState<Vec<User>> for HState {
    fn auth_provider(&self) -> MutexGuard<AuthProvider<Vec<User>>> {
        // a panic inside a provider call (u64 overflow) must not wedge the rest of the sequence
        self.auth.lock().unwrap_or_else(|e| e.into_inner())
    }
}

#[derive(Clone, Debug, PartialEq)]
pub enum AOp {
    CreateUser(Pw),              // password
    RemoveUser(u64),             // uid index
    Verify(u64, Pw),             // uid index, password
    Exists(u64),
    CreateSession(u64),
    CreateSessionLifetime(u64, u64),
    Refresh(u64),                // token index
    Invalidate(u64),
    InvalidateUser(u64),
    GetUid(u64),
    AuthRoute(Option<u64>, u64), // cookie token index, header layout variant
    Tick(u64),
}

#[derive(Clone, Debug)]
pub struct Cfg {
    pepper: u64, // 0 = none
    dl: u64,
    rl: u64,
    now0: u64,
    /// `None`: the three values above, set in declaration order and handed to `with_config` once (case kind `seq`).
    /// `Some(calls)`: the set-up code itself (case kind `seqb`); `pepper` / `dl` / `rl` then hold what the calls
    /// denote (`effective`), used only to bias the generator.
    build: Option<Vec<BCall>>,
    /// the pepper the users put into the database from outside were hashed with (`seqb` only; `seq`: = `pepper`)
    init_pepper: u64,
}

impl Cfg {
    fn plain(pepper: u64, dl: u64, rl: u64, now0: u64) -> Cfg {
        Cfg { pepper, dl, rl, now0, build: None, init_pepper: pepper }
    }
    fn built(calls: Vec<BCall>, init_pepper: u64, now0: u64) -> Cfg {
        let (dl, rl, pepper) = effective(&calls);
        Cfg { pepper, dl, rl, now0, build: Some(calls), init_pepper }
    }
    /// The pepper of the users that are in the database before the first operation.
    fn user_pepper(&self) -> u64 {
        if self.build.is_some() { self.init_pepper } else { self.pepper }
    }
}

/// One line of set-up code, run on `let mut cfg = AuthConfig::default(); let mut provider = AuthProvider::new(users);`.
#[derive(Clone, Debug, PartialEq, Eq, Hash)]
pub enum BCall {
    Dl(u64),         // cfg = cfg.with_default_lifetime(n)
    Rl(u64),         // cfg = cfg.with_default_refresh_lifetime(n)
    Pp(u64),         // cfg = cfg.with_pepper(pepper-n), n >= 1
    NewCfg,          // cfg = AuthConfig::default()
    CloneCfg,        // cfg = cfg.clone()
    WithConfig,      // provider = provider.with_config(cfg.clone())
    ProviderDefault, // provider = AuthProvider::default() (first call only, no users)
}

impl BCall {
    fn field(&self) -> String {
        match self {
            BCall::Dl(n) => format!("dl:{}", n),
            BCall::Rl(n) => format!("rl:{}", n),
            BCall::Pp(n) => format!("pp:{}", n),
            BCall::NewCfg => "nc".into(),
            BCall::CloneCfg => "cc".into(),
            BCall::WithConfig => "wc".into(),
            BCall::ProviderDefault => "pd".into(),
        }
    }
    fn name(&self) -> &'static str {
        match self {
            BCall::Dl(_) => "dl",
            BCall::Rl(_) => "rl",
            BCall::Pp(_) => "pp",
            BCall::NewCfg => "nc",
            BCall::CloneCfg => "cc",
            BCall::WithConfig => "wc",
            BCall::ProviderDefault => "pd",
        }
    }
    fn parse(s: &str) -> Option<BCall> {
        let n = |x: &str| -> Option<u64> { x.parse().ok() };
        Some(match s.split_once(':') {
            Some(("dl", x)) => BCall::Dl(n(x)?),
            Some(("rl", x)) => BCall::Rl(n(x)?),
            Some(("pp", x)) if n(x)? >= 1 => BCall::Pp(n(x)?),
            None => match s {
                "nc" => BCall::NewCfg,
                "cc" => BCall::CloneCfg,
                "wc" => BCall::WithConfig,
                "pd" => BCall::ProviderDefault,
                _ => return None,
            },
            _ => return None,
        })
    }
}

fn build_str(calls: &[BCall]) -> String {
    if calls.is_empty() { "-".into() } else { calls.iter().map(|c| c.field()).collect::<Vec<_>>().join(",") }
}

fn parse_build(s: &str) -> Option<Vec<BCall>> {
    if s == "-" {
        return Some(Vec::new());
    }
    let v: Option<Vec<BCall>> = s.split(',').map(BCall::parse).collect();
    let v = v?;
    // `pd` only in front
    if v.iter().skip(1).any(|c| *c == BCall::ProviderDefault) {
        return None;
    }
    Some(v)
}

/// What the generator believes the calls denote `(lifetime, refresh lifetime, pepper)`: used to bias choices and to
/// pick users from the pool, never to judge.
fn effective(calls: &[BCall]) -> (u64, u64, u64) {
    let mut cur = (3600u64, 3600u64, 0u64);
    let mut prov = cur;
    for c in calls {
        match c {
            BCall::Dl(n) => cur.0 = *n,
            BCall::Rl(n) => cur.1 = *n,
            BCall::Pp(n) => cur.2 = *n,
            BCall::NewCfg => cur = (3600, 3600, 0),
            BCall::CloneCfg => {}
            BCall::WithConfig => prov = cur,
            BCall::ProviderDefault => prov = (3600, 3600, 0),
        }
    }
    prov
}

/// The set-up code run on the real `AuthConfig` / `AuthProvider`.
fn build_provider(calls: &[BCall], users: Vec<User>) -> AuthProvider<Vec<User>> {
    let mut cur = AuthConfig::default();
    let mut provider = match calls.first() {
        Some(BCall::ProviderDefault) => {
            assert!(users.is_empty(), "AuthProvider::default() has no users");
            AuthProvider::default()
        }
        _ => AuthProvider::new(users),
    };
    for (i, c) in calls.iter().enumerate() {
        match c {
            BCall::Dl(n) => cur = cur.with_default_lifetime(*n),
            BCall::Rl(n) => cur = cur.with_default_refresh_lifetime(*n),
            // `impl AsRef<[u8]>`: an owned vector, a byte slice, a string in turn
            BCall::Pp(n) => {
                let bytes = pepper_bytes(*n).expect("pepper >= 1");
                cur = match i % 3 {
                    0 => cur.with_pepper(bytes),
                    1 => cur.with_pepper(&bytes[..]),
                    _ => cur.with_pepper(String::from_utf8(bytes).expect("ascii")),
                };
            }
            BCall::NewCfg => cur = AuthConfig::default(),
            BCall::CloneCfg => cur = cur.clone(),
            BCall::WithConfig => provider = provider.with_config(cur.clone()),
            BCall::ProviderDefault => assert!(i == 0, "pd only in front"),
        }
    }
    provider
}

fn pepper_bytes(p: u64) -> Option<Vec<u8>> {
    if p == 0 { None } else { Some(format!("pepper-{}", p).into_bytes()) }
}

/// The small pool of short passwords of the random sequences (and the meaning of a decimal password field in
/// lines written before passwords were carried in the line itself).
fn password(p: u64) -> String {
    match p {
        0 => "correct horse battery staple".into(),
        1 => "pässwörd-1".into(),
        n => format!("password-{}", n),
    }
}

/// A password as handed to the real code. In a case line it is `x` + lower-case hex of its UTF-8 bytes (the Lean
/// side compares these fields as strings: equal field = equal password); a decimal field is the pool index above.
#[derive(Clone, Debug, PartialEq, Eq, Hash)]
pub struct Pw(pub String);

impl Pw {
    fn pool(p: u64) -> Pw {
        Pw(password(p))
    }
    fn field(&self) -> String {
        format!("x{}", hex(self.0.as_bytes()))
    }
    fn parse(s: &str) -> Option<Pw> {
        if let Some(h) = s.strip_prefix('x') {
            if h.len() % 2 != 0 || !h.bytes().all(|b| b.is_ascii_digit() || (b'a'..=b'f').contains(&b)) {
                return None;
            }
            String::from_utf8(unhex(h)).ok().map(Pw)
        } else {
            s.parse::<u64>().ok().map(Pw::pool)
        }
    }
}

/// A pepper field: `0` = none, `x<hex>` = these bytes, another decimal `n` = `pepper-n`.
fn pep_parse(s: &str) -> Option<Option<Vec<u8>>> {
    if let Some(h) = s.strip_prefix('x') {
        if h.is_empty() || h.len() % 2 != 0 || !h.bytes().all(|b| b.is_ascii_digit() || (b'a'..=b'f').contains(&b)) {
            return None;
        }
        Some(Some(unhex(h)))
    } else {
        s.parse::<u64>().ok().map(pepper_bytes)
    }
}

fn pep_field(p: &Option<Vec<u8>>) -> String {
    match p {
        None => "0".into(),
        Some(b) => format!("x{}", hex(b)),
    }
}

/// The neighbour of a character: code point with the lowest bit flipped. For a multi-byte character only the LAST
/// byte of its encoding changes, so a byte-length cut inside the character leaves two equal prefixes.
fn sib(c: char) -> char {
    char::from_u32(c as u32 ^ 1).unwrap_or('?')
}

fn swapcase(c: char) -> char {
    if c.is_ascii_lowercase() { c.to_ascii_uppercase() } else { c.to_ascii_lowercase() }
}

pub const FAM_ASCII: u64 = 0;
pub const FAM_MULTI: u64 = 1;
pub const FAM_NUL: u64 = 2;

/// The base password of family `fam`, content stream `stream`, exactly `len` BYTES long.
/// * ASCII: letters drawn from a fixed pseudo-random stream (the password of length n is a proper prefix of the one of
///   length n+1);
/// * MULTI: 1/2/3/4-byte characters in rotation, ending in a multi-byte character whenever `len >= 2`;
/// * NUL: the ASCII stream with NUL bytes inside (every fifth byte from offset 3; a short one ends in NUL).
fn base_pw(fam: u64, stream: u64, len: usize) -> String {
    let mut rng = Rng::new(0xA5C1_1000 + stream * 7919);
    let letter = |rng: &mut Rng| -> char {
        let k = rng.below(52) as u8;
        (if k < 26 { b'a' + k } else { b'A' + k - 26 }) as char
    };
    match fam {
        FAM_MULTI => {
            const ROT: [char; 8] = ['é', '€', 'a', '𝄞', 'ß', '日', 'Z', 'ж'];
            let mut s = String::with_capacity(len);
            let mut i = stream as usize;
            while len - s.len() > 4 {
                let c = ROT[i % ROT.len()];
                i += 1;
                if s.len() + c.len_utf8() + 2 <= len {
                    s.push(c);
                }
            }
            match len - s.len() {
                0 => {}
                1 => s.push('a'),
                2 => s.push('é'),
                3 => s.push('€'),
                _ => s.push('𝄞'),
            }
            s
        }
        FAM_NUL => {
            let mut s: String = (0..len).map(|i| if i % 5 == 3 { '\0' } else { letter(&mut rng) }).collect();
            if len >= 1 && !s.contains('\0') {
                s.pop();
                s.push('\0');
            }
            s
        }
        _ => (0..len).map(|_| letter(&mut rng)).collect(),
    }
}

/// Named near-misses of the password `x`: every one differs from `x` (and from the others) as a byte string.
/// `extra_pos` = further character positions at which a single character is changed.
fn pw_variants(x: &str, extra_pos: &[usize]) -> Vec<(&'static str, String)> {
    let cs: Vec<char> = x.chars().collect();
    let n = cs.len();
    let with = |i: usize, f: &dyn Fn(char) -> char| -> String {
        cs.iter().enumerate().map(|(j, c)| if j == i { f(*c) } else { *c }).collect()
    };
    let mut v: Vec<(&'static str, String)> = Vec::new();
    if n >= 1 {
        v.push(("last-char", with(n - 1, &sib)));
        v.push(("first-char", with(0, &sib)));
        v.push(("drop-last(proper-prefix)", cs[..n - 1].iter().collect()));
        v.push(("drop-first(proper-suffix)", cs[1..].iter().collect()));
        v.push(("doubled", format!("{}{}", x, x)));
    }
    if n >= 3 {
        v.push(("middle-char", with(n / 2, &sib)));
        v.push(("first-half", cs[..n / 2].iter().collect()));
    }
    v.push(("append-char", format!("{}x", x)));
    v.push(("append-nul", format!("{}\0", x)));
    v.push(("append-space", format!("{} ", x)));
    // line endings and other white space a form, a terminal or a file may add: they are part of the secret
    v.push(("append-lf", format!("{}\n", x)));
    v.push(("append-crlf", format!("{}\r\n", x)));
    v.push(("append-cr", format!("{}\r", x)));
    v.push(("append-tab", format!("{}\t", x)));
    v.push(("append-nbsp", format!("{}\u{a0}", x)));
    v.push(("prepend-lf", format!("\n{}", x)));
    if x.ends_with('\n') || x.ends_with('\r') {
        v.push(("strip-line-ending", x.trim_end_matches(|c| c == '\r' || c == '\n').to_string()));
    }
    v.push(("prepend-space", format!(" {}", x)));
    v.push(("prepend-char", format!("y{}", x)));
    v.push(("append-multibyte", format!("{}é", x)));
    if let Some(i) = cs.iter().rposition(|c| c.is_ascii_alphabetic()) {
        v.push(("case-last-letter", with(i, &swapcase)));
    }
    if let Some(i) = cs.iter().position(|c| c.is_ascii_alphabetic()) {
        v.push(("case-first-letter", with(i, &swapcase)));
        v.push(("case-all", cs.iter().map(|c| swapcase(*c)).collect()));
    }
    if let Some(i) = cs.iter().position(|c| *c == '\0') {
        v.push(("cut-at-nul", cs[..i].iter().collect()));
        v.push(("nul-to-space", with(i, &|_| ' ')));
        v.push(("strip-nul", cs.iter().filter(|c| **c != '\0').collect()));
    }
    if let Some(i) = cs.iter().position(|c| *c == 'é') {
        // canonically equivalent (NFD) spelling: a different password
        let mut s: String = cs[..i].iter().collect();
        s.push_str("e\u{301}");
        s.extend(cs[i + 1..].iter());
        v.push(("nfd-spelling", s));
    }
    for p in extra_pos {
        if *p < n {
            v.push(("one-char-at-random-position", with(*p, &sib)));
        }
    }
    let mut seen: HashSet<String> = HashSet::new();
    seen.insert(x.to_string());
    v.retain(|(_, s)| seen.insert(s.clone()));
    v
}

/// A string that differs from the secret `t` (a token or a uid) and is close to it. `code`:
/// 0..=99 one character replaced at that position, 100..=199 proper prefix of that length, 200..=299 one character
/// upper-cased (replaced if it has no upper case), 300.. extensions / whitespace / NUL / case / suffix.
/// Codes for which `derived_plain(code)` holds contain no whitespace / control characters (usable in a Cookie header).
fn derive_secret(t: &str, code: u64) -> String {
    let cs: Vec<char> = t.chars().collect();
    let n = cs.len();
    let flip = |c: char| -> char {
        match c.to_digit(16) {
            Some(d) if !c.is_ascii_uppercase() => char::from_digit(d ^ 1, 16).unwrap(),
            _ => '0',
        }
    };
    let with = |i: usize, f: &dyn Fn(char) -> char| -> String {
        cs.iter().enumerate().map(|(j, c)| if j == i { f(*c) } else { *c }).collect()
    };
    let r: String = match code {
        0..=99 if (code as usize) < n => with(code as usize, &flip),
        100..=199 if ((code - 100) as usize) < n => cs[..(code - 100) as usize].iter().collect(),
        200..=299 if ((code - 200) as usize) < n => {
            with((code - 200) as usize, &|c| if c.is_ascii_lowercase() { c.to_ascii_uppercase() } else { flip(c) })
        }
        300 => format!("{}0", t),
        301 => format!("{}\0", t),
        302 => format!("{} ", t),
        303 => format!(" {}", t),
        304 => format!("{}{}", t, t),
        305 => t.to_uppercase(),
        306 => cs.iter().skip(1).collect(),
        307 => format!("0{}", t),
        308 => format!("{}\n", t),
        309 => format!("{}\t", t),
        _ => format!("{}f", t),
    };
    if r == t { format!("{}#", t) } else { r }
}

fn derived_plain(code: u64) -> bool {
    !matches!(code, 301 | 302 | 303 | 308 | 309)
}

const DERIVED: u64 = 10_000;

fn derived(base: u64, code: u64) -> u64 {
    DERIVED + base * 1000 + code
}

/// LENGTH near-misses of a secret: index `DERIVED2 + base * D2_BASE + kind * D2_KIND + n` = `derive_len(real value
/// base, kind, n)`: the secret extended / truncated / overwritten by `n` characters (see `derive_len`).
const DERIVED2: u64 = 1_000_000_000;
const D2_BASE: u64 = 100_000_000;
const D2_KIND: u64 = 2_000_000;

fn derived2(base: u64, kind: u64, n: usize) -> u64 {
    assert!(kind < D2_BASE / D2_KIND && (n as u64) < D2_KIND);
    DERIVED2 + base * D2_BASE + kind * D2_KIND + n as u64
}

/// The index of the real value a near-miss index is derived from.
fn derived_base(i: u64) -> u64 {
    if i >= DERIVED2 { (i - DERIVED2) / D2_BASE } else { (i - DERIVED) / 1000 }
}

/// Filler kinds of an extension (`kind % 10`): 0 = the same hex digit `0` n times, 1 = the secret's own adjacent
/// character (its last one at the back, its first one at the front) n times, 2 = the secret itself repeated
/// cyclically (back: t+t+t…; front: …t+t, ending exactly before the secret), 3 = pseudo-random lower-case hex digits
/// (all different from their neighbours' pattern), 4 = `é` n times (a two-byte character: 2n bytes).
const D2_FILLERS: u64 = 5;
/// Extension at the back (kinds 0..5), at the front (10..15); truncation by n at the back (20: the proper prefix of
/// length len-n) / at the front (21: the proper suffix); the last (22) / first (23) n characters replaced by their
/// hex neighbours (same length); rotated left by n (24: truncated at the front, extended at the back).
const D2_BACK: u64 = 0;
const D2_FRONT: u64 = 10;
const D2_CUT_BACK: u64 = 20;
const D2_CUT_FRONT: u64 = 21;
const D2_FLIP_BACK: u64 = 22;
const D2_FLIP_FRONT: u64 = 23;
const D2_ROTATE: u64 = 24;

fn d2_kind_name(kind: u64) -> String {
    let fill = ["0", "adjacent-char", "own-cycle", "random-hex", "two-byte-char"];
    match kind {
        0..=4 => format!("extend-back:{}", fill[kind as usize]),
        10..=14 => format!("extend-front:{}", fill[(kind - 10) as usize]),
        D2_CUT_BACK => "truncate-back".into(),
        D2_CUT_FRONT => "truncate-front".into(),
        D2_FLIP_BACK => "overwrite-back".into(),
        D2_FLIP_FRONT => "overwrite-front".into(),
        D2_ROTATE => "rotate".into(),
        _ => "other".into(),
    }
}

fn derive_len(t: &str, kind: u64, n: usize) -> String {
    let cs: Vec<char> = t.chars().collect();
    let len = cs.len();
    let flip = |c: char| -> char {
        match c.to_digit(16) {
            Some(d) if !c.is_ascii_uppercase() => char::from_digit(d ^ 1, 16).unwrap(),
            _ => '0',
        }
    };
    let fill = |f: u64, front: bool| -> String {
        match f {
            0 => "0".repeat(n),
            1 => {
                let c = if front { cs.first() } else { cs.last() };
                c.copied().unwrap_or('0').to_string().repeat(n)
            }
            2 if len > 0 => {
                if front {
                    // …t+t: the last n characters of t repeated, so that filler + t is periodic
                    (0..n).map(|i| cs[(len - (n % len) + i) % len]).collect()
                } else {
                    (0..n).map(|i| cs[i % len]).collect()
                }
            }
            3 => {
                let mut rng = Rng::new(0x1E57_0000 + n as u64 * 31 + front as u64);
                (0..n).map(|_| char::from_digit(rng.below(16) as u32, 16).unwrap()).collect()
            }
            4 => "é".repeat(n),
            _ => "f".repeat(n),
        }
    };
    let r: String = match kind {
        0..=9 => format!("{}{}", t, fill(kind, false)),
        10..=19 => format!("{}{}", fill(kind - 10, true), t),
        D2_CUT_BACK if n <= len => cs[..len - n].iter().collect(),
        D2_CUT_FRONT if n <= len => cs[n..].iter().collect(),
        D2_FLIP_BACK if n <= len => cs.iter().enumerate().map(|(i, c)| if i >= len - n { flip(*c) } else { *c }).collect(),
        D2_FLIP_FRONT if n <= len => cs.iter().enumerate().map(|(i, c)| if i < n { flip(*c) } else { *c }).collect(),
        D2_ROTATE if len > 0 => (0..len).map(|i| cs[(i + n) % len]).collect(),
        _ => format!("{}f", t),
    };
    if r == t { format!("{}#", t) } else { r }
}

/// The numbers of characters by which secrets are extended: every n in 1..=300 (thorough 1..=1100) and, for every
/// P in {512, 1024, …, 65536} (and 2^17, 2^20), the n within 2 of P and of P - len (total length within 2 of P).
fn len_steps(secret_len: usize, thorough: bool) -> Vec<usize> {
    let mut v: Vec<usize> = (1..=if thorough { 1100 } else { 300 }).collect();
    for p in [512usize, 1024, 2048, 4096, 8192, 16384, 32768, 65536] {
        for d in 0..=4usize {
            v.push(p + d - 2);
            v.push(p - secret_len + d - 2);
        }
    }
    for p in [1usize << 17, 1 << 20] {
        for d in 0..=4usize {
            if thorough || d == 2 {
                v.push(p + d - 2);
                v.push(p - secret_len + d - 2);
            }
        }
    }
    v.sort();
    v.dedup();
    v
}

fn err_name(e: &AuthError) -> &'static str {
    match e {
        AuthError::GenericError => "GenericError",
        AuthError::UserNotFound => "UserNotFound",
        AuthError::UserAlreadyExists => "UserAlreadyExists",
        AuthError::InvalidToken => "InvalidToken",
        AuthError::SessionAlreadyExists => "SessionAlreadyExists",
    }
}

fn token_format_ok(t: &str) -> bool {
    t.len() == 64 && t.bytes().all(|b| b.is_ascii_digit() || (b'a'..=b'f').contains(&b))
}

fn uid_format_ok(u: &str) -> bool {
    let b = u.as_bytes();
    b.len() == 36
        && b.iter().enumerate().all(|(i, c)| match i {
            8 | 13 | 18 | 23 => *c == b'-',
            _ => c.is_ascii_digit() || (b'a'..=b'f').contains(c),
        })
        && b[14] == b'4'
        && matches!(b[19], b'8' | b'9' | b'a' | b'b')
}

/// Pre-created users (Argon2 is ~10-30 ms per hash): `(user, password)` per pepper.
pub struct Pool {
    users: BTreeMap<u64, Vec<(User, Pw)>>,
}

const POOL_PW: [u64; 5] = [0, 1, 0, 2, 3];

impl Pool {
    fn new() -> Self {
        Pool { users: BTreeMap::new() }
    }
    fn get(&mut self, pepper: u64, k: usize) -> Vec<(User, Pw)> {
        let v = self.users.entry(pepper).or_insert_with(|| {
            POOL_PW
                .iter()
                .map(|p| (User::create(password(*p), pepper_bytes(pepper).as_deref()).unwrap(), Pw::pool(*p)))
                .collect()
        });
        v[..k].to_vec()
    }
}

struct Runner {
    app: App<HState>,
    state: Arc<HState>,
    uids: Vec<String>,
    toks: Vec<String>,
    now: u64,
    /// false: a sequence of user / password operations only, which never reads the clock (several of these run in
    /// parallel, so `VERIF_NOW` is left alone)
    clock: bool,
    fmt: Vec<String>,
    ops: Vec<String>,
    outs: Vec<String>,
    pub kinds: Vec<String>,
}

impl Runner {
    fn uid(&self, i: u64) -> String {
        match i {
            900 => String::new(),
            901 => "00000000-0000-4000-8000-000000000000".into(),
            902 => "nobody".into(),
            i if i >= DERIVED2 => match self.uids.get(derived_base(i) as usize) {
                Some(u) => derive_len(u, (i - DERIVED2) % D2_BASE / D2_KIND, ((i - DERIVED2) % D2_KIND) as usize),
                None => format!("unknown-uid-{}", i),
            },
            i if i >= DERIVED => match self.uids.get(((i - DERIVED) / 1000) as usize) {
                Some(u) => derive_secret(u, (i - DERIVED) % 1000),
                None => format!("unknown-uid-{}", i),
            },
            i if (i as usize) < self.uids.len() => self.uids[i as usize].clone(),
            i => format!("unknown-uid-{}", i),
        }
    }
    fn tok(&self, i: u64) -> String {
        match i {
            900 => String::new(),
            901 => "0".repeat(64),
            902 => "deadbeef".into(),
            903 => self.toks.first().map(|t| t.to_uppercase()).unwrap_or_else(|| "ABC".into()),
            i if i >= DERIVED2 => match self.toks.get(derived_base(i) as usize) {
                Some(t) => derive_len(t, (i - DERIVED2) % D2_BASE / D2_KIND, ((i - DERIVED2) % D2_KIND) as usize),
                None => format!("unknown-token-{}", i),
            },
            i if i >= DERIVED => match self.toks.get(((i - DERIVED) / 1000) as usize) {
                Some(t) => derive_secret(t, (i - DERIVED) % 1000),
                None => format!("unknown-token-{}", i),
            },
            i if (i as usize) < self.toks.len() => self.toks[i as usize].clone(),
            i => format!("unknown-token-{}", i),
        }
    }
    fn uid_index(&self, u: &str) -> String {
        match self.uids.iter().position(|x| x == u) {
            Some(i) => i.to_string(),
            None => "?".into(),
        }
    }
    fn observe(&self) -> String {
        let p = self.state.auth_provider();
        let mut p = p;
        let bits: String = self.uids.iter().map(|u| if p.exists(u) { '1' } else { '0' }).collect();
        let owners: Vec<String> = self
            .toks
            .iter()
            .map(|t| match p.get_uid_by_token(t) {
                Ok(u) => self.uid_index(&u),
                Err(_) => "-".into(),
            })
            .collect();
        format!("/{}/{}", bits, owners.join(","))
    }
    fn new_token(&mut self, t: String) -> String {
        if !token_format_ok(&t) {
            self.fmt.push(format!("token-format:{}", t));
        }
        match self.toks.iter().position(|x| *x == t) {
            Some(i) => {
                self.fmt.push(format!("token-repeated:t{}", i));
                format!("t{}", i)
            }
            None => {
                self.toks.push(t);
                format!("t{}", self.toks.len() - 1)
            }
        }
    }
    fn request(&self, cookie: Option<u64>, variant: u64) -> Request {
        let mut headers = Headers::new();
        headers.add(HeaderType::Host, "localhost");
        match cookie {
            Some(t) => {
                let tok = self.tok(t);
                let v = match variant % 3 {
                    0 => format!("HumphreyToken={}", tok),
                    1 => format!("theme=dark; HumphreyToken={}", tok),
                    _ => format!("HumphreyToken={}; lang=en", tok),
                };
                headers.add(HeaderType::Cookie, v);
            }
            None => {
                if variant % 2 == 1 {
                    headers.add(HeaderType::Cookie, "theme=dark; Token=abc");
                }
            }
        }
        Request {
            method: Method::Get,
            uri: "/auth".into(),
            query: String::new(),
            version: "HTTP/1.1".into(),
            headers,
            content: None,
            address: Address::new("127.0.0.1:4000").unwrap(),
        }
    }

    fn step(&mut self, op: &AOp) {
        let st = self.state.clone();
        assert!(
            self.clock || matches!(op, AOp::CreateUser(_) | AOp::Verify(..) | AOp::Exists(_) | AOp::RemoveUser(_)),
            "clock-free runner used for a session operation"
        );
        // a near-miss of a uid / token must not be one of the real values (it is an index the model never issued)
        match op {
            AOp::Refresh(t) | AOp::Invalidate(t) | AOp::GetUid(t) | AOp::AuthRoute(Some(t), _) if *t >= DERIVED => {
                if self.toks.contains(&self.tok(*t)) {
                    self.fmt.push(format!("derived-token-is-a-real-token:{}", t));
                }
            }
            AOp::RemoveUser(u) | AOp::Verify(u, _) | AOp::Exists(u) | AOp::CreateSession(u) | AOp::CreateSessionLifetime(u, _) | AOp::InvalidateUser(u)
                if *u >= DERIVED =>
            {
                if self.uids.contains(&self.uid(*u)) {
                    self.fmt.push(format!("derived-uid-is-a-real-uid:{}", u));
                }
            }
            _ => {}
        }
        let res = |r: Result<String, String>| r.unwrap_or_else(|_| "PANIC".into());
        let (code, opstr, out): (&str, String, String) = match op {
            AOp::Tick(d) => {
                self.now += d;
                VERIF_NOW.store(self.now, Ordering::SeqCst);
                ("tk", format!("tk:{}", d), "-".into())
            }
            AOp::CreateUser(p) => {
                let next = self.uids.len();
                let r = guarded(|| st.auth_provider().create_user(&p.0));
                let out = match r {
                    Ok(Ok(uid)) => {
                        if !uid_format_ok(&uid) {
                            self.fmt.push(format!("uid-format:{}", uid));
                        }
                        match self.uids.iter().position(|x| *x == uid) {
                            Some(i) => {
                                self.fmt.push(format!("uid-repeated:u{}", i));
                                format!("u{}", i)
                            }
                            None => {
                                self.uids.push(uid);
                                format!("u{}", self.uids.len() - 1)
                            }
                        }
                    }
                    Ok(Err(e)) => format!("E:{}", err_name(&e)),
                    Err(_) => "PANIC".into(),
                };
                ("cu", format!("cu:{}:{}", p.field(), next), out)
            }
            AOp::RemoveUser(u) => {
                let uid = self.uid(*u);
                let r = guarded(|| st.auth_provider().remove_user(&uid));
                ("ru", format!("ru:{}", u), res(r.map(|x| match x {
                    Ok(()) => "ok".into(),
                    Err(e) => format!("E:{}", err_name(&e)),
                })))
            }
            AOp::Verify(u, p) => {
                let uid = self.uid(*u);
                let r = guarded(|| st.auth_provider().verify(&uid, &p.0));
                ("vf", format!("vf:{}:{}", u, p.field()), res(r.map(|b| if b { "1".into() } else { "0".into() })))
            }
            AOp::Exists(u) => {
                let uid = self.uid(*u);
                let r = guarded(|| st.auth_provider().exists(&uid));
                ("ex", format!("ex:{}", u), res(r.map(|b| if b { "1".into() } else { "0".into() })))
            }
            AOp::CreateSession(u) | AOp::CreateSessionLifetime(u, _) => {
                let uid = self.uid(*u);
                let next = self.toks.len();
                let r = match op {
                    AOp::CreateSessionLifetime(_, l) => {
                        guarded(|| st.auth_provider().create_session_with_lifetime(&uid, *l))
                    }
                    _ => guarded(|| st.auth_provider().create_session(&uid)),
                };
                let out = match r {
                    Ok(Ok(t)) => self.new_token(t),
                    Ok(Err(e)) => format!("E:{}", err_name(&e)),
                    Err(_) => "PANIC".into(),
                };
                match op {
                    AOp::CreateSessionLifetime(_, l) => ("cl", format!("cl:{}:{}:{}", u, l, next), out),
                    _ => ("cs", format!("cs:{}:{}", u, next), out),
                }
            }
            AOp::Refresh(t) => {
                let tok = self.tok(*t);
                let r = guarded(|| st.auth_provider().refresh_session(&tok));
                ("rf", format!("rf:{}", t), res(r.map(|x| match x {
                    Ok(()) => "ok".into(),
                    Err(e) => format!("E:{}", err_name(&e)),
                })))
            }
            AOp::Invalidate(t) => {
                let tok = self.tok(*t);
                let r = guarded(|| st.auth_provider().invalidate_session(&tok));
                ("is", format!("is:{}", t), res(r.map(|_| "ok".into())))
            }
            AOp::InvalidateUser(u) => {
                let uid = self.uid(*u);
                let r = guarded(|| st.auth_provider().invalidate_user_session(&uid));
                ("iu", format!("iu:{}", u), res(r.map(|_| "ok".into())))
            }
            AOp::GetUid(t) => {
                let tok = self.tok(*t);
                let r = guarded(|| st.auth_provider().get_uid_by_token(&tok));
                ("gt", format!("gt:{}", t), res(r.map(|x| match x {
                    Ok(u) => format!("u{}", self.uid_index(&u)),
                    Err(e) => format!("E:{}", err_name(&e)),
                })))
            }
            AOp::AuthRoute(c, variant) => {
                let req = self.request(*c, *variant);
                let handler = &self.app.verif_default_subapp().routes[0].handler;
                let r = guarded(|| handler.serve(req, st.clone()));
                let out = match r {
                    Ok(resp) => {
                        let code: u16 = resp.status_code.into();
                        let body = String::from_utf8_lossy(&resp.body).to_string();
                        match code {
                            200 => format!("200:u{}", self.uid_index(&body)),
                            401 if body == "401 Unauthorized" => "401".into(),
                            c => format!("http?{}:{}", c, hex(body.as_bytes())),
                        }
                    }
                    Err(_) => "PANIC".into(),
                };
                let s = match c {
                    Some(t) => format!("ar:{}", t),
                    None => "ar:-".into(),
                };
                ("ar", s, out)
            }
        };
        let kind = match out.as_bytes().first() {
            Some(b'u') => "uid".to_string(),
            Some(b't') => "token".to_string(),
            Some(b'2') => "200".to_string(),
            _ => out.clone(),
        };
        let tag = match op {
            AOp::RemoveUser(u) | AOp::Verify(u, _) | AOp::Exists(u) | AOp::CreateSession(u) | AOp::CreateSessionLifetime(u, _) | AOp::InvalidateUser(u)
                if *u >= DERIVED =>
            {
                if *u >= DERIVED2 { "[near-miss-len-uid]" } else { "[near-miss-uid]" }
            }
            AOp::Refresh(t) | AOp::Invalidate(t) | AOp::GetUid(t) | AOp::AuthRoute(Some(t), _) => {
                if *t >= DERIVED2 { "[near-miss-len]" } else if *t >= DERIVED { "[near-miss]" } else if (*t as usize) < self.toks.len() { "[issued]" } else { "[unknown]" }
            }
            AOp::AuthRoute(None, _) => "[no-cookie]",
            _ => "",
        };
        self.kinds.push(format!("{}{}={}", code, tag, kind));
        self.ops.push(opstr);
        let obs = self.observe();
        self.outs.push(format!("{}{}", out, obs));
    }
}

impl Runner {
    /// A provider over `init` = users present at the start `(user, password)`.
    fn new(cfg: &Cfg, init: &[(User, Pw)]) -> Runner {
        Runner::new_opt(cfg, init, true)
    }
    fn new_opt(cfg: &Cfg, init: &[(User, Pw)], clock: bool) -> Runner {
        let users: Vec<User> = init.iter().map(|(u, _)| u.clone()).collect();
        let provider = match &cfg.build {
            Some(calls) => build_provider(calls, users),
            None => {
                let mut config = AuthConfig::default().with_default_lifetime(cfg.dl).with_default_refresh_lifetime(cfg.rl);
                if let Some(p) = pepper_bytes(cfg.pepper) {
                    config = config.with_pepper(p);
                }
                AuthProvider::new(users).with_config(config)
            }
        };
        let app: App<HState> = App::new_with_config(1, HState { auth: Mutex::new(provider) })
            .with_auth_route("/auth", |_req: Request, _state: Arc<HState>, uid: String| Response::new(StatusCode::OK, uid));
        let state = app.get_state();
        if clock {
            VERIF_NOW.store(cfg.now0, Ordering::SeqCst);
        }
        let mut r = Runner {
            app,
            state,
            uids: init.iter().map(|(u, _)| u.uid.clone()).collect(),
            toks: Vec::new(),
            now: cfg.now0,
            clock,
            fmt: Vec::new(),
            ops: Vec::new(),
            outs: Vec::new(),
            kinds: Vec::new(),
        };
        for u in &r.uids {
            if !uid_format_ok(u) {
                r.fmt.push(format!("uid-format:{}", u));
            }
        }
        let distinct: HashSet<&String> = r.uids.iter().collect();
        if distinct.len() != r.uids.len() {
            r.fmt.push("uid-repeated:init".into());
        }
        r
    }
    /// Returns (ops field, output, per-step kinds).
    fn finish(self) -> (String, String, Vec<String>) {
        if self.clock {
            VERIF_NOW.store(u64::MAX, Ordering::SeqCst);
        }
        let ops_s = if self.ops.is_empty() { "-".to_string() } else { self.ops.join(";") };
        let fmt = if self.fmt.is_empty() { "ok".to_string() } else { format!("bad:{}", self.fmt.join("|")) };
        (ops_s, format!("{}#fmt={}", self.outs.join(";"), fmt), self.kinds)
    }
}

fn init_str(init: &[(User, Pw)]) -> String {
    if init.is_empty() {
        "-".to_string()
    } else {
        init.iter().enumerate().map(|(i, (_, p))| format!("{}:{}", i, p.field())).collect::<Vec<_>>().join(",")
    }
}

/// Run one fixed sequence on the real code.
fn run_seq(cfg: &Cfg, init: Vec<(User, Pw)>, ops: &[AOp]) -> (String, String, String, Vec<String>) {
    run_seq_opt(cfg, init, ops, true)
}

fn run_seq_opt(cfg: &Cfg, init: Vec<(User, Pw)>, ops: &[AOp], clock: bool) -> (String, String, String, Vec<String>) {
    let mut r = Runner::new_opt(cfg, &init, clock);
    for op in ops {
        r.step(op);
    }
    let (ops_s, out, kinds) = r.finish();
    (init_str(&init), ops_s, out, kinds)
}

fn cfg_str(c: &Cfg) -> String {
    format!("{},{},{},{}", c.pepper, c.dl, c.rl, c.now0)
}

/// The fields of a case line in front of `init`: `seq, cfg` or `seqb, build, initPepper,now0`.
fn cfg_fields(c: &Cfg) -> Vec<String> {
    match &c.build {
        None => vec!["seq".into(), cfg_str(c)],
        Some(calls) => vec!["seqb".into(), build_str(calls), format!("{},{}", c.init_pepper, c.now0)],
    }
}

fn parse_op(s: &str) -> Option<AOp> {
    let f: Vec<&str> = s.split(':').collect();
    let n = |i: usize| -> Option<u64> { f.get(i)?.parse().ok() };
    Some(match (f[0], f.len()) {
        ("cu", 3) => AOp::CreateUser(Pw::parse(f[1])?),
        ("ru", 2) => AOp::RemoveUser(n(1)?),
        ("vf", 3) => AOp::Verify(n(1)?, Pw::parse(f[2])?),
        ("ex", 2) => AOp::Exists(n(1)?),
        ("cs", 3) => AOp::CreateSession(n(1)?),
        ("cl", 4) => AOp::CreateSessionLifetime(n(1)?, n(2)?),
        ("rf", 2) => AOp::Refresh(n(1)?),
        ("is", 2) => AOp::Invalidate(n(1)?),
        ("iu", 2) => AOp::InvalidateUser(n(1)?),
        ("gt", 2) => AOp::GetUid(n(1)?),
        ("ar", 2) if f[1] == "-" => AOp::AuthRoute(None, 0),
        ("ar", 2) => AOp::AuthRoute(Some(n(1)?), 0),
        ("tk", 2) => AOp::Tick(n(1)?),
        _ => return None,
    })
}

fn pepper2(p: u64, p2: u64, pep: u64, pep2: u64) -> String {
    let r = guarded(|| {
        let u = User::create(password(p), pepper_bytes(pep).as_deref()).unwrap();
        u.verify(password(p2), pepper_bytes(pep2).as_deref())
    });
    match r {
        Ok(true) => "1".into(),
        Ok(false) => "0".into(),
        Err(_) => "PANIC".into(),
    }
}

/// `User::create(pw, pep)` once, then `verify(pw', pep')` for every pair: one `0`/`1` per pair.
fn hashc(pw: &Pw, pep: &Option<Vec<u8>>, tries: &[(Pw, Option<Vec<u8>>)]) -> String {
    let u = match guarded(|| User::create(&pw.0, pep.as_deref())) {
        Ok(Ok(u)) => u,
        Ok(Err(e)) => return format!("E:{}", err_name(&e)),
        Err(_) => return "PANIC".into(),
    };
    tries
        .iter()
        .map(|(p, q)| match guarded(|| u.verify(&p.0, q.as_deref())) {
            Ok(true) => "1",
            Ok(false) => "0",
            Err(_) => "P",
        })
        .collect()
}

fn hashc_fields(pw: &Pw, pep: &Option<Vec<u8>>, tries: &[(Pw, Option<Vec<u8>>)]) -> [String; 3] {
    [
        pw.field(),
        pep_field(pep),
        tries.iter().map(|(p, q)| format!("{}:{}", p.field(), pep_field(q))).collect::<Vec<_>>().join(","),
    ]
}

fn exec_seq(cfg: &Cfg, init_s: &str, ops_s: &str) -> Option<String> {
    let mut init = Vec::new();
    if init_s != "-" {
        for item in init_s.split(',') {
            let (_, p) = item.split_once(':')?;
            let p = Pw::parse(p)?;
            init.push((User::create(&p.0, pepper_bytes(cfg.user_pepper()).as_deref()).ok()?, p));
        }
    }
    let mut ops = Vec::new();
    if ops_s != "-" {
        for s in ops_s.split(';') {
            ops.push(parse_op(s)?);
        }
    }
    let (_, _, out, _) = run_seq(cfg, init, &ops);
    Some(out)
}

/// Re-execute one stored case.
pub fn exec(f: &[String]) -> Option<String> {
    match (f[0].as_str(), f.len()) {
        ("seq", 4) => {
            let c: Vec<u64> = f[1].split(',').filter_map(|x| x.parse().ok()).collect();
            if c.len() != 4 {
                return None;
            }
            let cfg = Cfg::plain(c[0], c[1], c[2], c[3]);
            exec_seq(&cfg, &f[2], &f[3])
        }
        ("seqb", 5) => {
            let calls = parse_build(&f[1])?;
            let c: Vec<u64> = f[2].split(',').filter_map(|x| x.parse().ok()).collect();
            if c.len() != 2 || (calls.first() == Some(&BCall::ProviderDefault) && f[3] != "-") {
                return None;
            }
            let cfg = Cfg::built(calls, c[0], c[1]);
            exec_seq(&cfg, &f[3], &f[4])
        }
        ("pepper2", 5) => {
            let n: Vec<u64> = f[1..5].iter().filter_map(|x| x.parse().ok()).collect();
            if n.len() != 4 {
                return None;
            }
            Some(pepper2(n[0], n[1], n[2], n[3]))
        }
        ("hashc", 4) => {
            let pw = Pw::parse(&f[1])?;
            let pep = pep_parse(&f[2])?;
            let mut tries = Vec::new();
            for item in f[3].split(',') {
                let (p, q) = item.split_once(':')?;
                tries.push((Pw::parse(p)?, pep_parse(q)?));
            }
            Some(hashc(&pw, &pep, &tries))
        }
        _ => None,
    }
}

fn emit(out: &mut Out, cfg: &Cfg, init: Vec<(User, Pw)>, ops: &[AOp], class: &str) {
    let (init_s, ops_s, res, kinds) = run_seq(cfg, init, ops);
    record(out, cfg, &init_s, &ops_s, &res, &kinds, class);
}

fn record(out: &mut Out, cfg: &Cfg, init_s: &str, ops_s: &str, res: &str, kinds: &[String], class: &str) {
    out.count(&format!("class={}", class));
    out.count(&format!("pepper={}", if cfg.pepper == 0 { "none" } else { "some" }));
    out.count(&format!("len={:02}..", kinds.len() / 10 * 10));
    for k in kinds {
        out.count(k);
    }
    let issued = kinds.iter().filter(|k| k.ends_with("=token")).count();
    out.hist.entry("fmt:tokens-checked(64 lower-case hex, distinct)".into()).and_modify(|x| *x += issued as u64).or_insert(issued as u64);
    let created = kinds.iter().filter(|k| *k == "cu=uid").count() as u64;
    out.hist.entry("fmt:uids-checked(uuid v4, distinct)".into()).and_modify(|x| *x += created).or_insert(created);
    out.count(if res.ends_with("#fmt=ok") { "fmt:sequence-ok" } else { "fmt:sequence-BAD" });
    let token_ops = kinds.iter().filter(|k| ["rf[", "is[", "gt[", "ar["].iter().any(|p| k.starts_with(p))).count();
    // password sweeps: a user created and a different password tried on it
    let pw_pairs = class.starts_with("P:") && created >= 1 && kinds.iter().any(|k| k == "vf=0");
    // set-up sweeps: the pepper observed through a user hashed outside the provider
    let pep_obs = class.starts_with("K:") && kinds.iter().any(|k| k.starts_with("vf="));
    if let Some(calls) = &cfg.build {
        count_build(out, calls, cfg);
    }
    let mut f = cfg_fields(cfg);
    f.push(init_s.to_string());
    f.push(ops_s.to_string());
    let fr: Vec<&str> = f.iter().map(|x| x.as_str()).collect();
    out.case(&fr, res, (issued >= 1 && token_ops >= 1) || pw_pairs || pep_obs);
}

/// Histogram of the set-up code dimension.
fn count_build(out: &mut Out, calls: &[BCall], cfg: &Cfg) {
    out.count("setup:spelled-out(seqb)");
    for c in calls {
        out.count(&format!("setup:call={}", c.name()));
    }
    let setters: Vec<&BCall> = calls.iter().filter(|c| matches!(c, BCall::Dl(_) | BCall::Rl(_) | BCall::Pp(_))).collect();
    out.count(&format!("setup:setter-calls={}", setters.len().min(6)));
    let pos = |f: &dyn Fn(&BCall) -> bool| calls.iter().position(|c| f(c));
    match (pos(&|c| matches!(c, BCall::Dl(_))), pos(&|c| matches!(c, BCall::Rl(_)))) {
        (Some(a), Some(b)) if a < b => out.count("setup:first-dl-before-first-rl"),
        (Some(_), Some(_)) => out.count("setup:first-rl-before-first-dl"),
        (Some(_), None) => out.count("setup:dl-only"),
        (None, Some(_)) => out.count("setup:rl-only"),
        _ => out.count("setup:no-lifetime-call"),
    }
    for name in ["dl", "rl", "pp", "wc"] {
        if calls.iter().filter(|c| c.name() == name).count() >= 2 {
            out.count(&format!("setup:repeated={}", name));
        }
    }
    let installs = calls.iter().filter(|c| **c == BCall::WithConfig).count();
    if installs == 0 && !setters.is_empty() {
        out.count("setup:configured-but-never-installed");
    }
    if let Some(last) = calls.iter().rposition(|c| *c == BCall::WithConfig) {
        if calls[last + 1..].iter().any(|c| matches!(c, BCall::Dl(_) | BCall::Rl(_) | BCall::Pp(_))) {
            out.count("setup:setter-after-last-with_config");
        }
    }
    out.count(match cfg.dl.cmp(&cfg.rl) {
        std::cmp::Ordering::Less => "setup:effective-dl<rl",
        std::cmp::Ordering::Equal => "setup:effective-dl=rl",
        std::cmp::Ordering::Greater => "setup:effective-dl>rl",
    });
    out.count(if cfg.init_pepper == cfg.pepper { "setup:outside-users-hashed-with-the-configured-pepper" } else { "setup:outside-users-hashed-with-another-pepper" });
}

/// Generator state: what the generator believes about the sequence so far (used only to bias choices).
struct Shadow {
    users: Vec<Pw>,       // password per uid index
    ntok: u64,
    now: u64,
    last_expiry: u64,
    verifies: u64,
    creates: u64,
}


#[allow(clippy::too_many_arguments)]
fn gen_seq(out: &mut Out, rng: &mut Rng, cfg: &Cfg, init: Vec<(User, Pw)>, len: usize, max_create: u64, max_verify: u64, class: &str) {
    let init_pw: Vec<Pw> = init.iter().map(|(_, p)| p.clone()).collect();
    let mut sh = Shadow { users: init_pw, ntok: 0, now: cfg.now0, last_expiry: 0, verifies: 0, creates: 0 };
    let mut r = Runner::new(cfg, &init);
    let mut n = 0;
    if sh.users.is_empty() {
        let p = gen_new_pw(rng);
        r.step(&AOp::CreateUser(p.clone()));
        sh.users.push(p);
        sh.creates += 1;
        n += 1;
    }
    while n < len {
        sh.ntok = r.toks.len() as u64; // tokens really issued so far
        let pick_uid = |rng: &mut Rng, sh: &Shadow| -> u64 {
            if rng.chance(1, 12) {
                match rng.below(6) {
                    0..=2 => 900 + rng.below(3),
                    3 | 4 => derived(rng.below(sh.users.len() as u64), gen_code(rng, 36, true)),
                    _ => {
                        let b = rng.below(sh.users.len() as u64);
                        gen_len_index(rng, b, 36)
                    }
                }
            } else {
                rng.below(sh.users.len() as u64)
            }
        };
        let pick_tok = |rng: &mut Rng, sh: &Shadow| -> u64 {
            if sh.ntok == 0 || rng.chance(1, 10) {
                // unknown token: a fixed one, or a near-miss of a token that was really issued
                if sh.ntok == 0 || rng.chance(1, 2) {
                    900 + rng.below(4)
                } else if rng.chance(2, 3) {
                    derived(rng.below(sh.ntok), gen_code(rng, 64, true))
                } else {
                    let b = rng.below(sh.ntok);
                    gen_len_index(rng, b, 64)
                }
            } else if rng.chance(1, 2) {
                sh.ntok - 1 - rng.below(sh.ntok.min(2))
            } else {
                rng.below(sh.ntok)
            }
        };
        let lifetime = |rng: &mut Rng| -> u64 {
            match rng.below(10) {
                0..=2 => 0,
                3..=5 => rng.range(1, 30),
                6 => 3600,
                7 => 1_000_000,
                8 => rng.range(1, 5),
                _ => if rng.chance(1, 4) { u64::MAX } else { 60 },
            }
        };
        let w = rng.below(100);
        let op = match w {
            0..=4 => {
                if sh.creates < max_create && sh.users.len() < 5 {
                    sh.creates += 1;
                    let p = gen_new_pw(rng);
                    sh.users.push(p.clone());
                    AOp::CreateUser(p)
                } else {
                    AOp::Exists(pick_uid(rng, &sh))
                }
            }
            5..=7 => AOp::RemoveUser(pick_uid(rng, &sh)),
            8..=9 => AOp::GetUid(pick_tok(rng, &sh)),
            10..=15 => {
                let u = pick_uid(rng, &sh);
                if u >= 900 {
                    // unknown uid (no hashing happens): the password of the user it is derived from, or any
                    let p = if u >= DERIVED { sh.users[derived_base(u) as usize].clone() } else { Pw::pool(rng.below(4)) };
                    AOp::Verify(u, p)
                } else if sh.verifies < max_verify {
                    sh.verifies += 1;
                    let right = sh.users[u as usize].clone();
                    let p = match rng.below(6) {
                        0 | 1 => right,
                        2 => rng.pick(&sh.users).clone(), // some (other) user's password
                        3 => Pw::pool(rng.below(5)),
                        _ => {
                            // a near-miss of the right password
                            let pos = rng.below(right.0.chars().count().max(1) as u64) as usize;
                            let v = pw_variants(&right.0, &[pos]);
                            Pw(rng.pick(&v).1.clone())
                        }
                    };
                    AOp::Verify(u, p)
                } else {
                    AOp::Exists(u)
                }
            }
            16..=19 => AOp::Exists(pick_uid(rng, &sh)),
            20..=29 => {
                sh.last_expiry = sh.now.saturating_add(cfg.dl);
                AOp::CreateSession(pick_uid(rng, &sh))
            }
            30..=44 => {
                let l = lifetime(rng);
                sh.last_expiry = sh.now.saturating_add(l);
                AOp::CreateSessionLifetime(pick_uid(rng, &sh), l)
            }
            45..=56 => {
                sh.last_expiry = sh.now.saturating_add(cfg.rl);
                AOp::Refresh(pick_tok(rng, &sh))
            }
            57..=62 => AOp::Invalidate(pick_tok(rng, &sh)),
            63..=67 => AOp::InvalidateUser(pick_uid(rng, &sh)),
            68..=76 => AOp::GetUid(pick_tok(rng, &sh)),
            77..=86 => {
                if rng.chance(1, 6) {
                    AOp::AuthRoute(None, rng.below(2))
                } else {
                    AOp::AuthRoute(Some(pick_tok(rng, &sh)), rng.below(3))
                }
            }
            _ => {
                let d = match rng.below(8) {
                    0 => 0,
                    1 => 1,
                    2 => rng.range(1, 20),
                    3 => 3600,
                    4 => 4000,
                    // land exactly on / just before the most recent expiry (`now < expiry` boundary)
                    5 if sh.last_expiry > sh.now && sh.last_expiry - sh.now < 10_000_000 => sh.last_expiry - sh.now,
                    6 if sh.last_expiry > sh.now + 1 && sh.last_expiry - sh.now < 10_000_000 => sh.last_expiry - sh.now - 1,
                    _ => rng.range(1, 5),
                };
                sh.now += d;
                AOp::Tick(d)
            }
        };
        r.step(&op);
        n += 1;
    }
    let (ops_s, res, kinds) = r.finish();
    record(out, cfg, &init_str(&init), &ops_s, &res, &kinds, class);
}

fn gen_cfg(rng: &mut Rng) -> Cfg {
    let now0 = 1000 + rng.below(1_000_000);
    if rng.chance(1, 2) {
        // the set-up code spelled out: random calls in random order
        let calls = gen_build(rng);
        let (_, _, pepper) = effective(&calls);
        // users put in from outside: mostly hashed with the pepper the calls denote
        let init_pepper = if rng.chance(7, 8) { pepper } else { rng.below(4) };
        return Cfg::built(calls, init_pepper, now0);
    }
    Cfg::plain(
        if rng.chance(1, 2) { 0 } else { 1 + rng.below(2) },
        *rng.pick(&[3600, 3600, 3600, 0, 5, 50]),
        *rng.pick(&[3600, 3600, 3600, 0, 7, 7, 100, 100, 30, u64::MAX]),
        now0,
    )
}

/// Random set-up code: 0..7 calls, setters in any order and repeated, mostly installed at the end.
fn gen_build(rng: &mut Rng) -> Vec<BCall> {
    let life = |rng: &mut Rng| -> u64 {
        match rng.below(6) {
            0 => 0,
            1 => rng.range(1, 60),
            2 => *rng.pick(&[3599, 3600, 3601, 100, 7, 50, 5]),
            3 => *rng.pick(&SETUP_LIFETIMES),
            4 => rng.range(61, 100_000),
            _ => *rng.pick(&[30, 1000, 86_400, u64::MAX]),
        }
    };
    let n = rng.below(7);
    let mut v = Vec::new();
    for _ in 0..n {
        v.push(match rng.below(13) {
            0..=3 => BCall::Dl(life(rng)),
            4..=7 => BCall::Rl(life(rng)),
            8 | 9 => BCall::Pp(1 + rng.below(3)),
            10 => BCall::WithConfig,
            11 => BCall::NewCfg,
            _ => BCall::CloneCfg,
        });
    }
    if rng.chance(5, 6) {
        v.push(BCall::WithConfig);
    }
    v
}

/// Lifetimes handed to the builder calls of the set-up sweep (the ones within 2 of `u64::MAX - now0` are added per
/// sequence when its clock starts in the year 2100): small values, powers of two and typical limits with their neighbours, the default and its neighbours,
/// very large ones.
const SETUP_LIFETIMES: [u64; 37] = [
    0, 1, 2, 5, 7, 50, 100, 127, 128, 129, 255, 256, 257, 1000, 1023, 1024, 1025, 3599, 3600, 3601, 4096, 8192, 65_535,
    65_536, 65_537, 86_400, 262_144, 1 << 20, 31_536_000, (1 << 31) - 1, 1 << 31, u32::MAX as u64, 1 << 32, 1 << 53,
    i64::MAX as u64, 1 << 63, u64::MAX,
];

#[derive(Clone, Copy, Debug, PartialEq)]
enum Setter {
    Dl,
    Rl,
    Pp,
}

/// All lists of `len` setter calls; `cover`: only those in which every method occurs.
fn setter_lists(len: usize, cover: bool) -> Vec<Vec<Setter>> {
    let all = [Setter::Dl, Setter::Rl, Setter::Pp];
    let mut v: Vec<Vec<Setter>> = vec![vec![]];
    for _ in 0..len {
        v = v.iter().flat_map(|l| all.iter().map(move |m| [l.clone(), vec![*m]].concat())).collect();
    }
    v.retain(|l| !cover || all.iter().all(|m| l.contains(m)));
    v
}

/// A shape of set-up code: setter methods (values are filled in by `valuate`) and structural calls.
#[derive(Clone, Debug)]
enum Shape {
    Set(Setter),
    Call(BCall),
}

/// Distinct values for the calls of `shape`: the lifetime calls get distinct values of the sweep list starting at
/// `off`, in ascending (`asc`) or descending order of call, so that default < refresh and default > refresh both
/// occur whatever the order of the methods; successive pepper calls get different peppers.
fn valuate(shape: &[Shape], sweep: &[u64], off: usize, asc: bool) -> Vec<BCall> {
    let n_life = shape.iter().filter(|s| matches!(s, Shape::Set(Setter::Dl) | Shape::Set(Setter::Rl))).count();
    let stride = 1 + off % 5;
    let mut vals: Vec<u64> = (0..n_life).map(|k| sweep[(off + k * stride) % sweep.len()]).collect();
    vals.sort();
    vals.dedup();
    let mut k = 0;
    while vals.len() < n_life {
        // (a wrap-around gave the same value twice)
        let c = sweep[(off + n_life * stride + k) % sweep.len()];
        if !vals.contains(&c) {
            vals.push(c);
        }
        k += 1;
    }
    vals.sort();
    if !asc {
        vals.reverse();
    }
    let mut li = 0;
    let mut pi = off as u64;
    shape
        .iter()
        .map(|s| match s {
            Shape::Set(Setter::Dl) => {
                li += 1;
                BCall::Dl(vals[li - 1])
            }
            Shape::Set(Setter::Rl) => {
                li += 1;
                BCall::Rl(vals[li - 1])
            }
            Shape::Set(Setter::Pp) => {
                pi += 1;
                BCall::Pp(1 + pi % 3)
            }
            Shape::Call(c) => c.clone(),
        })
        .collect()
}

/// The shapes of the set-up sweep, with the class each belongs to.
fn setup_shapes(thorough: bool) -> Vec<(&'static str, Vec<Shape>)> {
    let set = |l: &[Setter]| -> Vec<Shape> { l.iter().map(|m| Shape::Set(*m)).collect() };
    let call = |c: BCall| vec![Shape::Call(c)];
    let mut v: Vec<(&'static str, Vec<Shape>)> = Vec::new();
    // every method present or absent, in every order, repeated: all lists of 0..=3 calls (thorough 0..=5) and all
    // lists of 4 calls in which every method occurs; installed once at the end
    let mut lists: Vec<Vec<Setter>> = Vec::new();
    for len in 0..=if thorough { 5 } else { 3 } {
        lists.extend(setter_lists(len, false));
    }
    if !thorough {
        lists.extend(setter_lists(4, true));
    }
    for l in &lists {
        v.push(("orders", [set(l), call(BCall::WithConfig)].concat()));
    }
    // structure around the setters: s1 / s2 = short setter lists
    use Setter::*;
    let parts: Vec<Vec<Setter>> = if thorough {
        vec![vec![Dl], vec![Rl], vec![Pp], vec![Dl, Rl], vec![Rl, Dl], vec![Dl, Pp, Rl], vec![Pp, Rl, Dl]]
    } else {
        vec![vec![Dl], vec![Rl], vec![Pp], vec![Rl, Dl], vec![Dl, Pp, Rl]]
    };
    for s1 in &parts {
        v.push(("never-installed", set(s1)));
        v.push(("provider-default", [call(BCall::ProviderDefault), set(s1), call(BCall::WithConfig)].concat()));
        for s2 in &parts {
            let (a, b) = (set(s1), set(s2));
            let wc = || call(BCall::WithConfig);
            v.push(("setter-after-install", [a.clone(), wc(), b.clone()].concat()));
            v.push(("replaced-by-second-config", [a.clone(), wc(), call(BCall::NewCfg), b.clone(), wc()].concat()));
            v.push(("installed-twice", [a.clone(), wc(), b.clone(), wc()].concat()));
            v.push(("restarted-from-default", [a.clone(), call(BCall::NewCfg), b.clone(), wc()].concat()));
            v.push(("cloned-in-between", [a.clone(), call(BCall::CloneCfg), b.clone(), wc()].concat()));
        }
    }
    for fixed in [
        vec![],
        vec![BCall::WithConfig, BCall::WithConfig],
        vec![BCall::NewCfg, BCall::WithConfig],
        vec![BCall::CloneCfg, BCall::WithConfig],
        vec![BCall::ProviderDefault],
        vec![BCall::ProviderDefault, BCall::WithConfig],
    ] {
        v.push(("fixed", fixed.into_iter().map(Shape::Call).collect()));
    }
    v
}

struct KJob {
    cfg: Cfg,
    init: Vec<(User, Pw)>,
    ops: Vec<AOp>,
    tags: Vec<String>,
}

/// Clock advances that visit, in order, every reading `t0 + p` for p in {v-1, v, v+1 : v in cands} that lies after
/// `t0 + rel` and can be set (`< u64::MAX`, the "use the system clock" value of the hook).
fn ticks_through(t0: u64, rel: u64, cands: &[u64]) -> Vec<AOp> {
    let mut pts: Vec<u64> = cands.iter().flat_map(|v| [v.checked_sub(1), Some(*v), v.checked_add(1)]).flatten().collect();
    pts.sort();
    pts.dedup();
    let mut at = rel;
    let mut ops = Vec::new();
    for p in pts {
        if p > at && t0.checked_add(p).map(|x| x < u64::MAX).unwrap_or(false) {
            ops.push(AOp::Tick(p - at));
            at = p;
        }
    }
    ops
}

/// SET-UP DIMENSION (class K). For every shape of set-up code (`setup_shapes`) and valuation of its calls: sequences
/// that observe each configured quantity under the controlled clock. The clock visits one before / exactly / one
/// after EVERY lifetime that occurs anywhere in the set-up code (and the default 3600 and the lifetime of the
/// `create_session_with_lifetime` involved), not only the one the calls denote, so a session that lives by a
/// wrong one of them is seen at the first reading where the two differ.
fn setup_jobs(pool: &mut Pool, thorough: bool) -> (Vec<KJob>, Vec<KJob>) {
    let shapes = setup_shapes(thorough);
    let mut clock_jobs = Vec::new();
    let mut pepper_jobs = Vec::new();
    let now0s = [5000u64, 1, 1_700_000_000, 86_400, 0, 4_102_444_800];
    let overrides = [10u64, 77, 500, 5000, 100_000, 1 << 40, 0];
    let long = 1_000_000_000_000u64;
    for (si, (class, shape)) in shapes.iter().enumerate() {
        let n_val = match (*class, thorough) {
            ("orders", false) => 2,
            ("orders", true) => 6,
            (_, false) => 1,
            (_, true) => 3,
        };
        for j in 0..n_val {
            let now0 = now0s[(si + j) % now0s.len()];
            // `now + lifetime` just fits / just overflows: only with a controlled clock AHEAD of the real one (the hook in
            // session.rs evaluates the real-clock sum before the controlled one, so with a controlled clock behind
            // the real one the real sum would overflow first); u64::MAX itself overflows at every reading but 0
            let mut sweep: Vec<u64> = SETUP_LIFETIMES.iter().copied().filter(|l| *l < u64::MAX || now0 >= 1).collect();
            if now0 >= 4_102_444_800 {
                sweep.extend([u64::MAX - now0 - 2, u64::MAX - now0 - 1, u64::MAX - now0, u64::MAX - now0 + 1]);
            }
            let calls = valuate(shape, &sweep, si * 7 + j * 13, (si + j) % 2 == 0);
            let pd = calls.first() == Some(&BCall::ProviderDefault);
            let (dl, _rl, pepper) = effective(&calls);
            let mut cands: Vec<u64> = vec![3600];
            cands.extend(calls.iter().filter_map(|c| match c {
                BCall::Dl(n) | BCall::Rl(n) => Some(*n),
                _ => None,
            }));
            let ovr = *overrides.iter().cycle().skip(si + j).find(|l| !cands.contains(l)).unwrap();
            let with = |extra: &[u64]| -> Vec<u64> { [cands.clone(), extra.to_vec()].concat() };
            let d0 = ((si + j) % 3) as u64;
            let mut phases: Vec<(&'static str, Vec<AOp>)> = Vec::new();
            // the default lifetime: a session lives exactly that long; a second one only afterwards
            phases.push(("default-lifetime", [vec![AOp::CreateSession(0), AOp::CreateSession(0)], ticks_through(now0, 0, &cands), vec![AOp::GetUid(0), AOp::CreateSession(0), AOp::GetUid(1)]].concat()));
            // the refresh lifetime: refreshed early / from a long session (the refresh shortens it) / twice
            let tick = |d: u64| if d > 0 { vec![AOp::Tick(d)] } else { vec![] };
            phases.push(("refresh-early", [vec![AOp::CreateSession(0)], tick(d0), vec![AOp::Refresh(0)], ticks_through(now0 + d0, 0, &with(&[dl.saturating_sub(d0)])), vec![AOp::Refresh(0), AOp::GetUid(0)]].concat()));
            phases.push(("refresh-of-long-session", [vec![AOp::CreateSessionLifetime(0, long), AOp::Tick(3), AOp::Refresh(0)], ticks_through(now0 + 3, 0, &with(&[long - 3])), vec![AOp::Refresh(0), AOp::AuthRoute(Some(0), 0)]].concat()));
            phases.push(("refresh-twice", [vec![AOp::CreateSessionLifetime(0, long), AOp::Refresh(0), AOp::Tick(2), AOp::Refresh(0)], ticks_through(now0 + 2, 0, &with(&[long - 2])), vec![AOp::GetUid(0)]].concat()));
            // refreshed in the last second of the default lifetime / exactly at its end (refused)
            if dl >= 1 && dl < u64::MAX / 4 {
                phases.push(("refresh-in-last-second", [vec![AOp::CreateSession(0), AOp::Tick(dl - 1), AOp::Refresh(0)], ticks_through(now0 + dl - 1, 0, &cands), vec![AOp::GetUid(0)]].concat()));
                phases.push(("refresh-at-expiry", vec![AOp::CreateSession(0), AOp::Tick(dl), AOp::Refresh(0), AOp::GetUid(0), AOp::CreateSession(0), AOp::Refresh(1), AOp::GetUid(1)]));
            }
            // create_session_with_lifetime overrides the default, create_session afterwards uses it again
            phases.push(("lifetime-override", [vec![AOp::CreateSessionLifetime(0, ovr), AOp::CreateSession(0)], ticks_through(now0, 0, &with(&[ovr])), vec![AOp::GetUid(0), AOp::CreateSession(0), AOp::GetUid(1)]].concat()));
            // three users at once: default, overridden, refreshed one second later
            phases.push(("three-users", [vec![AOp::CreateSession(0), AOp::CreateSessionLifetime(1, ovr), AOp::CreateSession(2), AOp::Tick(1), AOp::Refresh(2)], ticks_through(now0, 1, &[with(&[ovr]), cands.iter().filter_map(|v| v.checked_add(1)).collect()].concat()), vec![AOp::GetUid(0), AOp::GetUid(1), AOp::GetUid(2)]].concat()));
            // quick: the structural shapes with three of the phases in turn, the order shapes with all of them
            let keep = |pi: usize| thorough || *class == "orders" || pi % 3 == (si + j) % 3;
            for (pi, (phase, ops)) in phases.into_iter().enumerate() {
                if !keep(pi) {
                    continue;
                }
                let (init, ops) = if pd {
                    // AuthProvider::default() has no users: create them through the provider
                    let users = if phase == "three-users" { 3 } else { 1 };
                    (Vec::new(), [(0..users).map(|u| AOp::CreateUser(Pw::pool(u))).collect(), ops].concat())
                } else {
                    (pool.get(pepper, 3), ops)
                };
                clock_jobs.push(KJob { cfg: Cfg::built(calls.clone(), pepper, now0), init, ops, tags: vec![format!("setup-shape:{}", class), format!("setup-observed:{}", phase)] });
            }
            // the pepper: users hashed OUTSIDE the provider with every pepper that occurs in the set-up code (and
            // none, and one that does not occur) verify through the provider exactly when it is the one the calls denote
            if j == 0 {
                let mut peps: Vec<u64> = vec![0];
                peps.extend(calls.iter().filter_map(|c| if let BCall::Pp(n) = c { Some(*n) } else { None }));
                peps.push(1 + (si as u64) % 3);
                peps.sort();
                peps.dedup();
                if !thorough {
                    // the denoted one and one other in turn
                    let other: Vec<u64> = peps.iter().copied().filter(|p| *p != pepper).collect();
                    peps = vec![pepper, other[si % other.len()]];
                }
                for ip in peps {
                    let (init, ops) = if pd {
                        (Vec::new(), vec![AOp::CreateUser(Pw::pool(0)), AOp::Verify(0, Pw::pool(0)), AOp::Verify(0, Pw::pool(2))])
                    } else {
                        let init = pool.get(ip, 2);
                        let mut ops = vec![AOp::Verify(0, init[0].1.clone()), AOp::Verify(0, init[1].1.clone()), AOp::Verify(1, init[1].1.clone())];
                        if si % 4 == 0 {
                            ops.extend([AOp::CreateUser(Pw::pool(3)), AOp::Verify(2, Pw::pool(3)), AOp::Verify(2, Pw::pool(2))]);
                        }
                        (init, ops)
                    };
                    let tag = if ip == pepper { "setup-observed:pepper(outside-users-same)" } else { "setup-observed:pepper(outside-users-other)" };
                    pepper_jobs.push(KJob { cfg: Cfg::built(calls.clone(), ip, now0), init, ops, tags: vec![format!("setup-shape:{}", class), tag.to_string()] });
                    if pd {
                        break;
                    }
                }
            }
        }
    }
    (clock_jobs, pepper_jobs)
}

/// Password of a user created inside a random sequence: mostly the small pool, sometimes a structured long one.
fn gen_new_pw(rng: &mut Rng) -> Pw {
    if rng.chance(3, 4) {
        Pw::pool(rng.below(4))
    } else {
        let len = *rng.pick(&[0usize, 1, 7, 8, 31, 32, 64, 71, 72, 73, 127, 128, 129, 255, 256, 257, 600]);
        Pw(base_pw(rng.below(3), rng.below(4), len))
    }
}

/// A derivation code for a secret of `n` characters (see `derive_secret`).
fn gen_code(rng: &mut Rng, n: u64, plain: bool) -> u64 {
    loop {
        let c = match rng.below(4) {
            0 => rng.below(n),
            1 => 100 + rng.below(n),
            2 => 200 + rng.below(n),
            _ => 300 + rng.below(10),
        };
        if !plain || derived_plain(c) {
            return c;
        }
    }
}

/// A random length near-miss (see `derive_len`) of the real value `base` whose length is `secret_len`.
fn gen_len_index(rng: &mut Rng, base: u64, secret_len: usize) -> u64 {
    match rng.below(4) {
        0 => {
            let kind = *rng.pick(&[D2_CUT_BACK, D2_CUT_FRONT, D2_FLIP_BACK, D2_FLIP_FRONT, D2_ROTATE]);
            let n = rng.range(1, secret_len as u64 - if kind == D2_ROTATE { 1 } else { 0 }) as usize;
            derived2(base, kind, n)
        }
        _ => {
            let side = if rng.chance(1, 2) { D2_BACK } else { D2_FRONT };
            let steps = len_steps(secret_len, false);
            let n = match rng.below(3) {
                0 => *rng.pick(&steps),
                1 => 256 * rng.range(1, 16) as usize,
                _ => rng.range(1, 70_000) as usize,
            };
            derived2(base, side + rng.below(D2_FILLERS), n)
        }
    }
}

/// `f` over `items` on up to 8 threads, results in input order.
fn par_map<T: Sync, R: Send>(items: &[T], f: impl Fn(&T) -> R + Sync) -> Vec<R> {
    let threads = std::thread::available_parallelism().map(|x| x.get()).unwrap_or(1).clamp(1, 8);
    let next = std::sync::atomic::AtomicUsize::new(0);
    let results: Mutex<Vec<Option<R>>> = Mutex::new((0..items.len()).map(|_| None).collect());
    std::thread::scope(|sc| {
        for _ in 0..threads {
            sc.spawn(|| loop {
                let i = next.fetch_add(1, Ordering::SeqCst);
                if i >= items.len() {
                    break;
                }
                let r = f(&items[i]);
                results.lock().unwrap_or_else(|e| e.into_inner())[i] = Some(r);
            });
        }
    });
    results.into_inner().unwrap_or_else(|e| e.into_inner()).into_iter().map(|r| r.expect("worker result")).collect()
}

fn len_bucket(n: usize) -> &'static str {
    match n {
        0 => "0",
        1..=15 => "1..15",
        16..=71 => "16..71",
        72..=127 => "72..127",
        128..=255 => "128..255",
        256..=999 => "256..999",
        1000..=4095 => "1000..4095",
        _ => "4096..",
    }
}

struct PwJob {
    cfg: Cfg,
    ops: Vec<AOp>,
    tags: Vec<String>,
}

fn fam_name(fam: u64) -> &'static str {
    match fam {
        FAM_MULTI => "multibyte",
        FAM_NUL => "with-nul",
        _ => "ascii",
    }
}

/// Password sweep (class P): for a base password `x` of every listed byte length and its near-misses `q`:
/// forward = create a user with `x`, verify `x`, verify every `q`; reverse = create a user per `q` (for the listed
/// variants), verify `x` and `q` on it.
fn pw_jobs(thorough: bool, rng: &mut Rng) -> Vec<PwJob> {
    let span = |a: usize, b: usize| (a..=b).collect::<Vec<usize>>();
    let cat = |parts: &[Vec<usize>]| parts.concat();
    let lens: Vec<(u64, Vec<usize>)> = if thorough {
        vec![
            (
                FAM_ASCII,
                cat(&[
                    span(0, 136),
                    vec![140, 150, 160, 191, 192, 193, 200],
                    span(254, 258),
                    vec![300, 383, 384, 385, 500, 511, 512, 513, 767, 768, 769, 1000, 1023, 1024, 1025, 2047, 2048, 2049],
                    vec![4095, 4096, 4097, 8191, 8192, 8193, 10000, 16383, 16384, 16385, 32768, 65535, 65536, 65537],
                ]),
            ),
            (FAM_MULTI, cat(&[span(0, 140), span(255, 259), span(511, 514), span(1000, 1003), span(4095, 4098), vec![10000]])),
            (FAM_NUL, cat(&[span(1, 70), span(127, 130), span(255, 257), vec![1000, 4096]])),
        ]
    } else {
        vec![
            (FAM_ASCII, vec![0, 1, 8, 16, 32, 55, 56, 64, 72, 100, 127, 128, 129, 255, 256, 257, 1000, 4096, 10000]),
            (FAM_MULTI, vec![3, 9, 17, 33, 56, 57, 65, 73, 74, 128, 129, 130, 131, 256, 257, 258, 1000, 4097]),
            (FAM_NUL, vec![1, 4, 8, 16, 64, 128, 129, 256, 1000]),
        ]
    };
    let quick_skip = ["doubled", "prepend-space", "append-multibyte", "case-all", "case-first-letter"];
    let reverse_names: &[&str] = if thorough {
        &["last-char", "first-char", "middle-char", "drop-last(proper-prefix)", "append-char", "append-nul", "case-last-letter", "cut-at-nul"]
    } else {
        &["last-char", "drop-last(proper-prefix)", "append-char", "cut-at-nul"]
    };
    let mut jobs = Vec::new();
    let mut k = 0u64;
    for (fam, ls) in &lens {
        for len in ls {
            let stream = if thorough { k % 3 } else { 0 };
            let x = base_pw(*fam, stream, *len);
            assert_eq!(x.len(), *len, "base password has the byte length asked for");
            let nchars = x.chars().count();
            let npos = if thorough { 4 } else { 1 };
            let extra: Vec<usize> = (0..npos).filter(|_| nchars > 0).map(|_| rng.below(nchars as u64) as usize).collect();
            let mut vars = pw_variants(&x, &extra);
            if !thorough {
                vars.retain(|(name, _)| !quick_skip.contains(name));
            }
            let bucket = format!("pwlen:{}:{}", fam_name(*fam), len_bucket(*len));
            // forward
            let mut ops = vec![AOp::CreateUser(Pw(x.clone())), AOp::Verify(0, Pw(x.clone()))];
            let mut tags = vec![bucket.clone(), "pwpair:same-password".to_string()];
            for (name, q) in &vars {
                ops.push(AOp::Verify(0, Pw(q.clone())));
                tags.push(format!("pwpair:{}", name));
            }
            jobs.push(PwJob { cfg: Cfg::plain(k % 2, 3600, 3600, 5000), ops, tags });
            // reverse
            let rev: Vec<&(&'static str, String)> = vars.iter().filter(|(name, _)| reverse_names.contains(name)).collect();
            if !rev.is_empty() {
                let mut ops: Vec<AOp> = rev.iter().map(|(_, q)| AOp::CreateUser(Pw(q.clone()))).collect();
                let mut tags = vec![bucket.clone()];
                for (i, (name, q)) in rev.iter().enumerate() {
                    ops.push(AOp::Verify(i as u64, Pw(x.clone())));
                    ops.push(AOp::Verify(i as u64, Pw(q.clone())));
                    tags.push(format!("pwpair-reverse:{}", name));
                }
                jobs.push(PwJob { cfg: Cfg::plain((k + 1) % 2, 3600, 3600, 5000), ops, tags });
            }
            k += 1;
        }
    }
    if thorough {
        // random (family, stream, length, position) pairs
        for i in 0..400u64 {
            let fam = rng.below(3);
            let len = if rng.chance(1, 4) { rng.range(1, 5000) } else { rng.range(1, 300) } as usize;
            let x = base_pw(fam, 3 + rng.below(50), len);
            let nchars = x.chars().count();
            let extra: Vec<usize> = (0..3).map(|_| rng.below(nchars as u64) as usize).collect();
            let vars: Vec<(&'static str, String)> =
                pw_variants(&x, &extra).into_iter().filter(|(n, _)| *n == "one-char-at-random-position" || *n == "last-char").collect();
            let mut ops = vec![AOp::CreateUser(Pw(x.clone())), AOp::Verify(0, Pw(x.clone()))];
            let mut tags = vec![format!("pwlen:{}:{}", fam_name(fam), len_bucket(len)), "pwpair:same-password".to_string()];
            for (name, q) in &vars {
                ops.push(AOp::Verify(0, Pw(q.clone())));
                tags.push(format!("pwpair:{}", name));
            }
            jobs.push(PwJob { cfg: Cfg::plain(i % 2, 3600, 3600, 5000), ops, tags });
        }
    }
    jobs
}

type HashJob = (Pw, Option<Vec<u8>>, Vec<(Pw, Option<Vec<u8>>)>, Vec<String>);

/// Pepper sweep on `User::create` / `User::verify` directly: a pepper of every listed length against its near-misses
/// (one byte changed at the end / start / middle, one byte shorter, one byte longer, no pepper) and a wrong password.
fn pepper_jobs(thorough: bool) -> Vec<HashJob> {
    let lens: Vec<usize> = if thorough {
        [(1..=140).collect::<Vec<usize>>(), vec![255, 256, 257, 258, 511, 512, 513, 1000, 1023, 1024, 1025, 4095, 4096, 4097, 10000]].concat()
    } else {
        vec![1, 8, 16, 32, 64, 72, 128, 129, 256, 257, 1000, 4096]
    };
    let mut jobs = Vec::new();
    for (k, len) in lens.iter().enumerate() {
        let pep = Rng::new(0x9E99_E500 + (k as u64 % 3)).bytes(*len);
        let pw = if k % 2 == 0 { Pw::pool(0) } else { Pw(base_pw(FAM_ASCII, 1, 130)) };
        let n = pep.len();
        let with = |i: usize| -> Vec<u8> {
            let mut v = pep.clone();
            v[i] ^= 1;
            v
        };
        let mut cands: Vec<(&str, Option<Vec<u8>>)> = vec![
            ("same-pepper", Some(pep.clone())),
            ("last-byte", Some(with(n - 1))),
            ("first-byte", Some(with(0))),
            ("append-nul", Some([pep.clone(), vec![0]].concat())),
            ("append-byte", Some([pep.clone(), vec![b'x']].concat())),
            ("no-pepper", None),
        ];
        if n >= 3 {
            cands.push(("middle-byte", Some(with(n / 2))));
        }
        if n >= 2 {
            cands.push(("drop-last(proper-prefix)", Some(pep[..n - 1].to_vec())));
            cands.push(("drop-first(proper-suffix)", Some(pep[1..].to_vec())));
        }
        let mut tries: Vec<(Pw, Option<Vec<u8>>)> = Vec::new();
        let mut tags = vec![format!("peplen:{}", len_bucket(*len))];
        for (name, c) in cands {
            if c.as_ref() != Some(&pep) || name == "same-pepper" {
                tries.push((pw.clone(), c));
                tags.push(format!("peppair:{}", name));
            }
        }
        let q = pw_variants(&pw.0, &[]).remove(0).1;
        tries.push((Pw(q), Some(pep.clone())));
        tags.push("peppair:same-pepper-wrong-password".into());
        jobs.push((pw, Some(pep), tries, tags));
    }
    jobs
}

/// Near-misses of real tokens / uids (classes T and U): every derivation code, on every operation that takes the
/// secret, in sequences of `chunk` operations on pool users (no hashing).
fn secret_sweeps(out: &mut Out, pool: &mut Pool, thorough: bool) {
    let codes = |n: u64| -> Vec<u64> { (0..n).chain(100..100 + n).chain(200..200 + n).chain(300..310).collect() };
    let chunk = 40;
    // tokens
    let bases: &[u64] = if thorough { &[0, 1] } else { &[0] };
    for kind in 0..4u64 {
        for base in bases {
            let cs: Vec<u64> = codes(64).into_iter().filter(|c| kind != 1 || derived_plain(*c)).collect();
            for (ci, part) in cs.chunks(chunk).enumerate() {
                // quick: alternate the token the near-misses are derived from
                let b = if thorough { *base } else { ci as u64 % 2 };
                let mut ops = vec![AOp::CreateSession(0), AOp::CreateSessionLifetime(1, 50)];
                for c in part {
                    let t = derived(b, *c);
                    ops.push(match kind {
                        0 => AOp::GetUid(t),
                        1 => AOp::AuthRoute(Some(t), c % 3),
                        2 => AOp::Refresh(t),
                        _ => AOp::Invalidate(t),
                    });
                }
                ops.extend([AOp::GetUid(0), AOp::AuthRoute(Some(1), 0), AOp::Tick(50), AOp::GetUid(derived(1, 100 + 63)), AOp::Refresh(derived(1, 300))]);
                let pepper = ci as u64 % 2;
                let cfg = Cfg::plain(pepper, 3600, 3600, 5000);
                let init = pool.get(pepper, 3);
                emit(out, &cfg, init, &ops, "T:token-near-miss");
            }
        }
    }
    // uids
    let bases: &[u64] = if thorough { &[0, 1, 2] } else { &[1] };
    for kind in 0..6u64 {
        for base in bases {
            for (ci, part) in codes(36).chunks(chunk).enumerate() {
                let pepper = ci as u64 % 2;
                let init = pool.get(pepper, 3);
                let mut ops = vec![AOp::CreateSession(*base)];
                for c in part {
                    let u = derived(*base, *c);
                    ops.push(match kind {
                        0 => AOp::Exists(u),
                        1 => AOp::Verify(u, init[*base as usize].1.clone()),
                        2 => AOp::RemoveUser(u),
                        3 => AOp::CreateSession(u),
                        4 => AOp::CreateSessionLifetime(u, 10),
                        _ => AOp::InvalidateUser(u),
                    });
                }
                ops.extend([AOp::GetUid(0), AOp::Exists(*base)]);
                let cfg = Cfg::plain(pepper, 3600, 3600, 5000);
                emit(out, &cfg, init, &ops, "U:uid-near-miss");
            }
        }
    }
}

fn n_bucket(n: usize) -> &'static str {
    match n {
        0..=63 => "1..63",
        64..=255 => "64..255",
        256..=300 => "256..300",
        301..=1100 => "301..1100",
        1101..=4999 => "1101..4999",
        5000..=69_999 => "5000..69999",
        _ => "70000..",
    }
}

/// LENGTH near-misses of real tokens / uids (classes TL / UL): the secret extended by n characters at the back and at
/// the front with every filler kind, truncated by n at either end, its last / first n characters overwritten, rotated
/// by n -- for every n of `len_steps` (extensions) and every 1 <= n <= length (the others), on every operation that
/// takes the secret, in sequences of `chunk` operations on pool users (no hashing).
fn length_sweeps(out: &mut Out, pool: &mut Pool, thorough: bool) {
    let variants = |len: usize| -> Vec<(u64, usize)> {
        let mut v = Vec::new();
        for side in [D2_BACK, D2_FRONT] {
            for f in 0..D2_FILLERS {
                for n in len_steps(len, thorough) {
                    // the very long ones with the one-byte fillers only (a 2 MiB cookie adds nothing)
                    if n < 100_000 || f < 3 {
                        v.push((side + f, n));
                    }
                }
            }
        }
        for kind in [D2_CUT_BACK, D2_CUT_FRONT, D2_FLIP_BACK, D2_FLIP_FRONT] {
            for n in 1..=len {
                v.push((kind, n));
            }
        }
        for n in 1..len {
            v.push((D2_ROTATE, n));
        }
        v
    };
    let chunk = 40;
    let note = |out: &mut Out, class: &str, part: &[(u64, usize)]| {
        for (kind, n) in part {
            out.count(&format!("{}:{}", class, d2_kind_name(*kind)));
            if *kind < 20 {
                out.count(&format!("{}:extended-by:{}", class, n_bucket(*n)));
            }
        }
    };
    // tokens
    let vs = variants(64);
    for kind in 0..4u64 {
        for (ci, part) in vs.chunks(chunk).enumerate() {
            // alternate the token the near-misses are derived from: 0 = default lifetime, 1 = lifetime 50
            let b = ci as u64 % 2;
            let mut ops = vec![AOp::CreateSession(0), AOp::CreateSessionLifetime(1, 50)];
            for (k, n) in part {
                let t = derived2(b, *k, *n);
                ops.push(match kind {
                    0 => AOp::GetUid(t),
                    1 => AOp::AuthRoute(Some(t), (*n as u64) % 3),
                    2 => AOp::Refresh(t),
                    _ => AOp::Invalidate(t),
                });
            }
            // the real sessions are untouched: still live, then the short one expires on time
            ops.extend([AOp::GetUid(0), AOp::AuthRoute(Some(1), 0), AOp::Tick(50), AOp::GetUid(1), AOp::Refresh(derived2(1, D2_BACK, 256))]);
            let pepper = ci as u64 % 2;
            let cfg = Cfg::plain(pepper, 3600, 3600, 5000);
            let init = pool.get(pepper, 3);
            note(out, "TL", part);
            emit(out, &cfg, init, &ops, "TL:token-length-near-miss");
        }
    }
    // uids
    let vs = variants(36);
    for kind in 0..6u64 {
        for (ci, part) in vs.chunks(chunk).enumerate() {
            let base = ci as u64 % 3;
            let pepper = ci as u64 % 2;
            let init = pool.get(pepper, 3);
            let mut ops = vec![AOp::CreateSession(base)];
            for (k, n) in part {
                let u = derived2(base, *k, *n);
                ops.push(match kind {
                    0 => AOp::Exists(u),
                    1 => AOp::Verify(u, init[base as usize].1.clone()),
                    2 => AOp::RemoveUser(u),
                    3 => AOp::CreateSession(u),
                    4 => AOp::CreateSessionLifetime(u, 10),
                    _ => AOp::InvalidateUser(u),
                });
            }
            ops.extend([AOp::GetUid(0), AOp::Exists(base)]);
            let cfg = Cfg::plain(pepper, 3600, 3600, 5000);
            note(out, "UL", part);
            emit(out, &cfg, init, &ops, "UL:uid-length-near-miss");
        }
    }
}

pub fn gen(out: &mut Out, thorough: bool, seed: u64) {
    let mut rng = Rng::new(seed ^ 0xC17);
    let mut pool = Pool::new();
    // directed sequences: the scenarios the property names
    let directed: Vec<Vec<AOp>> = vec![
        // expired token, then refresh, then look it up
        vec![AOp::CreateSessionLifetime(0, 0), AOp::Refresh(0), AOp::GetUid(0), AOp::AuthRoute(Some(0), 0)],
        // token expires by the clock, refresh afterwards
        vec![AOp::CreateSessionLifetime(0, 10), AOp::Tick(9), AOp::GetUid(0), AOp::Tick(1), AOp::GetUid(0), AOp::Refresh(0), AOp::GetUid(0)],
        // refresh in time extends
        vec![AOp::CreateSessionLifetime(0, 10), AOp::Tick(9), AOp::Refresh(0), AOp::Tick(3599), AOp::GetUid(0), AOp::Tick(1), AOp::GetUid(0)],
        // second session refused while live, allowed after expiry; old token dead
        vec![AOp::CreateSession(0), AOp::CreateSession(0), AOp::Tick(3600), AOp::CreateSession(0), AOp::GetUid(0), AOp::GetUid(1)],
        // removal kills the token; invalidation of unknown / expired tokens
        vec![AOp::CreateSession(1), AOp::RemoveUser(1), AOp::GetUid(0), AOp::Refresh(0), AOp::AuthRoute(Some(0), 1), AOp::Invalidate(0), AOp::Invalidate(900)],
        vec![AOp::CreateSessionLifetime(0, 0), AOp::Invalidate(0), AOp::CreateSession(0), AOp::InvalidateUser(0), AOp::GetUid(1), AOp::AuthRoute(None, 1)],
        // u64 overflow of now + lifetime
        vec![AOp::CreateSessionLifetime(0, u64::MAX), AOp::Exists(0), AOp::CreateSession(0), AOp::GetUid(0)],
        vec![],
    ];
    for ops in &directed {
        for pepper in [0u64, 1] {
            let cfg = Cfg::plain(pepper, 3600, 3600, 5000);
            let init = pool.get(pepper, 2);
            emit(out, &cfg, init, ops, "directed");
        }
    }
    // the hash contract's pepper clause on the real Argon2
    let combos: &[(u64, u64, u64, u64)] =
        &[(0, 0, 0, 0), (0, 0, 1, 1), (0, 0, 0, 1), (0, 0, 1, 0), (0, 0, 1, 2), (0, 2, 1, 1), (1, 1, 2, 2), (1, 0, 0, 0), (2, 2, 2, 1)];
    for (p, p2, pep, pep2) in combos {
        let r = pepper2(*p, *p2, *pep, *pep2);
        out.count(&format!("pepper2={}", r));
        out.case(&["pepper2", &p.to_string(), &p2.to_string(), &pep.to_string(), &pep2.to_string()], &r, true);
    }
    // class P: long passwords and pairs of different passwords with long common prefixes / suffixes (clock-free
    // sequences of create_user / verify through the provider, run on several threads)
    let mut prng = Rng::new(seed ^ 0xC17_9A55);
    let jobs = pw_jobs(thorough, &mut prng);
    let results = par_map(&jobs, |j| run_seq_opt(&j.cfg, Vec::new(), &j.ops, false));
    for (j, (init_s, ops_s, res, kinds)) in jobs.iter().zip(results) {
        for t in &j.tags {
            out.count(t);
        }
        record(out, &j.cfg, &init_s, &ops_s, &res, &kinds, "P:password-pairs");
    }
    // the pepper as a secret: near-miss peppers on the real Argon2
    let hjobs = pepper_jobs(thorough);
    let results = par_map(&hjobs, |(pw, pep, tries, _)| hashc(pw, pep, tries));
    for ((pw, pep, tries, tags), r) in hjobs.iter().zip(results) {
        for t in tags {
            out.count(t);
        }
        out.count("class=H:pepper-pairs");
        let f = hashc_fields(pw, pep, tries);
        out.case(&["hashc", &f[0], &f[1], &f[2]], &r, true);
    }
    // classes T / U: near-misses of real tokens and uids
    secret_sweeps(out, &mut pool, thorough);
    // classes TL / UL: the same secrets extended / truncated / overwritten by n characters
    length_sweeps(out, &mut pool, thorough);
    // class K: the set-up code of the provider (builder calls present / absent, in every order, repeated, installed
    // or not) against sequences that observe every configured quantity
    let (clock_jobs, pep_jobs) = setup_jobs(&mut pool, thorough);
    for j in &clock_jobs {
        for t in &j.tags {
            out.count(t);
        }
        emit(out, &j.cfg, j.init.clone(), &j.ops, "K:set-up");
    }
    let results = par_map(&pep_jobs, |j| run_seq_opt(&j.cfg, j.init.clone(), &j.ops, false));
    for (j, (init_s, ops_s, res, kinds)) in pep_jobs.iter().zip(results) {
        for t in &j.tags {
            out.count(t);
        }
        record(out, &j.cfg, &init_s, &ops_s, &res, &kinds, "K:set-up-pepper");
    }
    // class A: everything through the provider, users created by create_user (Argon2 on every create / verify)
    let n_a = if thorough { 4000 } else { 400 };
    for _ in 0..n_a {
        let cfg = gen_cfg(&mut rng);
        let len = if rng.chance(1, 4) { rng.range(1, 12) } else { rng.range(12, 60) } as usize;
        gen_seq(out, &mut rng, &cfg, Vec::new(), len, 3, 4, "A:create_user");
    }
    // class B: users taken from a pre-created pool (cloned Vec<User>), no hashing unless a verify is drawn
    let n_b = if thorough { 60_000 } else { 12_000 };
    for i in 0..n_b {
        let cfg = gen_cfg(&mut rng);
        let k = rng.range(1, 5) as usize;
        let init = pool.get(cfg.user_pepper(), k);
        let len = if rng.chance(1, 5) { rng.range(1, 12) } else { rng.range(12, 60) } as usize;
        let max_verify = if i % 8 == 0 { 1 } else { 0 };
        let max_create = if i % 8 == 4 { 1 } else { 0 };
        gen_seq(out, &mut rng, &cfg, init, len, max_create, max_verify, "B:pool");
    }
    out.extra.insert(
        "renaming".into(),
        "real uids/tokens renamed to indices by first appearance; format and distinctness checked in the harness (#fmt=)".into(),
    );
    // long passwords make long lines: keep the evidence samples readable
    for smp in out.samples.iter_mut() {
        if smp.chars().count() > 400 {
            let n = smp.chars().count();
            *smp = format!("{}…({} characters)", smp.chars().take(400).collect::<String>(), n);
        }
    }
    out.extra.insert(
        "secrets".into(),
        "passwords / peppers are carried in the case line (x + hex of the bytes handed to the real code); index 10000+1000*b+c = \
         near-miss c of the real token / uid b (derive_secret), checked in the harness to differ from every real one"
            .into(),
    );
}
