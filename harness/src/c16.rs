//! C16: the file cache (`humphrey_server::server::cache::Cache`) and the static handlers that use it.
//!
//! One case = one whole operation sequence (see `lean/HumphreyModel/Driver/C16.lean` for the encoding):
//! `cache_seq <limit> <timeLimit> <ops>`   sequential, with a lookup sweep over all keys ever stored after every op
//! `cache_log <limit> <timeLimit> <ops>`   lock-ordered log of 1..8 threads going through `AppState.cache` (RwLock)
//! `cache_serve <limit> <timeLimit> <reqs>` `file_handler` / `directory_handler` on files rewritten between requests
use crate::common::*;
use humphrey::http::address::Address;
use humphrey::http::headers::{HeaderType, Headers};
use humphrey::http::method::Method;
use humphrey::http::mime::MimeType;
use humphrey::http::{Request, Response};
use humphrey_server::config::{CacheConfig, Config, LoggingConfig};
use humphrey_server::server::cache::{Cache, CachedItem, VERIF_NOW};
use humphrey_server::server::logger::LogLevel;
use humphrey_server::server::r#static::{directory_handler, file_handler};
use humphrey_server::server::server::AppState;
use std::sync::atomic::{AtomicU64, Ordering};
use std::sync::Arc;

const MIMES: [MimeType; 22] = [
    MimeType::TextCss, MimeType::TextHtml, MimeType::TextJavaScript, MimeType::TextPlain, MimeType::ImageBmp,
    MimeType::ImageGif, MimeType::ImageJpeg, MimeType::ImagePng, MimeType::ImageWebp, MimeType::ImageSvg,
    MimeType::ImageIcon, MimeType::ApplicationOctetStream, MimeType::ApplicationJson, MimeType::ApplicationPdf,
    MimeType::ApplicationZip, MimeType::VideoMp4, MimeType::VideoOgg, MimeType::VideoWebm, MimeType::FontTtf,
    MimeType::FontOtf, MimeType::FontWoff, MimeType::FontWoff2,
];

fn mime_index_of_str(s: &str) -> usize {
    MIMES.iter().position(|m| m.to_string() == s).unwrap_or(999)
}

fn mime_index(m: &MimeType) -> usize {
    mime_index_of_str(&m.to_string())
}

fn mk_data(size: usize, fill: usize) -> Vec<u8> {
    (0..size).map(|i| ((fill + i) & 0xff) as u8).collect()
}

fn fnv(b: &[u8]) -> u32 {
    let mut h: u32 = 2166136261;
    for x in b {
        h = (h ^ (*x as u32)).wrapping_mul(16777619);
    }
    h
}

fn summary(it: &CachedItem) -> String {
    format!("{},{},{},{}", it.data.len(), fnv(&it.data), mime_index(&it.mime_type), it.cache_time)
}

fn state_str(c: &Cache) -> String {
    let (size, items) = c.verif_state();
    let keys: Vec<String> = items.iter().map(|it| format!("{},{}", it.route, it.host)).collect();
    format!("{}|{}", size, keys.join(" "))
}

#[derive(Clone, Debug)]
enum Op {
    Set { t: u64, key: String, host: usize, size: usize, fill: usize, mime: usize },
    Get { t: u64, key: String, host: usize },
}

impl Op {
    fn render(&self, tag: &str) -> String {
        match self {
            Op::Set { t, key, host, size, fill, mime } => format!("{},{},{},{},{},{},{}", tag, t, key, host, size, fill, mime),
            Op::Get { t, key, host } => format!("g,{},{},{}", t, key, host),
        }
    }
}

fn render_ops(ops: &[Op], tag: &str) -> String {
    ops.iter().map(|o| o.render(tag)).collect::<Vec<_>>().join(";")
}

fn parse_ops(s: &str) -> Option<Vec<Op>> {
    let mut v = Vec::new();
    if s.is_empty() {
        return Some(v);
    }
    for part in s.split(';') {
        let f: Vec<&str> = part.split(',').collect();
        match (f[0], f.len()) {
            ("s", 7) | ("r", 7) => v.push(Op::Set {
                t: f[1].parse().ok()?, key: f[2].to_string(), host: f[3].parse().ok()?,
                size: f[4].parse().ok()?, fill: f[5].parse().ok()?, mime: f[6].parse().ok()?,
            }),
            ("g", 4) => v.push(Op::Get { t: f[1].parse().ok()?, key: f[2].to_string(), host: f[3].parse().ok()? }),
            _ => return None,
        }
    }
    Some(v)
}

/// What happened in a sequence (for the histogram and the non-triviality rule).
#[derive(Default)]
struct Seen {
    evictions: u64,
    overwrites: u64,
    hits: u64,
    stale: u64,
    absent: u64,
    panics: u64,
    sets: u64,
}

/// Run a sequence on a fresh real cache. With `sweep`, after every op look up every key ever stored.
fn run_seq(limit: usize, tl: u64, ops: &[Op], sweep: bool, seen: &mut Seen) -> String {
    let mut cache = Cache::verif_new(limit, tl);
    let mut ever: Vec<(String, usize)> = Vec::new();
    let mut recs: Vec<String> = Vec::with_capacity(ops.len());
    for op in ops {
        let mut rec;
        let now;
        match op {
            Op::Set { t, key, host, size, fill, mime } => {
                now = *t;
                VERIF_NOW.store(*t, Ordering::SeqCst);
                let (had, n_before) = {
                    let (_, items) = cache.verif_state();
                    (items.iter().any(|i| &i.route == key && i.host == *host), items.len())
                };
                let data = mk_data(*size, *fill);
                let m = MIMES[*mime % MIMES.len()];
                if guarded(|| cache.set(key, *host, data, m)).is_err() {
                    seen.panics += 1;
                    recs.push("PANIC".into());
                    break;
                }
                seen.sets += 1;
                let n_after = cache.verif_state().1.len();
                if had {
                    seen.overwrites += 1;
                }
                if n_after < n_before + 1 - (had as usize) {
                    seen.evictions += 1;
                }
                if !ever.iter().any(|(k, h)| k == key && h == host) {
                    ever.push((key.clone(), *host));
                }
                rec = String::from("ok");
            }
            Op::Get { t, key, host } => {
                now = *t;
                VERIF_NOW.store(*t, Ordering::SeqCst);
                match guarded(|| cache.get(key, *host).map(|it| format!("{},{},{}", it.route, it.host, summary(it)))) {
                    Err(_) => {
                        seen.panics += 1;
                        recs.push("PANIC".into());
                        break;
                    }
                    Ok(Some(s)) => {
                        seen.hits += 1;
                        rec = s;
                    }
                    Ok(None) => {
                        let present = cache.verif_state().1.iter().any(|i| &i.route == key && i.host == *host);
                        if present { seen.stale += 1 } else { seen.absent += 1 }
                        rec = String::from("none");
                    }
                }
            }
        }
        rec.push('|');
        rec += &state_str(&cache);
        if sweep {
            VERIF_NOW.store(now, Ordering::SeqCst);
            let entries: Vec<String> = ever
                .iter()
                .map(|(k, h)| match guarded(|| cache.get(k, *h).map(summary)) {
                    Ok(Some(s)) => s,
                    Ok(None) => "-".into(),
                    Err(_) => "PANIC".into(),
                })
                .collect();
            rec.push('|');
            rec += &entries.join(" ");
        }
        recs.push(rec);
    }
    VERIF_NOW.store(u64::MAX, Ordering::SeqCst);
    recs.join(";")
}

// ---------------------------------------------------------------- handler level

/// uri -> (is file route, path relative to the work directory, MIME index the handler must derive)
const ROUTES: [(&str, bool, &str, usize); 8] = [
    ("/single", true, "single.html", 1),
    ("/static/a.txt", false, "d/a.txt", 3),
    // names that differ only in ASCII case are different files and different cache keys
    ("/static/A.txt", false, "d/A.txt", 3),
    ("/static/SUB/e.json", false, "d/SUB/e.json", 12),
    ("/static/b.bin", false, "d/b.bin", 11),
    ("/static/sub/", false, "d/sub/index.html", 1),
    ("/static/c.css", false, "d/c.css", 0),
    ("/static/sub/e.json", false, "d/sub/e.json", 12),
];

fn serve_dir() -> String {
    let dir = format!("../work/c16_files_{}", std::process::id());
    std::fs::create_dir_all(format!("{}/d/sub", dir)).expect("create work dir for C16");
    std::fs::create_dir_all(format!("{}/d/SUB", dir)).expect("create work dir for C16");
    dir
}

fn quiet_config(limit: usize, tl: usize) -> Config {
    Config {
        cache: CacheConfig { size_limit: limit, time_limit: tl },
        logging: LoggingConfig { level: LogLevel::Error, console: false, file: None },
        ..Config::default()
    }
}

fn request(uri: &str) -> Request {
    Request {
        method: Method::Get,
        uri: uri.to_string(),
        query: String::new(),
        version: "HTTP/1.1".into(),
        headers: Headers::new(),
        content: None,
        address: Address::new("127.0.0.1:1234").unwrap(),
    }
}

fn response_str(r: &Response) -> String {
    let ct = r.headers.get(HeaderType::ContentType).unwrap_or("");
    let code: u16 = r.status_code.into();
    if code != 200 {
        return format!("STATUS{}", code);
    }
    format!("{},{},{}", r.body.len(), fnv(&r.body), mime_index_of_str(ct))
}

fn run_serve(limit: usize, tl: u64, reqs: &[Op]) -> String {
    let dir = serve_dir();
    let state = Arc::new(AppState::from(quiet_config(limit, tl as usize)));
    let mut recs = Vec::new();
    for op in reqs {
        let (t, uri, host, size, fill) = match op {
            Op::Set { t, key, host, size, fill, .. } => (*t, key, *host, *size, *fill),
            Op::Get { .. } => {
                recs.push("BADOP".to_string());
                break;
            }
        };
        let route = match ROUTES.iter().find(|r| r.0 == uri) {
            Some(r) => r,
            None => {
                recs.push("BADURI".to_string());
                break;
            }
        };
        let path = format!("{}/{}", dir, route.2);
        std::fs::write(&path, mk_data(size, fill)).expect("write file for C16");
        VERIF_NOW.store(t, Ordering::SeqCst);
        let st = state.clone();
        let res = guarded(|| {
            if route.1 {
                file_handler(request(uri), st, &path, host)
            } else {
                directory_handler(request(uri), st, &format!("{}/d", dir), "/static/*", host)
            }
        });
        match res {
            Err(_) => {
                recs.push("PANIC".into());
                break;
            }
            Ok(resp) => {
                let cache = state.cache.read().unwrap();
                recs.push(format!("{}|{}", response_str(&resp), state_str(&cache)));
            }
        }
    }
    VERIF_NOW.store(u64::MAX, Ordering::SeqCst);
    let _ = std::fs::remove_dir_all(&dir);
    recs.join(";")
}

// ---------------------------------------------------------------- exec

/// Re-execute one stored case on the implementation. A `cache_log` case is replayed sequentially, in log order.
pub fn exec(f: &[String]) -> Option<String> {
    if f.len() != 4 {
        return None;
    }
    let limit: usize = f[1].parse().ok()?;
    let tl: u64 = f[2].parse().ok()?;
    let ops = parse_ops(&f[3])?;
    let mut seen = Seen::default();
    match f[0].as_str() {
        "cache_seq" => Some(run_seq(limit, tl, &ops, true, &mut seen)),
        "cache_log" => Some(run_seq(limit, tl, &ops, false, &mut seen)),
        "cache_serve" => Some(run_serve(limit, tl, &ops)),
        _ => None,
    }
}

fn emit_seq(out: &mut Out, limit: usize, tl: u64, ops: &[Op], label: &str) {
    let mut seen = Seen::default();
    let impl_out = run_seq(limit, tl, ops, true, &mut seen);
    tally(out, &seen, label);
    out.case(&["cache_seq", &limit.to_string(), &tl.to_string(), &render_ops(ops, "s")], &impl_out,
             seen.sets >= 2 && (seen.evictions + seen.overwrites + seen.stale) >= 1);
}

fn tally(out: &mut Out, seen: &Seen, label: &str) {
    out.count(&format!("{}:sequences", label));
    for (k, v) in [("set-evicting", seen.evictions), ("set-overwriting", seen.overwrites), ("sets", seen.sets),
                   ("get-hit", seen.hits), ("get-stale", seen.stale), ("get-absent", seen.absent),
                   ("panic", seen.panics)] {
        if v > 0 {
            *out.hist.entry(format!("ops:{}", k)).or_insert(0) += v;
        }
    }
}

// ---------------------------------------------------------------- generators

const EX_KEYS: [&str; 3] = ["/a", "/a/", "/b"];

/// All sequences of exactly `len` stores over `nk` keys x `nh` hosts x `sizes` (a sequence covers all its prefixes,
/// since every op is observed; lookups are covered by the sweep). A sequence ends at the first store larger than the
/// limit (it panics); such sequences are emitted once.
fn exhaustive(out: &mut Out, len: usize, limit: usize, tl: u64, dt: u64, nk: usize, nh: usize, sizes: &[usize]) {
    let nsym = nk * nh * sizes.len();
    let total = nsym.pow(len as u32);
    let mut ops: Vec<Op> = Vec::with_capacity(len);
    for code in 0..total {
        ops.clear();
        let mut c = code;
        let mut first_oversize: Option<usize> = None;
        let mut skip = false;
        for i in 0..len {
            let sym = c % nsym;
            c /= nsym;
            let (k, h, s) = (sym % nk, (sym / nk) % nh, sym / (nk * nh));
            if first_oversize.is_some() {
                // keep one representative of the sequences that differ only after the panic
                if sym != 0 {
                    skip = true;
                    break;
                }
                continue;
            }
            if sizes[s] > limit {
                first_oversize = Some(i);
            }
            ops.push(Op::Set { t: 100 + dt * i as u64, key: EX_KEYS[k].into(), host: h, size: sizes[s],
                               fill: (i * 16 + sym) & 0xff, mime: sym % 22 });
        }
        if skip {
            continue;
        }
        emit_seq(out, limit, tl, &ops, "exhaustive");
    }
}

const KEYS16: [&str; 16] = ["/", "/a", "/a/", "/A", "/a.html", "/a.htm", "/b", "/b/c", "/b/c/", "/é", "/e\u{301}",
                            "/index.html", "/%61", "/a?x", "/aa", "/😀"];

/// `full`: a sequence at the top of the quantifier's range (about 2000 ops, limit about 64 KiB). Otherwise
/// `limit x length` is capped (the Lean side walks `List UInt8`), by lowering the limit.
fn random_seq(rng: &mut Rng, full: bool) -> (usize, u64, Vec<Op>) {
    let limit = if full { *rng.pick(&[65536usize, 65535, 60000]) } else { match rng.below(4) {
        0 => rng.below(65) as usize,
        1 => rng.range(64, 4096) as usize,
        2 => rng.range(4096, 65536) as usize,
        _ => *rng.pick(&[0usize, 1, 2, 255, 256, 1024, 65535, 65536]),
    } };
    let tl = *rng.pick(&[0u64, 1, 60]);
    let len = match rng.below(10) {
        0..=4 => rng.range(1, 50),
        5..=7 => rng.range(50, 400),
        _ => rng.range(400, 2000),
    } as usize;
    let len = if full { rng.range(1900, 2000) as usize } else { len };
    let limit = if !full && limit * len > 4_000_000 { 4_000_000 / len } else { limit };
    let nkeys = *rng.pick(&[1usize, 2, 3, 8, 16, 16]);
    let nhosts = rng.range(1, 2) as usize;
    let typical = limit / *rng.pick(&[1usize, 2, 3, 5, 8, 16, 40]);
    let oversize_at = if rng.chance(1, 25) { Some(rng.below(len as u64) as usize) } else { None };
    let backwards_at = if rng.chance(1, 25) { Some(rng.below(len as u64) as usize) } else { None };
    let mut t: u64 = rng.below(1000);
    let mut ops = Vec::with_capacity(len);
    for i in 0..len {
        // non-decreasing clock, mostly standing still, sometimes jumping past the time limit
        match rng.below(12) {
            0..=6 => {}
            7..=9 => t += 1,
            10 => t += tl,
            _ => t += tl + 1 + rng.below(3),
        }
        if backwards_at == Some(i) {
            t = t.saturating_sub(rng.range(1, 3));
        }
        let key = KEYS16[rng.below(nkeys as u64) as usize].to_string();
        let host = rng.below(nhosts as u64) as usize;
        if rng.chance(3, 4) {
            let mut size = match rng.below(8) {
                0 => 0,
                1 => limit,
                2 => limit / 2,
                3 => limit.saturating_sub(1),
                4 => limit / 2 + 1,
                _ => rng.below(2 * typical as u64 + 1) as usize,
            }
            .min(limit);
            if oversize_at == Some(i) {
                size = limit + 1 + rng.below(3) as usize;
            }
            ops.push(Op::Set { t, key, host, size, fill: rng.below(256) as usize, mime: rng.below(22) as usize });
        } else {
            ops.push(Op::Get { t, key, host });
        }
    }
    (limit, tl, ops)
}

static SEQ: AtomicU64 = AtomicU64::new(0);
/// Set (under the lock) by a worker whose cache call panicked: the log ends there.
static STOP: std::sync::atomic::AtomicBool = std::sync::atomic::AtomicBool::new(false);

/// `threads` threads issue stores and lookups through `AppState.cache` as the handlers do (`read()` for `get`,
/// `write()` for `set`). Every operation takes a global sequence number and reads the clock while holding the lock,
/// so the merged log is a linearisation; the clock only advances under the write lock.
fn concurrent(out: &mut Out, seed: u64, threads: usize, per_thread: usize, limit: usize, tl: u64) {
    let state = Arc::new(AppState::from(quiet_config(limit, tl as usize)));
    SEQ.store(0, Ordering::SeqCst);
    STOP.store(false, Ordering::SeqCst);
    VERIF_NOW.store(500, Ordering::SeqCst);
    let mut handles = Vec::new();
    for th in 0..threads {
        let state = state.clone();
        handles.push(std::thread::spawn(move || {
            let mut rng = Rng::new(seed.wrapping_mul(1000).wrapping_add(th as u64));
            let mut log: Vec<(u64, Op, String)> = Vec::with_capacity(per_thread);
            let typical = limit / *rng.pick(&[2usize, 3, 5, 8]);
            for _ in 0..per_thread {
                let key = KEYS16[rng.below(8) as usize].to_string();
                let host = rng.below(2) as usize;
                if rng.chance(1, 2) {
                    let size = (rng.below(2 * typical as u64 + 1) as usize).min(limit);
                    let fill = rng.below(256) as usize;
                    let mime = rng.below(22) as usize;
                    let data = mk_data(size, fill);
                    let jump = match rng.below(10) { 0..=6 => 0, 7 | 8 => 1, _ => tl + 1 };
                    // exactly as inner_file_handler: write lock, then set
                    let mut cache = state.cache.write().unwrap();
                    if STOP.load(Ordering::SeqCst) {
                        break;
                    }
                    let seq = SEQ.fetch_add(1, Ordering::SeqCst);
                    let t = VERIF_NOW.fetch_add(jump, Ordering::SeqCst) + jump;
                    let rec = match guarded(|| cache.set(&key, host, data, MIMES[mime])) {
                        Ok(()) => format!("ok|{}", state_str(&cache)),
                        Err(_) => {
                            STOP.store(true, Ordering::SeqCst);
                            "PANIC".into()
                        }
                    };
                    drop(cache);
                    log.push((seq, Op::Set { t, key, host, size, fill, mime }, rec));
                } else {
                    // exactly as cache_check: read lock, then get
                    let cache = state.cache.read().unwrap();
                    if STOP.load(Ordering::SeqCst) {
                        break;
                    }
                    let seq = SEQ.fetch_add(1, Ordering::SeqCst);
                    let t = VERIF_NOW.load(Ordering::SeqCst);
                    let rec = match guarded(|| cache.get(&key, host).map(|it| format!("{},{},{}", it.route, it.host, summary(it)))) {
                        Ok(Some(s)) => format!("{}|{}", s, state_str(&cache)),
                        Ok(None) => format!("none|{}", state_str(&cache)),
                        // several readers may hold the lock: records after the first PANIC are cut off below
                        Err(_) => {
                            STOP.store(true, Ordering::SeqCst);
                            "PANIC".into()
                        }
                    };
                    drop(cache);
                    log.push((seq, Op::Get { t, key, host }, rec));
                }
                if rng.chance(1, 8) {
                    std::thread::yield_now();
                }
            }
            log
        }));
    }
    let mut all: Vec<(u64, Op, String)> = Vec::new();
    for h in handles {
        all.extend(h.join().expect("C16 worker thread panicked"));
    }
    VERIF_NOW.store(u64::MAX, Ordering::SeqCst);
    all.sort_by_key(|x| x.0);
    if let Some(i) = all.iter().position(|x| x.2 == "PANIC") {
        all.truncate(i + 1);
    }
    let ops: Vec<Op> = all.iter().map(|x| x.1.clone()).collect();
    let impl_out = all.iter().map(|x| x.2.as_str()).collect::<Vec<_>>().join(";");
    out.count(&format!("concurrent:threads={}", threads));
    *out.hist.entry("concurrent:ops".into()).or_insert(0) += all.len() as u64;
    out.case(&["cache_log", &limit.to_string(), &tl.to_string(), &render_ops(&ops, "s")], &impl_out, threads >= 2);
}

fn handler_seq(out: &mut Out, rng: &mut Rng) {
    let limit = *rng.pick(&[0usize, 1, 8, 64, 64, 300, 300, 4096]);
    let tl = *rng.pick(&[0u64, 1, 60]);
    let n = rng.range(5, 60) as usize;
    let nroutes = rng.range(1, ROUTES.len() as u64) as usize;
    let mut t = rng.below(100);
    let mut reqs = Vec::new();
    // current contents per file (files are shared by both hosts); rewritten on about half of the requests
    let mut cur: Vec<(usize, usize)> = vec![(rng.below(40) as usize, 0); ROUTES.len()];
    for _ in 0..n {
        match rng.below(10) {
            0..=5 => {}
            6..=7 => t += 1,
            8 => t += tl,
            _ => t += tl + 1,
        }
        let r = rng.below(nroutes as u64) as usize;
        if rng.chance(1, 2) {
            let size = match rng.below(6) {
                0 => limit,
                1 => limit + 1,
                2 => 0,
                _ => rng.below((limit as u64).max(8) + 8) as usize,
            };
            cur[r] = (size, rng.below(256) as usize);
        }
        reqs.push(Op::Set { t, key: ROUTES[r].0.into(), host: rng.below(2) as usize, size: cur[r].0, fill: cur[r].1,
                            mime: ROUTES[r].3 });
    }
    let impl_out = run_serve(limit, tl, &reqs);
    out.count("handler:sequences");
    *out.hist.entry("handler:requests".into()).or_insert(0) += reqs.len() as u64;
    out.case(&["cache_serve", &limit.to_string(), &tl.to_string(), &render_ops(&reqs, "r")], &impl_out, n >= 2);
}

pub fn gen(out: &mut Out, thorough: bool, seed: u64) {
    // fixed witnesses: the panic outside the size hypothesis, the panic when the clock goes backwards
    emit_seq(out, 3, 60, &[Op::Set { t: 0, key: "/a".into(), host: 0, size: 4, fill: 1, mime: 0 }], "fixed");
    emit_seq(out, 8, 60, &[Op::Set { t: 5, key: "/a".into(), host: 0, size: 1, fill: 7, mime: 1 },
                           Op::Get { t: 4, key: "/a".into(), host: 0 }], "fixed");
    // exhaustive block (see `exhaustive_block` in the evidence for what is enumerated in this tier)
    let sizes3 = [0usize, 1, 2];
    let sizes2 = [1usize, 2];
    let limits: [usize; 6] = [0, 1, 2, 3, 4, 6];
    let clocks: [(u64, u64); 3] = [(60, 0), (1, 1), (0, 1)]; // (time limit, clock step per op)
    let mut note = String::new();
    for &limit in &limits {
        for &(tl, dt) in &clocks {
            // the full product 3 keys x 2 hosts x 3 sizes
            let central = limit == 2 || limit == 3;
            let len = if thorough { 4 } else if dt == 0 || central { 4 } else { 3 };
            exhaustive(out, len, limit, tl, dt, 3, 2, &sizes3);
        }
    }
    if thorough {
        note += "3 keys x 2 hosts x sizes {0,1,2}: length<=4 for limits {0,1,2,3,4,6} x clocks {(60,0),(1,1),(0,1)}; \
                 length<=5 for (limit,timeLimit,step) in {(2,60,0),(3,60,0),(3,1,1)}. \
                 2 keys x 2 hosts x sizes {1,2}: length<=6 for limits {2,3,4} x the three clocks. \
                 (The full 18-symbol product at length 6 is 34M sequences per configuration and is not run.)";
        for &(limit, tl, dt) in &[(2usize, 60u64, 0u64), (3, 60, 0), (3, 1, 1)] {
            exhaustive(out, 5, limit, tl, dt, 3, 2, &sizes3);
        }
        for &limit in &[2usize, 3, 4] {
            for &(tl, dt) in &clocks {
                exhaustive(out, 6, limit, tl, dt, 2, 2, &sizes2);
            }
        }
    } else {
        note += "3 keys x 2 hosts x sizes {0,1,2}: length<=4 for limits {0,1,2,3,4,6} with (timeLimit,step)=(60,0) and for \
                 limits {2,3} with (1,1),(0,1); length<=3 for the remaining limit/clock pairs. \
                 2 keys x 2 hosts x sizes {1,2}: length<=5 for (limit,timeLimit,step) in {(2,60,0),(3,60,0),(4,60,0),(3,1,1),(3,0,1)}. \
                 (Lengths 5 and 6 over the full product are in the thorough tier only, see there.)";
        for &(limit, tl, dt) in &[(2usize, 60u64, 0u64), (3, 60, 0), (4, 60, 0), (3, 1, 1), (3, 0, 1)] {
            exhaustive(out, 5, limit, tl, dt, 2, 2, &sizes2);
        }
    }
    out.extra.insert("exhaustive_block".into(), format!(
        "store sequences of exactly the stated length (every prefix is observed, every key ever stored is looked up after \
         every op) over keys {:?}, hosts {{0,1}}: {}", EX_KEYS, note));
    // random long sequences
    let mut rng = Rng::new(seed);
    let n_random = if thorough { 4000 } else { 260 };
    let n_full = if thorough { 40 } else { 2 };
    for i in 0..n_random {
        let (limit, tl, ops) = random_seq(&mut rng, i < n_full);
        emit_seq(out, limit, tl, &ops, "random");
    }
    // threads through the RwLock
    let rounds = if thorough { 20 } else { 3 };
    for round in 0..rounds {
        for threads in 1..=8usize {
            let limit = *rng.pick(&[16usize, 64, 256, 2048]);
            let tl = *rng.pick(&[0u64, 1, 60]);
            let per_thread = if thorough { 400 } else { 150 };
            concurrent(out, seed.wrapping_add(round * 97 + threads as u64), threads, per_thread, limit, tl);
        }
    }
    // handler level
    let n_handler = if thorough { 1500 } else { 120 };
    for _ in 0..n_handler {
        handler_seq(out, &mut rng);
    }
}
