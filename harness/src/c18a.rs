//! C18 (percent-encoding and Base64 halves): `humphrey::percent::{PercentEncode, PercentDecode}` and
//! `humphrey_ws::verif::{Base64Encode, Base64Decode}` on the property's exhaustive scopes and on
//! random inputs. Case lines: `pct_enc`, `pct_dec`, `b64_enc`, `b64_dec` (see Driver/C18a.lean).
use crate::common::*;
use humphrey::percent::{PercentDecode, PercentEncode};
use humphrey_ws::verif::{Base64Decode, Base64Encode};

const B64: &[u8; 64] = b"ABCDEFGHIJKLMNOPQRSTUVWXYZabcdefghijklmnopqrstuvwxyz0123456789+/";

fn pct_enc_impl(b: &[u8]) -> String {
    match guarded(|| b.percent_encode()) {
        Ok(s) => hex(s.as_bytes()),
        Err(_) => "PANIC".into(),
    }
}

fn pct_dec_impl(s: &str) -> String {
    match guarded(|| s.percent_decode()) {
        Ok(Some(b)) => format!("some:{}", hex(&b)),
        Ok(None) => "none".into(),
        Err(_) => "PANIC".into(),
    }
}

fn b64_enc_impl(b: &[u8]) -> String {
    match guarded(|| b.encode()) {
        Ok(s) => hex(s.as_bytes()),
        Err(_) => "PANIC".into(),
    }
}

fn b64_dec_impl(s: &str) -> String {
    match guarded(|| s.decode()) {
        Ok(Ok(b)) => format!("ok:{}", hex(&b)),
        Ok(Err(())) => "err".into(),
        Err(_) => "PANIC".into(),
    }
}

/// Re-execute one case (`fn`, arg) on the implementation.
pub fn exec(f: &[String]) -> Option<String> {
    if f.len() != 2 {
        return None;
    }
    let arg = unhex(&f[1]);
    match f[0].as_str() {
        "pct_enc" => Some(pct_enc_impl(&arg)),
        "pct_dec" => Some(pct_dec_impl(std::str::from_utf8(&arg).ok()?)),
        "b64_enc" => Some(b64_enc_impl(&arg)),
        "b64_dec" => Some(b64_dec_impl(std::str::from_utf8(&arg).ok()?)),
        _ => None,
    }
}

// ---- independent references (used to judge the implementation inside Rust, DESIGN §4) ----

fn ref_pct_enc(b: &[u8]) -> String {
    let mut s = String::new();
    for &x in b {
        if x.is_ascii_alphanumeric() || matches!(x, b'-' | b'.' | b'_' | b'~') {
            s.push(x as char);
        } else {
            s.push('%');
            s.push(char::from_digit((x / 16) as u32, 16).unwrap().to_ascii_uppercase());
            s.push(char::from_digit((x % 16) as u32, 16).unwrap().to_ascii_uppercase());
        }
    }
    s
}

/// Bit-level reference encoder: a bit queue, six bits at a time.
fn ref_b64_enc(b: &[u8]) -> String {
    let mut bits: Vec<bool> = Vec::with_capacity(b.len() * 8 + 6);
    for &x in b {
        for k in (0..8).rev() {
            bits.push((x >> k) & 1 == 1);
        }
    }
    while bits.len() % 6 != 0 {
        bits.push(false);
    }
    let mut s = String::new();
    for g in bits.chunks(6) {
        let v = g.iter().fold(0usize, |a, &bit| a * 2 + bit as usize);
        s.push(B64[v] as char);
    }
    while s.len() % 4 != 0 {
        s.push('=');
    }
    s
}

/// Reference decoder: `None` unless the text is alphabet symbols followed by at most two `=` and
/// its length is a multiple of four.
fn ref_b64_dec(s: &[u8]) -> Option<Vec<u8>> {
    if s.len() % 4 != 0 {
        return None;
    }
    let body_len = s.iter().position(|&c| c == b'=').unwrap_or(s.len());
    if s.len() - body_len > 2 || s[body_len..].iter().any(|&c| c != b'=') {
        return None;
    }
    let mut bits: Vec<bool> = Vec::new();
    for &c in &s[..body_len] {
        let v = B64.iter().position(|&a| a == c)?;
        for k in (0..6).rev() {
            bits.push((v >> k) & 1 == 1);
        }
    }
    Some(bits.chunks(8).filter(|g| g.len() == 8).map(|g| g.iter().fold(0u8, |a, &bit| a * 2 + bit as u8)).collect())
}

fn ref_b64_dec_str(s: &[u8]) -> String {
    match ref_b64_dec(s) {
        Some(b) => format!("ok:{}", hex(&b)),
        None => "err".into(),
    }
}

// ---- case emitters ----

fn emit(out: &mut Out, name: &str, arg: &[u8], impl_out: &str, nontrivial: bool, agrees_with_ref: bool) {
    out.count(&format!("fn={}", name));
    if impl_out == "PANIC" {
        out.count(&format!("{}:panic", name));
    }
    if !agrees_with_ref {
        out.count(&format!("{}:differs-from-rust-reference", name));
    }
    out.case(&[name, &hex(arg)], impl_out, nontrivial);
}

fn pct_enc(out: &mut Out, b: &[u8]) -> String {
    let r = pct_enc_impl(b);
    let good = r == hex(ref_pct_enc(b).as_bytes());
    emit(out, "pct_enc", b, &r, b.iter().any(|x| !x.is_ascii_alphanumeric()), good);
    r
}

fn pct_dec(out: &mut Out, s: &str) {
    let r = pct_dec_impl(s);
    out.count(if r == "none" { "pct_dec:none" } else { "pct_dec:some" });
    emit(out, "pct_dec", s.as_bytes(), &r, s.contains('%'), true);
}

/// Encode, then decode what the encoder produced (round trip on the real code).
fn pct_both(out: &mut Out, b: &[u8]) {
    let e = pct_enc(out, b);
    if e != "PANIC" {
        let text = String::from_utf8(unhex(&e)).expect("encoder output is a String");
        pct_dec(out, &text);
    }
}

fn b64_enc(out: &mut Out, b: &[u8]) -> String {
    let r = b64_enc_impl(b);
    let good = r == hex(ref_b64_enc(b).as_bytes());
    out.count(&format!("b64_enc:len%3={}", b.len() % 3));
    emit(out, "b64_enc", b, &r, !b.is_empty(), good);
    r
}

fn b64_dec(out: &mut Out, s: &str) {
    let r = b64_dec_impl(s);
    let good = r == ref_b64_dec_str(s.as_bytes());
    out.count(if r == "err" { "b64_dec:err" } else if r == "PANIC" { "b64_dec:PANIC" } else { "b64_dec:ok" });
    if s.contains('+') || s.contains('/') {
        out.count("b64_dec:has+or/");
    }
    emit(out, "b64_dec", s.as_bytes(), &r, !s.is_empty(), good);
}

fn b64_both(out: &mut Out, b: &[u8]) {
    let e = b64_enc(out, b);
    if e != "PANIC" {
        let text = String::from_utf8(unhex(&e)).expect("encoder output is a String");
        b64_dec(out, &text);
    }
}

/// All strings of length 0..=max over `alpha`.
fn all_strings(alpha: &[&str], max: usize) -> Vec<String> {
    let mut res = vec![String::new()];
    let mut layer = vec![String::new()];
    for _ in 0..max {
        let mut next = Vec::with_capacity(layer.len() * alpha.len());
        for s in &layer {
            for c in alpha {
                let mut x = s.clone();
                x.push_str(c);
                next.push(x);
            }
        }
        res.extend(next.iter().cloned());
        layer = next;
    }
    res
}

pub fn gen(out: &mut Out, thorough: bool, seed: u64) {
    let mut rng = Rng::new(seed ^ 0xC18A);

    // ================= percent =================
    // every byte value and every byte pair: encode, and decode of the encoding
    for a in 0..=255u8 {
        pct_both(out, &[a]);
    }
    for a in 0..=255u8 {
        for b in 0..=255u8 {
            pct_both(out, &[a, b]);
        }
    }
    // decode of every escape `%XY` with X, Y any ASCII byte, and of `%X`
    for x in 0..128u8 {
        pct_dec(out, &format!("%{}", x as char));
        for y in 0..128u8 {
            pct_dec(out, &format!("%{}{}", x as char, y as char));
        }
    }
    // all strings up to length 4 (thorough: 5) over {%,0,9,a,F,g,+,space,e-acute}: decode, and encode of the bytes
    let pct_alpha = ["%", "0", "9", "a", "F", "g", "+", " ", "é"];
    for s in all_strings(&pct_alpha, if thorough { 5 } else { 4 }) {
        pct_dec(out, &s);
        pct_both(out, s.as_bytes());
    }
    out.extra.insert(
        "percent_exhaustive".into(),
        format!(
            "encode+decode-of-encoding for all 1- and 2-byte inputs; decode of all %X and %XY over ASCII; decode and encode of all strings <={} over {{%,0,9,a,F,g,+,space,e-acute}}",
            if thorough { 5 } else { 4 }
        ),
    );
    // random: arbitrary bytes to encode; texts built from literals, good and damaged escapes to decode
    let n = if thorough { 2_000_000 } else { 60_000 };
    let lits: Vec<&str> = vec!["a", "Z", "0", "-", "~", " ", "+", "/", "é", "€", "%25", "%"];
    let hexish: &[u8] = b"0123456789abcdefABCDEFgG+- %xX";
    for _ in 0..n {
        let len = rng.below(24) as usize;
        let b = rng.bytes(len);
        pct_both(out, &b);
        let mut s = String::new();
        for _ in 0..rng.below(8) {
            match rng.below(4) {
                0 => s.push_str(*rng.pick(&lits[..])),
                1 => s.push_str(&format!("%{:02X}", rng.below(256))),
                2 => s.push_str(&format!("%{:02x}", rng.below(256))),
                _ => {
                    s.push('%');
                    for _ in 0..rng.below(3) {
                        s.push(*rng.pick(hexish) as char);
                    }
                }
            }
        }
        pct_dec(out, &s);
    }

    // ================= Base64 =================
    // lengths 0..64 with random contents (and all-zero / all-ones contents)
    for len in 0..=64usize {
        b64_both(out, &vec![0u8; len]);
        b64_both(out, &vec![0xffu8; len]);
        for _ in 0..(if thorough { 200 } else { 30 }) {
            let b = rng.bytes(len);
            b64_both(out, &b);
        }
    }
    // every 1- and 2-byte input
    for a in 0..=255u8 {
        b64_both(out, &[a]);
    }
    for a in 0..=255u8 {
        for b in 0..=255u8 {
            b64_both(out, &[a, b]);
        }
    }
    // 3-byte groups. Thorough: all 2^24 judged in Rust against the bit-level reference (encode, and
    // decode of the encoding); every disagreement and a 1/128 sample go through Lean. Quick: a large sample.
    if thorough {
        let mut bad = 0u64;
        for v in 0..(1u32 << 24) {
            let b = [(v >> 16) as u8, (v >> 8) as u8, v as u8];
            let e = b64_enc_impl(&b);
            let good_e = e == hex(ref_b64_enc(&b).as_bytes());
            let good_d = e != "PANIC" && {
                let text = String::from_utf8(unhex(&e)).unwrap();
                b64_dec_impl(&text) == format!("ok:{}", hex(&b))
            };
            if !(good_e && good_d) {
                bad += 1;
            }
            if !(good_e && good_d) && bad <= 100_000 || v % 128 == 77 {
                b64_both(out, &b);
            }
        }
        out.extra.insert("b64_all_2^24_groups".into(), format!("checked in Rust against the bit-level reference; disagreements: {}", bad));
    } else {
        // every value of each byte with the two others random, then random triples
        for pos in 0..3 {
            for x in 0..=255u8 {
                for _ in 0..40 {
                    let mut b = rng.bytes(3);
                    b[pos] = x;
                    b64_both(out, &b);
                }
            }
        }
        for _ in 0..150_000 {
            let b = rng.bytes(3);
            b64_both(out, &b);
        }
    }
    // decode of 4-symbol groups: all groups over the reduced alphabet (thorough: a larger one),
    // alone, after a full group, and before a full group (`=` in the middle)
    let reduced: Vec<&str> = if thorough {
        vec!["A", "B", "Q", "a", "z", "0", "9", "+", "/", "=", "*", " ", "-", "_", "\n", "é"]
    } else {
        vec!["A", "B", "a", "z", "0", "9", "+", "/", "=", "*", " "]
    };
    let groups: Vec<String> = all_strings(&reduced, 4).into_iter().filter(|s| s.chars().count() == 4).collect();
    for g in &groups {
        b64_dec(out, g);
        b64_dec(out, &format!("Zm9v{}", g));
        b64_dec(out, &format!("{}Zm9v", g));
    }
    // every string of length <= 4 over the reduced alphabet (wrong lengths), and of length <= 9 over {A,=,/}
    for s in all_strings(&reduced, 3) {
        b64_dec(out, &s);
        b64_dec(out, &format!("Zm9v{}", s));
    }
    for s in all_strings(&["A", "=", "/"], 9) {
        b64_dec(out, &s);
    }
    out.extra.insert(
        "b64_exhaustive".into(),
        format!("encode+decode for all 1- and 2-byte inputs, lengths 0..64; decode of all {} 4-symbol groups over {:?} alone/after/before a full group, all strings <=3 over it, all strings <=9 over {{A,=,/}}", groups.len(), reduced),
    );
    // all 65^4 groups over alphabet + `=` in thorough, judged in Rust; disagreements and a sample through Lean
    let mut full: Vec<u8> = B64.to_vec();
    full.push(b'=');
    if thorough {
        let mut bad = 0u64;
        let mut k = 0u64;
        for &a in &full {
            for &b in &full {
                for &c in &full {
                    for &d in &full {
                        let g = [a, b, c, d];
                        let text = std::str::from_utf8(&g).unwrap();
                        let good = b64_dec_impl(text) == ref_b64_dec_str(&g);
                        k += 1;
                        if !good {
                            bad += 1;
                        }
                        if !good && bad <= 100_000 || k % 64 == 13 {
                            b64_dec(out, text);
                        }
                    }
                }
            }
        }
        out.extra.insert("b64_all_65^4_groups".into(), format!("decode checked in Rust against the reference; disagreements: {}", bad));
    }
    // every single symbol byte 0..=127 in each position of a group
    for pos in 0..4 {
        for x in 0..128u8 {
            let mut g = *b"QUJD";
            g[pos] = x;
            b64_dec(out, std::str::from_utf8(&g).unwrap());
            let mut p = *b"QUI=";
            p[pos] = x;
            b64_dec(out, std::str::from_utf8(&p).unwrap());
        }
    }
    // random groups over the full alphabet + `=`, one to three groups
    let n = if thorough { 3_000_000 } else { 200_000 };
    for _ in 0..n {
        let ngroups = 1 + rng.below(3) as usize;
        let mut s = String::new();
        for _ in 0..ngroups * 4 {
            // `=` rarely, so that most groups are fully valid
            let c = if rng.chance(1, 24) { b'=' } else { B64[rng.below(64) as usize] };
            s.push(c as char);
        }
        b64_dec(out, &s);
    }
    // malformed: valid encodings damaged (truncated, `=` inserted, a foreign or non-ASCII char substituted)
    let foreign = ["*", " ", "\n", "-", "_", "é", "€", "\u{0}", "=", "😀"];
    let n = if thorough { 500_000 } else { 60_000 };
    for _ in 0..n {
        let len = rng.below(13) as usize;
        let b = rng.bytes(len);
        let e = ref_b64_enc(&b);
        let mut cs: Vec<String> = e.chars().map(|c| c.to_string()).collect();
        match rng.below(4) {
            0 => {
                let k = rng.below(cs.len() as u64 + 1) as usize;
                cs.truncate(k);
            }
            1 => {
                let k = rng.below(cs.len() as u64 + 1) as usize;
                cs.insert(k, rng.pick(&foreign[..]).to_string());
            }
            2 => {
                if !cs.is_empty() {
                    let k = rng.below(cs.len() as u64) as usize;
                    cs[k] = rng.pick(&foreign[..]).to_string();
                }
            }
            _ => {
                if !cs.is_empty() {
                    let k = rng.below(cs.len() as u64) as usize;
                    cs.remove(k);
                }
            }
        }
        b64_dec(out, &cs.concat());
    }
}
