//! C18 (percent-encoding and Base64 halves): `humphrey::percent::{PercentEncode, PercentDecode}` and
//! `humphrey_ws::verif::{Base64Encode, Base64Decode}` on the property's exhaustive scopes and on
//! random inputs. Case lines: `pct_enc`, `pct_dec`, `b64_enc`, `b64_dec` (see Driver/C18a.lean).
use crate::common::*;
use humphrey::percent::{PercentDecode, PercentEncode};
use humphrey_ws::verif::{Base64Decode, Base64Encode};

const B64: &[u8; 64] = b"ABCDEFGHIJKLMNOPQRSTUVWXYZabcdefghijklmnopqrstuvwxyz0123456789+/";

fn pct_enc_impl(b: &[u8]) -> String {
    match guarded(|| b.percent_encode()) {
        Ok(s) => hex(s.as_bytes()),
        Err(_) => "PANIC".into(),
    }
}

fn pct_dec_impl(s: &str) -> String {
    match guarded(|| s.percent_decode()) {
        Ok(Some(b)) => format!("some:{}", hex(&b)),
        Ok(None) => "none".into(),
        Err(_) => "PANIC".into(),
    }
}

fn b64_enc_impl(b: &[u8]) -> String {
    match guarded(|| b.encode()) {
        Ok(s) => hex(s.as_bytes()),
        Err(_) => "PANIC".into(),
    }
}

fn b64_dec_impl(s: &str) -> String {
    match guarded(|| s.decode()) {
        Ok(Ok(b)) => format!("ok:{}", hex(&b)),
        Ok(Err(())) => "err".into(),
        Err(_) => "PANIC".into(),
    }
}

// ---- compact descriptions of long inputs (LENGTH sweeps; expanded identically by Driver/C18Gen.lean) ----

/// One segment of a description (see `Driver/C18Gen.lean`).
#[derive(Clone, Debug)]
pub enum Seg {
    /// `x<hex>`: these bytes
    Lit(Vec<u8>),
    /// `<n>*<hex>`: the pattern repeated cyclically, n bytes in all
    Pat(usize, Vec<u8>),
    /// `<n>r<seed>`: `Rng::new(seed).bytes(n)`
    Rand(usize, u64),
    /// `<n>b<seed>`: Base64 symbols `ALPHABET[byte % 64]` over `Rng::new(seed).bytes(n)`
    B64(usize, u64),
    /// `<n>c<start>`: counting bytes
    Count(usize, u8),
}

pub fn desc_str(segs: &[Seg]) -> String {
    if segs.is_empty() {
        return "x".into();
    }
    segs.iter()
        .map(|s| match s {
            Seg::Lit(b) => format!("x{}", hex(b)),
            Seg::Pat(n, p) => format!("{}*{}", n, hex(p)),
            Seg::Rand(n, seed) => format!("{}r{}", n, seed),
            Seg::B64(n, seed) => format!("{}b{}", n, seed),
            Seg::Count(n, st) => format!("{}c{}", n, st),
        })
        .collect::<Vec<_>>()
        .join("+")
}

pub fn desc_bytes(segs: &[Seg]) -> Vec<u8> {
    let mut v = Vec::new();
    for s in segs {
        match s {
            Seg::Lit(b) => v.extend_from_slice(b),
            Seg::Pat(n, p) => v.extend((0..*n).map(|i| p[i % p.len()])),
            Seg::Rand(n, seed) => v.extend(Rng::new(*seed).bytes(*n)),
            Seg::B64(n, seed) => v.extend(Rng::new(*seed).bytes(*n).into_iter().map(|x| B64[(x % 64) as usize])),
            Seg::Count(n, st) => v.extend((0..*n).map(|i| (i as u8).wrapping_add(*st))),
        }
    }
    v
}

pub fn desc_parse(s: &str) -> Option<Vec<Seg>> {
    let hexok = |h: &str| h.len() % 2 == 0 && h.bytes().all(|b| b.is_ascii_hexdigit());
    let mut v = Vec::new();
    for seg in s.split('+') {
        if let Some(h) = seg.strip_prefix('x') {
            if !hexok(h) {
                return None;
            }
            v.push(Seg::Lit(unhex(h)));
            continue;
        }
        let k = seg.find(|c: char| !c.is_ascii_digit())?;
        let n: usize = seg[..k].parse().ok()?;
        if n > 1 << 26 {
            return None;
        }
        let rest = &seg[k + 1..];
        v.push(match &seg[k..k + 1] {
            "*" if hexok(rest) && !rest.is_empty() => Seg::Pat(n, unhex(rest)),
            "r" => Seg::Rand(n, rest.parse().ok()?),
            "b" => Seg::B64(n, rest.parse().ok()?),
            "c" => Seg::Count(n, rest.parse::<u64>().ok()? as u8),
            _ => return None,
        });
    }
    Some(v)
}

/// FNV-1a (64 bit).
pub fn fnv(b: &[u8]) -> u64 {
    let mut h: u64 = 0xcbf29ce484222325;
    for x in b {
        h ^= *x as u64;
        h = h.wrapping_mul(0x100000001b3);
    }
    h
}

/// Hex when short, `#<len>:<fnv64>` when longer than 64 bytes.
pub fn hl(b: &[u8]) -> String {
    if b.len() > 64 { format!("#{}:{:016x}", b.len(), fnv(b)) } else { hex(b) }
}

/// The lengths of the LENGTH sweeps: every length 0..=300 and, for every P of `SWEEP_P` up to `max_p`, P-72..=P+72
/// (SHA-1 has a 64-byte block, Base64 groups of 3 / 4, percent escapes 3 bytes: every residue is met on both
/// sides of P). `near(p)` = how far from P the lengths go for that P.
pub const SWEEP_P: [usize; 8] = [512, 1024, 2048, 4096, 8192, 16384, 65536, 1 << 20];

pub fn sweep_lengths(near: impl Fn(usize) -> usize) -> Vec<usize> {
    let mut v: Vec<usize> = (0..=300).collect();
    for p in SWEEP_P {
        let d = near(p);
        v.extend(p - d..=p + d);
    }
    v.sort();
    v.dedup();
    v
}

fn pctg_enc_impl(b: &[u8]) -> String {
    match guarded(|| b.percent_encode()) {
        Ok(s) => hl(s.as_bytes()),
        Err(_) => "PANIC".into(),
    }
}

fn pctg_dec_impl(s: &str) -> String {
    match guarded(|| s.percent_decode()) {
        Ok(Some(b)) => format!("some:{}", hl(&b)),
        Ok(None) => "none".into(),
        Err(_) => "PANIC".into(),
    }
}

fn b64g_enc_impl(b: &[u8]) -> String {
    match guarded(|| b.encode()) {
        Ok(s) => hl(s.as_bytes()),
        Err(_) => "PANIC".into(),
    }
}

fn b64g_dec_impl(s: &str) -> String {
    match guarded(|| s.decode()) {
        Ok(Ok(b)) => format!("ok:{}", hl(&b)),
        Ok(Err(())) => "err".into(),
        Err(_) => "PANIC".into(),
    }
}

/// Re-execute one case (`fn`, arg) on the implementation.
pub fn exec(f: &[String]) -> Option<String> {
    if f.len() != 2 {
        return None;
    }
    if matches!(f[0].as_str(), "pctg_enc" | "pctg_dec" | "b64g_enc" | "b64g_dec") {
        let arg = desc_bytes(&desc_parse(&f[1])?);
        return match f[0].as_str() {
            "pctg_enc" => Some(pctg_enc_impl(&arg)),
            "pctg_dec" => Some(pctg_dec_impl(std::str::from_utf8(&arg).ok()?)),
            "b64g_enc" => Some(b64g_enc_impl(&arg)),
            _ => Some(b64g_dec_impl(std::str::from_utf8(&arg).ok()?)),
        };
    }
    let arg = unhex(&f[1]);
    match f[0].as_str() {
        "pct_enc" => Some(pct_enc_impl(&arg)),
        "pct_dec" => Some(pct_dec_impl(std::str::from_utf8(&arg).ok()?)),
        "b64_enc" => Some(b64_enc_impl(&arg)),
        "b64_dec" => Some(b64_dec_impl(std::str::from_utf8(&arg).ok()?)),
        _ => None,
    }
}

// ---- independent references (used to judge the implementation inside Rust, DESIGN §4) ----

fn ref_pct_enc(b: &[u8]) -> String {
    let mut s = String::new();
    for &x in b {
        if x.is_ascii_alphanumeric() || matches!(x, b'-' | b'.' | b'_' | b'~') {
            s.push(x as char);
        } else {
            s.push('%');
            s.push(char::from_digit((x / 16) as u32, 16).unwrap().to_ascii_uppercase());
            s.push(char::from_digit((x % 16) as u32, 16).unwrap().to_ascii_uppercase());
        }
    }
    s
}

/// Bit-level reference encoder: a bit queue, six bits at a time.
fn ref_b64_enc(b: &[u8]) -> String {
    let mut bits: Vec<bool> = Vec::with_capacity(b.len() * 8 + 6);
    for &x in b {
        for k in (0..8).rev() {
            bits.push((x >> k) & 1 == 1);
        }
    }
    while bits.len() % 6 != 0 {
        bits.push(false);
    }
    let mut s = String::new();
    for g in bits.chunks(6) {
        let v = g.iter().fold(0usize, |a, &bit| a * 2 + bit as usize);
        s.push(B64[v] as char);
    }
    while s.len() % 4 != 0 {
        s.push('=');
    }
    s
}

/// Reference decoder: `None` unless the text is alphabet symbols followed by at most two `=` and
/// its length is a multiple of four.
fn ref_b64_dec(s: &[u8]) -> Option<Vec<u8>> {
    if s.len() % 4 != 0 {
        return None;
    }
    let body_len = s.iter().position(|&c| c == b'=').unwrap_or(s.len());
    if s.len() - body_len > 2 || s[body_len..].iter().any(|&c| c != b'=') {
        return None;
    }
    let mut bits: Vec<bool> = Vec::new();
    for &c in &s[..body_len] {
        let v = B64.iter().position(|&a| a == c)?;
        for k in (0..6).rev() {
            bits.push((v >> k) & 1 == 1);
        }
    }
    Some(bits.chunks(8).filter(|g| g.len() == 8).map(|g| g.iter().fold(0u8, |a, &bit| a * 2 + bit as u8)).collect())
}

fn ref_b64_dec_str(s: &[u8]) -> String {
    match ref_b64_dec(s) {
        Some(b) => format!("ok:{}", hex(&b)),
        None => "err".into(),
    }
}

// ---- case emitters ----

fn emit(out: &mut Out, name: &str, arg: &[u8], impl_out: &str, nontrivial: bool, agrees_with_ref: bool) {
    out.count(&format!("fn={}", name));
    if impl_out == "PANIC" {
        out.count(&format!("{}:panic", name));
    }
    if !agrees_with_ref {
        out.count(&format!("{}:differs-from-rust-reference", name));
    }
    out.case(&[name, &hex(arg)], impl_out, nontrivial);
}

fn pct_enc(out: &mut Out, b: &[u8]) -> String {
    let r = pct_enc_impl(b);
    let good = r == hex(ref_pct_enc(b).as_bytes());
    emit(out, "pct_enc", b, &r, b.iter().any(|x| !x.is_ascii_alphanumeric()), good);
    r
}

fn pct_dec(out: &mut Out, s: &str) {
    let r = pct_dec_impl(s);
    out.count(if r == "none" { "pct_dec:none" } else { "pct_dec:some" });
    emit(out, "pct_dec", s.as_bytes(), &r, s.contains('%'), true);
}

/// Encode, then decode what the encoder produced (round trip on the real code).
fn pct_both(out: &mut Out, b: &[u8]) {
    let e = pct_enc(out, b);
    if e != "PANIC" {
        let text = String::from_utf8(unhex(&e)).expect("encoder output is a String");
        pct_dec(out, &text);
    }
}

fn b64_enc(out: &mut Out, b: &[u8]) -> String {
    let r = b64_enc_impl(b);
    let good = r == hex(ref_b64_enc(b).as_bytes());
    out.count(&format!("b64_enc:len%3={}", b.len() % 3));
    emit(out, "b64_enc", b, &r, !b.is_empty(), good);
    r
}

fn b64_dec(out: &mut Out, s: &str) {
    let r = b64_dec_impl(s);
    let good = r == ref_b64_dec_str(s.as_bytes());
    out.count(if r == "err" { "b64_dec:err" } else if r == "PANIC" { "b64_dec:PANIC" } else { "b64_dec:ok" });
    if s.contains('+') || s.contains('/') {
        out.count("b64_dec:has+or/");
    }
    emit(out, "b64_dec", s.as_bytes(), &r, !s.is_empty(), good);
}

fn b64_both(out: &mut Out, b: &[u8]) {
    let e = b64_enc(out, b);
    if e != "PANIC" {
        let text = String::from_utf8(unhex(&e)).expect("encoder output is a String");
        b64_dec(out, &text);
    }
}

fn len_class(n: usize) -> String {
    match n {
        0..=300 => "0..300".into(),
        _ => {
            let p = SWEEP_P.iter().min_by_key(|p| (**p as i64 - n as i64).abs()).unwrap();
            format!("near-{}", p)
        }
    }
}

/// One LENGTH-sweep case: `name` on the described input.
fn emit_g(out: &mut Out, name: &str, segs: &[Seg], kind: &str) {
    let b = desc_bytes(segs);
    let r = match name {
        "pctg_enc" => {
            let r = pctg_enc_impl(&b);
            if r != hl(ref_pct_enc(&b).as_bytes()) {
                out.count("pctg_enc:differs-from-rust-reference");
            }
            r
        }
        "pctg_dec" => pctg_dec_impl(std::str::from_utf8(&b).expect("decoder texts are UTF-8")),
        "b64g_enc" => {
            let r = b64g_enc_impl(&b);
            if b.len() <= 70_000 && r != hl(ref_b64_enc(&b).as_bytes()) {
                out.count("b64g_enc:differs-from-rust-reference");
            }
            r
        }
        _ => {
            let r = b64g_dec_impl(std::str::from_utf8(&b).expect("decoder texts are UTF-8"));
            if b.len() <= 70_000 {
                let want = match ref_b64_dec(&b) {
                    Some(d) => format!("ok:{}", hl(&d)),
                    None => "err".into(),
                };
                if r != want {
                    out.count("b64g_dec:differs-from-rust-reference");
                }
            }
            r
        }
    };
    out.count(&format!("fn={}", name));
    out.count(&format!("{}:len:{}", name, len_class(b.len())));
    out.count(&format!("{}:{}", name, kind));
    let res = if r == "PANIC" { "PANIC" } else if r == "none" || r == "err" { "rejected" } else { "value" };
    out.count(&format!("{}:result:{}", name, res));
    out.case(&[name, &desc_str(segs)], &r, !b.is_empty());
}

/// LENGTH sweeps of the four list codecs. `reach(p)` = how far around P the lengths go; `contents` = how many
/// content / layout variants per length (rotating through the rest so that every variant meets every residue).
fn length_sweeps(out: &mut Out, thorough: bool, seed: u64) {
    // quick: the full P-72..=P+72 up to 65536, P-8..=P+8 at 1 MiB; thorough: everything
    let lens = sweep_lengths(|p| if thorough || p < (1 << 20) { 72 } else { 8 });
    let big = |l: usize| l > 300;
    let sd = |l: usize, k: u64| seed.wrapping_mul(1000003).wrapping_add(l as u64 * 16 + k) % 1_000_000_007;

    // ---- every length 0..=300 in full (hex case lines, judged by the bit-level specifications as well)
    for l in 0..=300usize {
        for (k, b) in [vec![0u8; l], vec![0xff; l], (0..l).map(|i| i as u8).collect(), Rng::new(sd(l, 0)).bytes(l), Rng::new(sd(l, 1)).bytes(l)]
            .iter()
            .enumerate()
        {
            if thorough || k != 4 {
                b64_both(out, b);
                pct_both(out, b);
            }
        }
        // Base64 text of every length: valid tails, wrong lengths, and one `=` / foreign symbol at every position
        let body: Vec<u8> = Rng::new(sd(l, 2)).bytes(l).into_iter().map(|x| B64[(x % 64) as usize]).collect();
        b64_dec(out, std::str::from_utf8(&body).unwrap());
        for tail in ["QQ==", "QUI=", "Qf==", "QUJ="] {
            b64_dec(out, &format!("{}{}", std::str::from_utf8(&body).unwrap(), tail));
        }
        if l <= if thorough { 300 } else { 136 } {
            for p in 0..l {
                for bad in [b'=', b'*'] {
                    let mut t = body.clone();
                    t[p] = bad;
                    b64_dec(out, std::str::from_utf8(&t).unwrap());
                }
            }
            // percent text of every length with one escape at every position (well-formed, lower case, damaged)
            for p in 0..l.saturating_sub(2) {
                for esc in ["%4A", "%e9", "%4g"] {
                    let mut t = vec![b'a'; l];
                    t[p..p + 3].copy_from_slice(esc.as_bytes());
                    pct_dec(out, std::str::from_utf8(&t).unwrap());
                }
            }
        }
    }

    // ---- the neighbourhoods of the powers of two: compact descriptions
    let pats: [&[u8]; 6] = [b"%41", b"a%42", b"ab%7e", b"abcd%2F", b"abcdefghijklmn%C3", b"0123456789abcdefghijklmnopqrstuvwxyz0123456789ABCDEFGHIJKLMN-_%a9"];
    for &l in lens.iter().filter(|l| big(**l)) {
        let huge = l > 100_000;
        let nvar = if thorough { 99 } else if huge { 1 } else { 2 };
        let rot = l as u64;
        // encoders: random bytes, then zeros / 0xff / counting (all of them in thorough, rotating in quick)
        let contents = [Seg::Rand(l, sd(l, 3)), Seg::Pat(l, vec![0]), Seg::Pat(l, vec![0xff]), Seg::Count(l, l as u8), Seg::Pat(l, b"a~".to_vec())];
        for k in 0..contents.len().min(nvar) {
            let c = if k == 0 { contents[0].clone() } else if thorough { contents[k].clone() } else { contents[1 + (rot as usize) % 4].clone() };
            emit_g(out, "b64g_enc", &[c.clone()], "content");
            emit_g(out, "pctg_enc", &[c], "content");
        }
        // Base64 decoder: a text of exactly l symbols (valid only when l % 4 == 0), and texts whose LAST group
        // ends at l with each tail shape
        emit_g(out, "b64g_dec", &[Seg::B64(l, sd(l, 4))], "all-symbols");
        let tails: [&[u8]; 4] = [b"QUJD", b"QUI=", b"QQ==", b"Qf=="];
        for k in 0..tails.len().min(nvar) {
            let t = if thorough { tails[k] } else { tails[(rot as usize + k) % 4] };
            if l >= 4 {
                emit_g(out, "b64g_dec", &[Seg::B64(l - 4, sd(l, 5)), Seg::Lit(t.to_vec())], "tail-shape");
            }
        }
        // malformed: one `=` / foreign symbol near the start, near the end, in the middle
        if !huge || thorough || l % 4 == 0 {
            let positions = [0usize, 1, 2, 3, l / 2, l - 8, l - 5, l - 4, l - 3, l - 2, l - 1];
            for k in 0..positions.len().min(if thorough { 99 } else { 2 }) {
                let p = if thorough { positions[k] } else { positions[(rot as usize * 2 + k) % positions.len()] };
                let bad = if (p + k) % 2 == 0 { b'=' } else { b'*' };
                emit_g(out, "b64g_dec", &[Seg::B64(p, sd(l, 6)), Seg::Lit(vec![bad]), Seg::B64(l - p - 1, sd(l, 7))], "one-bad-symbol");
            }
        }
        // percent decoder: periodic texts of length l (escape at every offset modulo 2^k since the periods are odd or
        // coprime to the phase; cut inside the last escape for some l), shifted by 0..2 literal bytes
        for k in 0..pats.len().min(if thorough { 99 } else if huge { 1 } else { 3 }) {
            let pi = if thorough { k } else { (rot as usize + k * 2) % pats.len() };
            let shift = (l + k) % 3;
            emit_g(out, "pctg_dec", &[Seg::Lit(vec![b'-'; shift.min(l)]), Seg::Pat(l - shift.min(l), pats[pi].to_vec())], "periodic");
        }
        // random literals with an escape at the very start and one ending exactly at l / cut one or two bytes short
        if l >= 8 {
            let ends: [&[u8]; 4] = [b"%4a", b"%4", b"%", b"%zz"];
            for k in 0..ends.len().min(if thorough { 99 } else { 1 }) {
                let e = if thorough { ends[k] } else { ends[(rot as usize) % 4] };
                emit_g(out, "pctg_dec", &[Seg::Lit(b"%4A".to_vec()), Seg::B64(l - 3 - e.len(), sd(l, 8)), Seg::Lit(e.to_vec())], "escape-at-both-ends");
            }
            emit_g(out, "pctg_dec", &[Seg::B64(l, sd(l, 9))], "all-literal");
        }
    }
    out.extra.insert(
        "length_sweeps_lists".into(),
        format!("{} lengths: 0..=300 in full (hex lines), then P-72..=P+72 for P in {:?}{} as compact descriptions (Driver/C18Gen.lean)",
            lens.len(), SWEEP_P, if thorough { "" } else { " (1 MiB: P-8..=P+8 in the quick tier)" }),
    );
}

/// All strings of length 0..=max over `alpha`.
fn all_strings(alpha: &[&str], max: usize) -> Vec<String> {
    let mut res = vec![String::new()];
    let mut layer = vec![String::new()];
    for _ in 0..max {
        let mut next = Vec::with_capacity(layer.len() * alpha.len());
        for s in &layer {
            for c in alpha {
                let mut x = s.clone();
                x.push_str(c);
                next.push(x);
            }
        }
        res.extend(next.iter().cloned());
        layer = next;
    }
    res
}

pub fn gen(out: &mut Out, thorough: bool, seed: u64) {
    let mut rng = Rng::new(seed ^ 0xC18A);

    // ================= percent =================
    // every byte value and every byte pair: encode, and decode of the encoding
    for a in 0..=255u8 {
        pct_both(out, &[a]);
    }
    for a in 0..=255u8 {
        for b in 0..=255u8 {
            pct_both(out, &[a, b]);
        }
    }
    // decode of every escape `%XY` with X, Y any ASCII byte, and of `%X`
    for x in 0..128u8 {
        pct_dec(out, &format!("%{}", x as char));
        for y in 0..128u8 {
            pct_dec(out, &format!("%{}{}", x as char, y as char));
        }
    }
    // all strings up to length 4 (thorough: 5) over {%,0,9,a,F,g,+,space,e-acute}: decode, and encode of the bytes
    let pct_alpha = ["%", "0", "9", "a", "F", "g", "+", " ", "é"];
    for s in all_strings(&pct_alpha, if thorough { 5 } else { 4 }) {
        pct_dec(out, &s);
        pct_both(out, s.as_bytes());
    }
    out.extra.insert(
        "percent_exhaustive".into(),
        format!(
            "encode+decode-of-encoding for all 1- and 2-byte inputs; decode of all %X and %XY over ASCII; decode and encode of all strings <={} over {{%,0,9,a,F,g,+,space,e-acute}}",
            if thorough { 5 } else { 4 }
        ),
    );
    // random: arbitrary bytes to encode; texts built from literals, good and damaged escapes to decode
    let n = if thorough { 2_000_000 } else { 60_000 };
    let lits: Vec<&str> = vec!["a", "Z", "0", "-", "~", " ", "+", "/", "é", "€", "%25", "%"];
    let hexish: &[u8] = b"0123456789abcdefABCDEFgG+- %xX";
    for _ in 0..n {
        let len = rng.below(24) as usize;
        let b = rng.bytes(len);
        pct_both(out, &b);
        let mut s = String::new();
        for _ in 0..rng.below(8) {
            match rng.below(4) {
                0 => s.push_str(*rng.pick(&lits[..])),
                1 => s.push_str(&format!("%{:02X}", rng.below(256))),
                2 => s.push_str(&format!("%{:02x}", rng.below(256))),
                _ => {
                    s.push('%');
                    for _ in 0..rng.below(3) {
                        s.push(*rng.pick(hexish) as char);
                    }
                }
            }
        }
        pct_dec(out, &s);
    }

    // ================= LENGTH sweeps (both codecs) =================
    length_sweeps(out, thorough, seed);

    // ================= Base64 =================
    // lengths 0..64 with random contents (and all-zero / all-ones contents)
    for len in 0..=64usize {
        b64_both(out, &vec![0u8; len]);
        b64_both(out, &vec![0xffu8; len]);
        for _ in 0..(if thorough { 200 } else { 30 }) {
            let b = rng.bytes(len);
            b64_both(out, &b);
        }
    }
    // every 1- and 2-byte input
    for a in 0..=255u8 {
        b64_both(out, &[a]);
    }
    for a in 0..=255u8 {
        for b in 0..=255u8 {
            b64_both(out, &[a, b]);
        }
    }
    // 3-byte groups. Thorough: all 2^24 judged in Rust against the bit-level reference (encode, and
    // decode of the encoding); every disagreement and a 1/128 sample go through Lean. Quick: a large sample.
    if thorough {
        let mut bad = 0u64;
        for v in 0..(1u32 << 24) {
            let b = [(v >> 16) as u8, (v >> 8) as u8, v as u8];
            let e = b64_enc_impl(&b);
            let good_e = e == hex(ref_b64_enc(&b).as_bytes());
            let good_d = e != "PANIC" && {
                let text = String::from_utf8(unhex(&e)).unwrap();
                b64_dec_impl(&text) == format!("ok:{}", hex(&b))
            };
            if !(good_e && good_d) {
                bad += 1;
            }
            if !(good_e && good_d) && bad <= 100_000 || v % 128 == 77 {
                b64_both(out, &b);
            }
        }
        out.extra.insert("b64_all_2^24_groups".into(), format!("checked in Rust against the bit-level reference; disagreements: {}", bad));
    } else {
        // every value of each byte with the two others random, then random triples
        for pos in 0..3 {
            for x in 0..=255u8 {
                for _ in 0..40 {
                    let mut b = rng.bytes(3);
                    b[pos] = x;
                    b64_both(out, &b);
                }
            }
        }
        for _ in 0..150_000 {
            let b = rng.bytes(3);
            b64_both(out, &b);
        }
    }
    // decode of 4-symbol groups: all groups over the reduced alphabet (thorough: a larger one),
    // alone, after a full group, and before a full group (`=` in the middle)
    let reduced: Vec<&str> = if thorough {
        vec!["A", "B", "Q", "a", "z", "0", "9", "+", "/", "=", "*", " ", "-", "_", "\n", "é"]
    } else {
        vec!["A", "B", "a", "z", "0", "9", "+", "/", "=", "*", " "]
    };
    let groups: Vec<String> = all_strings(&reduced, 4).into_iter().filter(|s| s.chars().count() == 4).collect();
    for g in &groups {
        b64_dec(out, g);
        b64_dec(out, &format!("Zm9v{}", g));
        b64_dec(out, &format!("{}Zm9v", g));
    }
    // every string of length <= 4 over the reduced alphabet (wrong lengths), and of length <= 9 over {A,=,/}
    for s in all_strings(&reduced, 3) {
        b64_dec(out, &s);
        b64_dec(out, &format!("Zm9v{}", s));
    }
    for s in all_strings(&["A", "=", "/"], 9) {
        b64_dec(out, &s);
    }
    out.extra.insert(
        "b64_exhaustive".into(),
        format!("encode+decode for all 1- and 2-byte inputs, lengths 0..64; decode of all {} 4-symbol groups over {:?} alone/after/before a full group, all strings <=3 over it, all strings <=9 over {{A,=,/}}", groups.len(), reduced),
    );
    // all 65^4 groups over alphabet + `=` in thorough, judged in Rust; disagreements and a sample through Lean
    let mut full: Vec<u8> = B64.to_vec();
    full.push(b'=');
    if thorough {
        let mut bad = 0u64;
        let mut k = 0u64;
        for &a in &full {
            for &b in &full {
                for &c in &full {
                    for &d in &full {
                        let g = [a, b, c, d];
                        let text = std::str::from_utf8(&g).unwrap();
                        let good = b64_dec_impl(text) == ref_b64_dec_str(&g);
                        k += 1;
                        if !good {
                            bad += 1;
                        }
                        if !good && bad <= 100_000 || k % 64 == 13 {
                            b64_dec(out, text);
                        }
                    }
                }
            }
        }
        out.extra.insert("b64_all_65^4_groups".into(), format!("decode checked in Rust against the reference; disagreements: {}", bad));
    }
    // every single symbol byte 0..=127 in each position of a group
    for pos in 0..4 {
        for x in 0..128u8 {
            let mut g = *b"QUJD";
            g[pos] = x;
            b64_dec(out, std::str::from_utf8(&g).unwrap());
            let mut p = *b"QUI=";
            p[pos] = x;
            b64_dec(out, std::str::from_utf8(&p).unwrap());
        }
    }
    // random groups over the full alphabet + `=`, one to three groups
    let n = if thorough { 3_000_000 } else { 200_000 };
    for _ in 0..n {
        let ngroups = 1 + rng.below(3) as usize;
        let mut s = String::new();
        for _ in 0..ngroups * 4 {
            // `=` rarely, so that most groups are fully valid
            let c = if rng.chance(1, 24) { b'=' } else { B64[rng.below(64) as usize] };
            s.push(c as char);
        }
        b64_dec(out, &s);
    }
    // malformed: valid encodings damaged (truncated, `=` inserted, a foreign or non-ASCII char substituted)
    let foreign = ["*", " ", "\n", "-", "_", "é", "€", "\u{0}", "=", "😀"];
    let n = if thorough { 500_000 } else { 60_000 };
    for _ in 0..n {
        let len = rng.below(13) as usize;
        let b = rng.bytes(len);
        let e = ref_b64_enc(&b);
        let mut cs: Vec<String> = e.chars().map(|c| c.to_string()).collect();
        match rng.below(4) {
            0 => {
                let k = rng.below(cs.len() as u64 + 1) as usize;
                cs.truncate(k);
            }
            1 => {
                let k = rng.below(cs.len() as u64 + 1) as usize;
                cs.insert(k, rng.pick(&foreign[..]).to_string());
            }
            2 => {
                if !cs.is_empty() {
                    let k = rng.below(cs.len() as u64) as usize;
                    cs[k] = rng.pick(&foreign[..]).to_string();
                }
            }
            _ => {
                if !cs.is_empty() {
                    let k = rng.below(cs.len() as u64) as usize;
                    cs.remove(k);
                }
            }
        }
        b64_dec(out, &cs.concat());
    }
}
