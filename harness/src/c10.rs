//! C10: WebSocket frame encoder (`From<Frame> for Vec<u8>`), decoder (`Frame::from_stream` over a
//! scripted reader), `Opcode::try_from` and `Message::to_frame`, through `humphrey_ws::verif`.
//!
//! Case lines (see `lean/HumphreyModel/Driver/C10.lean` for the field formats):
//!   enc fin rsv opcode mask length key payload | dec chunks | rt fin rsv opcode mask key payload sizes
//!   trunc fin rsv opcode mask key payload n sizes | opc n | msg new|binary payload
//!   msg rx.<opcode>.<sizes> payload: a message RECEIVED by `WebsocketStream::recv` from client frames (first frame
//!   with the given data opcode, continuation frames after it, fragment sizes `-` or joined by `+`, the rest is the
//!   last fragment) -> `<T|B><1|0>:<hex of to_frame()>` (`is_text()`, `text().is_some()`, the re-encoded message)
use crate::common::*;
use humphrey::stream::{MockIo, Stream};
use humphrey_ws::error::WebsocketError;
use humphrey_ws::message::Message;
use humphrey_ws::stream::WebsocketStream;
use humphrey_ws::verif::{frame_from_parts, frame_from_stream, frame_parts, opcode_from_u8};
use std::io::{Read, Write};

/// Claimed payload lengths above this are never generated: the decoder executes
/// `vec![0; length as usize]` before reading, and a huge claim aborts the process (C03's subject).
const CLAIM_CAP: u64 = 16 << 20;

const OPCODES: [u8; 6] = [0x0, 0x1, 0x2, 0x8, 0x9, 0xA];
const BOUNDARY: [usize; 11] = [0, 1, 124, 125, 126, 127, 128, 65534, 65535, 65536, 65537];

/// A reader that hands out scripted chunks: each `read` returns at most the rest of the current chunk
/// (an empty chunk is a `read` returning 0), and 0 after the last chunk.
pub struct Script {
    chunks: Vec<Vec<u8>>,
    idx: usize,
    off: usize,
}

impl Script {
    pub fn new(chunks: Vec<Vec<u8>>) -> Self {
        Script { chunks, idx: 0, off: 0 }
    }
    pub fn remaining(&self) -> usize {
        let mut n = 0;
        for (i, c) in self.chunks.iter().enumerate().skip(self.idx) {
            n += if i == self.idx { c.len() - self.off } else { c.len() };
        }
        n
    }
}

impl Read for Script {
    fn read(&mut self, buf: &mut [u8]) -> std::io::Result<usize> {
        if self.idx >= self.chunks.len() {
            return Ok(0);
        }
        let c = &self.chunks[self.idx];
        let rem = &c[self.off..];
        let n = rem.len().min(buf.len());
        buf[..n].copy_from_slice(&rem[..n]);
        self.off += n;
        if self.off >= c.len() {
            self.idx += 1;
            self.off = 0;
        }
        Ok(n)
    }
}

/// A socket for `WebsocketStream`: reads come from a `Script`, writes are accepted and forgotten.
struct Wire(Script);

impl Read for Wire {
    fn read(&mut self, buf: &mut [u8]) -> std::io::Result<usize> {
        self.0.read(buf)
    }
}

impl Write for Wire {
    fn write(&mut self, buf: &[u8]) -> std::io::Result<usize> {
        Ok(buf.len())
    }
    fn flush(&mut self) -> std::io::Result<()> {
        Ok(())
    }
}

impl MockIo for Wire {
    fn peer_addr(&self) -> Result<std::net::SocketAddr, std::io::Error> {
        Ok("127.0.0.1:40000".parse().unwrap())
    }
    fn shutdown(&self) -> std::io::Result<()> {
        Ok(())
    }
    fn set_timeout(&self, _timeout: Option<std::time::Duration>) -> std::io::Result<()> {
        Ok(())
    }
    fn set_nonblocking(&self, _nonblocking: bool) -> std::io::Result<()> {
        Ok(())
    }
}

/// RFC 6455 section 5.2 octets of a masked client frame (written here, not the crate's encoder).
fn client_frame(fin: bool, opcode: u8, payload: &[u8]) -> Vec<u8> {
    const KEY: [u8; 4] = [0x37, 0xfa, 0x21, 0x3d];
    let mut v = vec![(if fin { 0x80 } else { 0 }) | opcode];
    let l = payload.len();
    if l <= 125 {
        v.push(0x80 | l as u8);
    } else if l <= 65535 {
        v.push(0x80 | 126);
        v.extend_from_slice(&(l as u16).to_be_bytes());
    } else {
        v.push(0x80 | 127);
        v.extend_from_slice(&(l as u64).to_be_bytes());
    }
    v.extend_from_slice(&KEY);
    v.extend(payload.iter().enumerate().map(|(i, b)| b ^ KEY[i % 4]));
    v
}

/// `rx.<opcode>.<sizes>`: the message the server receives from these client frames, then `to_frame()` of that object.
fn received_to_frame(kind: &str, payload: Vec<u8>) -> Option<String> {
    let parts: Vec<&str> = kind.split('.').collect();
    if parts.len() != 3 || parts[0] != "rx" {
        return None;
    }
    let opcode: u8 = parts[1].parse().ok()?;
    if opcode != 1 && opcode != 2 {
        return None;
    }
    let sizes: Vec<usize> = if parts[2] == "-" { vec![] } else { parts[2].split('+').map(|x| x.parse().ok()).collect::<Option<Vec<_>>>()? };
    let mut wire = Vec::new();
    let mut rest: &[u8] = &payload;
    for (i, n) in sizes.iter().enumerate() {
        let k = (*n).min(rest.len());
        wire.extend(client_frame(false, if i == 0 { opcode } else { 0 }, &rest[..k]));
        rest = &rest[k..];
    }
    wire.extend(client_frame(true, if sizes.is_empty() { opcode } else { 0 }, rest));
    Some(match guarded(move || {
        let mut ws = WebsocketStream::new(Stream::Mock(Box::new(Wire(Script::new(vec![wire])))));
        match ws.recv() {
            Ok(m) => format!("{}{}:{}", if m.is_text() { "T" } else { "B" }, if m.text().is_some() { 1 } else { 0 }, hex(&m.to_frame())),
            Err(e) => format!("ERR:{:?}", e),
        }
    }) {
        Ok(t) => t,
        Err(_) => "PANIC".into(),
    })
}

#[derive(Clone)]
struct F {
    fin: bool,
    rsv: [bool; 3],
    opcode: u8,
    mask: bool,
    length: u64,
    key: [u8; 4],
    payload: Vec<u8>,
}

fn b(x: bool) -> &'static str {
    if x { "1" } else { "0" }
}

fn rsv_text(r: [bool; 3]) -> String {
    format!("{}{}{}", b(r[0]), b(r[1]), b(r[2]))
}

fn encode(f: &F) -> Result<Vec<u8>, String> {
    let f = f.clone();
    guarded(move || {
        let frame = frame_from_parts((f.fin, f.rsv, f.opcode, f.mask, f.length, f.key, f.payload)).expect("valid opcode");
        Vec::<u8>::from(frame)
    })
}

fn decode(chunks: Vec<Vec<u8>>) -> String {
    let r = guarded(move || {
        let mut s = Script::new(chunks);
        let r = frame_from_stream(&mut s);
        (r.map(|f| frame_parts(&f)), s.remaining())
    });
    match r {
        Err(_) => "PANIC".into(),
        Ok((Err(WebsocketError::ReadError), _)) => "ERR:ReadError".into(),
        Ok((Err(WebsocketError::InvalidOpcode), _)) => "ERR:InvalidOpcode".into(),
        Ok((Err(e), _)) => format!("ERR:{:?}", e),
        Ok((Ok((fin, rsv, opcode, mask, length, key, payload)), rest)) => format!(
            "{} {} {} {} {} {} {} {}",
            b(fin), rsv_text(rsv), opcode, b(mask), length, hex(&key), hex(&payload), rest
        ),
    }
}

/// Cut `bytes` into chunks of the given sizes; what is left is one more chunk.
fn split(sizes: &[usize], bytes: &[u8]) -> Vec<Vec<u8>> {
    let mut res = Vec::new();
    let mut rest = bytes;
    for &n in sizes {
        let k = n.min(rest.len());
        res.push(rest[..k].to_vec());
        rest = &rest[k..];
    }
    if !rest.is_empty() {
        res.push(rest.to_vec());
    }
    res
}

fn sizes_text(sizes: &[usize]) -> String {
    if sizes.is_empty() {
        "-".into()
    } else {
        sizes.iter().map(|n| n.to_string()).collect::<Vec<_>>().join(",")
    }
}

fn parse_sizes(s: &str) -> Option<Vec<usize>> {
    if s == "-" {
        return Some(vec![]);
    }
    s.split(',').map(|x| x.parse().ok()).collect()
}

fn chunks_text(chunks: &[Vec<u8>]) -> String {
    if chunks.is_empty() {
        "-".into()
    } else {
        chunks.iter().map(|c| hex(c)).collect::<Vec<_>>().join(",")
    }
}

fn parse_frame(fin: &str, rsv: &str, opcode: &str, mask: &str, length: Option<&str>, key: &str, payload: &str) -> Option<F> {
    let bit = |s: &str| match s {
        "0" => Some(false),
        "1" => Some(true),
        _ => None,
    };
    let r: Vec<bool> = rsv.chars().map(|c| bit(&c.to_string())).collect::<Option<Vec<_>>>()?;
    if r.len() != 3 {
        return None;
    }
    let k = unhex(key);
    if k.len() != 4 {
        return None;
    }
    let payload = unhex(payload);
    let opcode: u8 = opcode.parse().ok()?;
    opcode_from_u8(opcode)?;
    Some(F {
        fin: bit(fin)?,
        rsv: [r[0], r[1], r[2]],
        opcode,
        mask: bit(mask)?,
        length: match length {
            Some(l) => l.parse().ok()?,
            None => payload.len() as u64,
        },
        key: [k[0], k[1], k[2], k[3]],
        payload,
    })
}

/// Re-execute one case (`fn`, args…) on the implementation.
pub fn exec(f: &[String]) -> Option<String> {
    match (f[0].as_str(), f.len()) {
        ("enc", 8) => {
            let fr = parse_frame(&f[1], &f[2], &f[3], &f[4], Some(&f[5]), &f[6], &f[7])?;
            Some(match encode(&fr) {
                Ok(v) => hex(&v),
                Err(_) => "PANIC".into(),
            })
        }
        ("dec", 2) => {
            let chunks: Vec<Vec<u8>> = if f[1] == "-" { vec![] } else { f[1].split(',').map(unhex).collect() };
            Some(decode(chunks))
        }
        ("rt", 8) => {
            let fr = parse_frame(&f[1], &f[2], &f[3], &f[4], None, &f[5], &f[6])?;
            let sizes = parse_sizes(&f[7])?;
            Some(match encode(&fr) {
                Ok(v) => decode(split(&sizes, &v)),
                Err(_) => "PANIC".into(),
            })
        }
        ("trunc", 9) => {
            let fr = parse_frame(&f[1], &f[2], &f[3], &f[4], None, &f[5], &f[6])?;
            let n: usize = f[7].parse().ok()?;
            let sizes = parse_sizes(&f[8])?;
            Some(match encode(&fr) {
                Ok(v) => decode(split(&sizes, &v[..n.min(v.len())])),
                Err(_) => "PANIC".into(),
            })
        }
        ("opc", 2) => {
            let n: u64 = f[1].parse().ok()?;
            if n > 255 {
                return None;
            }
            Some(match guarded(|| opcode_from_u8(n as u8)) {
                Ok(Some(o)) => o.to_string(),
                Ok(None) => "none".into(),
                Err(_) => "PANIC".into(),
            })
        }
        ("msg", 3) => {
            let p = unhex(&f[2]);
            let kind = f[1].clone();
            if kind.starts_with("rx.") {
                return received_to_frame(&kind, p);
            }
            if kind != "new" && kind != "binary" {
                return None;
            }
            Some(match guarded(move || {
                if kind == "new" { Message::new(p).to_frame() } else { Message::new_binary(p).to_frame() }
            }) {
                Ok(v) => hex(&v),
                Err(_) => "PANIC".into(),
            })
        }
        _ => None,
    }
}

fn kind_of(out: &str) -> &'static str {
    if out == "PANIC" {
        "PANIC"
    } else if out == "ERR:ReadError" {
        "ReadError"
    } else if out == "ERR:InvalidOpcode" {
        "InvalidOpcode"
    } else if out.starts_with("ERR:") {
        "OtherError"
    } else {
        "frame"
    }
}

fn len_class(n: u64) -> &'static str {
    if n < 126 { "len7" } else if n < 65536 { "len16" } else { "len64" }
}

fn emit(out: &mut Out, fields: Vec<String>, nontrivial: bool) -> String {
    let r = exec(&fields).expect("generated case must be executable");
    let refs: Vec<&str> = fields.iter().map(|s| s.as_str()).collect();
    out.count(&format!("fn={}", fields[0]));
    out.case(&refs, &r, nontrivial);
    r
}

fn frame_fields(f: &F) -> Vec<String> {
    vec![b(f.fin).into(), rsv_text(f.rsv), f.opcode.to_string(), b(f.mask).into(), hex(&f.key), hex(&f.payload)]
}

fn run_enc(out: &mut Out, f: &F) {
    let fields = vec![
        "enc".to_string(), b(f.fin).into(), rsv_text(f.rsv), f.opcode.to_string(), b(f.mask).into(),
        f.length.to_string(), hex(&f.key), hex(&f.payload),
    ];
    out.count(&format!("enc:{}:mask={}", len_class(f.length), b(f.mask)));
    if f.length != f.payload.len() as u64 {
        out.count("enc:length-field!=payload-len");
    }
    emit(out, fields, true);
}

fn run_rt(out: &mut Out, f: &F, sizes: &[usize]) {
    let mut fields = vec!["rt".to_string()];
    fields.extend(frame_fields(f));
    fields.push(sizes_text(sizes));
    let r = emit(out, fields, true);
    out.count(&format!("rt:{}:mask={}:{}", len_class(f.payload.len() as u64), b(f.mask), kind_of(&r)));
    out.count(&format!("rt:chunks={}", match sizes.len() + 1 { 1 => "1", 2 => "2", 3 => "3", _ => ">3" }));
}

fn run_trunc(out: &mut Out, f: &F, n: usize, sizes: &[usize]) {
    let mut fields = vec!["trunc".to_string()];
    fields.extend(frame_fields(f));
    fields.push(n.to_string());
    fields.push(sizes_text(sizes));
    let r = emit(out, fields, true);
    out.count(&format!("trunc:{}:{}", len_class(f.payload.len() as u64), kind_of(&r)));
}

fn run_dec(out: &mut Out, chunks: &[Vec<u8>], tag: &str) {
    let flat: Vec<u8> = chunks.concat();
    let valid_opcode = !flat.is_empty() && opcode_from_u8(flat[0] & 0xF).is_some();
    let r = emit(out, vec!["dec".to_string(), chunks_text(chunks)], valid_opcode);
    out.count(&format!("dec:{}:{}", tag, kind_of(&r)));
}

/// Random cut of `len` bytes into 1..=max_parts non-empty chunks (sizes of all chunks but the last).
fn random_sizes(rng: &mut Rng, len: usize, max_parts: u64) -> Vec<usize> {
    let mut sizes = Vec::new();
    let mut left = len;
    let parts = rng.range(1, max_parts);
    for _ in 1..parts {
        if left <= 1 {
            break;
        }
        // bias towards small chunks near the front (header fields), then anywhere
        let n = if rng.chance(1, 2) { rng.range(1, (left as u64 - 1).min(9)) } else { rng.range(1, left as u64 - 1) } as usize;
        sizes.push(n);
        left -= n;
    }
    sizes
}

fn encoded_len(f: &F) -> usize {
    let l = f.payload.len();
    2 + if l < 126 { 0 } else if l < 65536 { 2 } else { 8 } + if f.mask { 4 } else { 0 } + l
}

fn make_frame(rng: &mut Rng, combo: usize, len: usize) -> F {
    // combo in 0..192: fin x rsv(8) x opcode(6) x mask
    let fin = combo & 1 != 0;
    let mask = combo & 2 != 0;
    let r = (combo >> 2) & 7;
    let opcode = OPCODES[(combo >> 5) % 6];
    let key = match rng.below(8) {
        0 => [0, 0, 0, 0],
        1 => [0xff, 0xff, 0xff, 0xff],
        2 => [0x80, 0x01, 0x7e, 0x7f],
        _ => {
            let k = rng.bytes(4);
            [k[0], k[1], k[2], k[3]]
        }
    };
    let payload = match rng.below(6) {
        0 => vec![0u8; len],
        1 => (0..len).map(|i| i as u8).collect(),
        _ => rng.bytes(len),
    };
    F { fin, rsv: [r & 4 != 0, r & 2 != 0, r & 1 != 0], opcode, mask, length: len as u64, key, payload }
}

pub fn gen(out: &mut Out, thorough: bool, seed: u64) {
    let mut rng = Rng::new(seed);

    // --- Opcode::try_from over all 256 values
    for n in 0..256u32 {
        let r = emit(out, vec!["opc".into(), n.to_string()], n < 16);
        out.count(&format!("opc:{}", if r == "none" { "rejected" } else { "accepted" }));
    }

    // --- frames: FIN x RSV1-3 x 6 opcodes x mask (192 combinations) x boundary lengths
    let tiny: [usize; 4] = [0, 1, 2, 5];
    for combo in 0..192 {
        // every split point, byte-by-byte, every truncation for tiny frames
        for &len in &tiny {
            let f = make_frame(&mut rng, combo, len);
            let total = encoded_len(&f);
            run_enc(out, &f);
            run_rt(out, &f, &[]);
            for k in 1..total {
                run_rt(out, &f, &[k]);
            }
            run_rt(out, &f, &vec![1; total - 1]);
            for n in 0..total {
                run_trunc(out, &f, n, &[]);
            }
            for n in 2..total {
                let s = random_sizes(&mut rng, n, 4);
                run_trunc(out, &f, n, &s);
            }
        }
        for &len in &BOUNDARY[2..7] {
            let f = make_frame(&mut rng, combo, len);
            let total = encoded_len(&f);
            run_enc(out, &f);
            run_rt(out, &f, &[]);
            // every split point inside and just after the header, and before the last byte
            for k in 1..=10 {
                run_rt(out, &f, &[k]);
            }
            run_rt(out, &f, &[total - 1]);
            if combo % 8 == (len % 8) {
                for k in 11..total - 1 {
                    run_rt(out, &f, &[k]);
                }
                run_rt(out, &f, &vec![1; total - 1]);
            }
            for _ in 0..3 {
                let s = random_sizes(&mut rng, total, 5);
                run_rt(out, &f, &s);
            }
            for n in 0..=9 {
                run_trunc(out, &f, n, &[]);
            }
            run_trunc(out, &f, total - 1, &[]);
            let n = rng.range(2, total as u64 - 1) as usize;
            let s = random_sizes(&mut rng, n, 4);
            run_trunc(out, &f, n, &s);
        }
    }
    // large boundary lengths and random lengths: quick spreads the 192 combinations over the lengths,
    // thorough runs the full product
    let rand_max: u64 = if thorough { 1 << 20 } else { 100 << 10 };
    let per_len: usize = if thorough { 192 } else { 16 };
    let n_rand: usize = if thorough { 120 } else { 24 };
    let mut big: Vec<(usize, usize)> = Vec::new(); // (combo, len)
    let mut rot = rng.below(192) as usize;
    for &len in &BOUNDARY[7..] {
        for _ in 0..per_len {
            big.push((rot % 192, len));
            rot += if thorough { 1 } else { 37 };
        }
    }
    for i in 0..n_rand {
        let len = match i % 4 {
            0 => rng.range(129, 65533),
            1 => rng.range(65538, rand_max),
            2 => rng.range(129, 4096),
            _ => rng.range(0, rand_max),
        } as usize;
        big.push((rng.below(192) as usize, len));
    }
    for (i, &(combo, len)) in big.iter().enumerate() {
        let f = make_frame(&mut rng, combo, len);
        let total = encoded_len(&f);
        run_enc(out, &f);
        run_rt(out, &f, &[]);
        run_trunc(out, &f, total - 1, &[]);
        // thorough runs the full product above and the variants below on every fourth frame
        if thorough && i % 4 != 0 {
            continue;
        }
        // one split point inside the header region (rotating), one random segmentation
        run_rt(out, &f, &[1 + (i / 4 + i) % 14]);
        let s = random_sizes(&mut rng, total, 6);
        run_rt(out, &f, &s);
        if thorough || i % 4 == 0 {
            run_rt(out, &f, &[total - 1]);
            let blocks = [1usize, 2, 3, 5, 8, 13, 1000, 4096];
            let mut s: Vec<usize> = blocks.to_vec();
            s.extend(std::iter::repeat(1460).take(total / 1460));
            run_rt(out, &f, &s);
        }
        run_trunc(out, &f, (i / 4 + i) % 16, &[]);
        if thorough || i % 4 == 1 {
            let n = rng.range(2, total as u64 - 1) as usize;
            let s = random_sizes(&mut rng, n, 4);
            run_trunc(out, &f, n, &s);
        }
    }
    out.extra.insert(
        "frames".into(),
        format!(
            "192 combinations (FIN x RSV1-3 x 6 opcodes x mask) x payload lengths {{0,1,2,5,124..128}} in full; lengths \
             {{65534..65537}} x {} combinations each; {} random lengths up to {}",
            per_len, n_rand, rand_max
        ),
    );

    // --- encoder with a length field that is not the payload length (the struct allows it)
    let odd_lengths: [u64; 16] = [
        0, 1, 125, 126, 127, 255, 256, 65535, 65536, 65537, 1 << 31, 1 << 32, (1 << 32) + 1, 1 << 63, u64::MAX - 1, u64::MAX,
    ];
    for combo in 0..192 {
        for (j, &l) in odd_lengths.iter().enumerate() {
            if !thorough && (combo + j) % 4 != 0 {
                continue;
            }
            let plen = rng.below(40) as usize;
            let mut f = make_frame(&mut rng, combo, plen);
            f.length = if rng.chance(1, 5) { rng.next() } else { l };
            run_enc(out, &f);
        }
    }

    // --- all 256 x 256 two-byte headers, followed by a complete and by a truncated remainder
    for h0 in 0..=255u8 {
        for h1 in 0..=255u8 {
            let len7 = (h1 & 0x7F) as u64;
            let masked = h1 & 0x80 != 0;
            let (ext, claimed): (Vec<u8>, u64) = if len7 == 126 {
                let v: u16 = match rng.below(16) {
                    0 => 0,
                    1 => 125,
                    2 => 126,
                    3 => 65535,
                    4..=9 => rng.range(0, 300) as u16,
                    _ => rng.range(0, 65535) as u16,
                };
                (v.to_be_bytes().to_vec(), v as u64)
            } else if len7 == 127 {
                let v: u64 = match rng.below(16) {
                    0 => 0,
                    1 => 125,
                    2 => 65535,
                    3 => 65536,
                    4 => rng.range(65536, 70000),
                    5 => rng.range(0, CLAIM_CAP),
                    _ => rng.range(0, 400),
                };
                (v.to_be_bytes().to_vec(), v)
            } else {
                (vec![], len7)
            };
            let mut bytes = vec![h0, h1];
            bytes.extend_from_slice(&ext);
            if masked {
                bytes.extend_from_slice(&rng.bytes(4));
            }
            // complete remainder (claims above 70000 are only run truncated), sometimes with bytes after the frame
            if claimed <= 70000 {
                let mut full = bytes.clone();
                full.extend_from_slice(&rng.bytes(claimed as usize));
                if rng.chance(1, 4) {
                    let extra = rng.range(1, 6) as usize;
                    full.extend_from_slice(&rng.bytes(extra));
                }
                let s = random_sizes(&mut rng, full.len(), 4);
                run_dec(out, &split(&s, &full), "header+complete");
            }
            // truncated remainder: cut anywhere before the end of the frame
            let total = bytes.len() as u64 + claimed;
            let cut = if rng.chance(1, 3) { rng.range(2, bytes.len() as u64) } else { rng.range(0, (total - 1).min(300)) } as usize;
            let cut = cut.min(total as usize - 1);
            let mut t = bytes.clone();
            if cut > t.len() {
                let more = cut - t.len();
                t.extend_from_slice(&rng.bytes(more));
            } else {
                t.truncate(cut);
            }
            let s = random_sizes(&mut rng, t.len(), 3);
            run_dec(out, &split(&s, &t), "header+truncated");
        }
    }
    out.extra.insert(
        "headers".into(),
        format!("all 65536 two-byte headers; claimed payload lengths capped at {} bytes (see rule)", CLAIM_CAP),
    );

    // --- 64-bit length fields whose HIGH bits are set while the low bits are small: with exactly "low bits" bytes following, a
    // decoder that drops or masks any high bit would take the frame for complete (the claim stays far above what is supplied,
    // so no large allocation is at stake since the repair of the up-front allocation)
    for high in [1u64 << 63, 1 << 62, 1 << 48, 1 << 32, (1 << 63) | (1 << 31), u64::MAX << 16] {
        for low in [0u64, 1, 5, 125, 126, 1000] {
            for mask in [0x00u8, 0x80] {
                let v = high | low;
                let mut f = vec![0x82u8, mask | 127];
                f.extend_from_slice(&v.to_be_bytes());
                if mask != 0 { f.extend_from_slice(&[9, 8, 7, 6]); }
                f.extend_from_slice(&rng.bytes(low as usize));
                run_dec(out, &[f.clone()], "high-length-bits");
                let s = random_sizes(&mut rng, f.len(), 3);
                run_dec(out, &split(&s, &f), "high-length-bits");
            }
        }
    }
    // --- reads that return 0 in the middle (empty chunk) and empty scripts
    run_dec(out, &[], "eof");
    run_dec(out, &[vec![]], "eof");
    run_dec(out, &[vec![0x81]], "eof");
    run_dec(out, &[vec![0x81], vec![], vec![0x00]], "zero-read");
    run_dec(out, &[vec![0x81, 0x01], vec![], vec![0x41]], "zero-read");
    run_dec(out, &[vec![0x81, 0x01, 0x41], vec![]], "zero-read");
    run_dec(out, &[vec![0x81, 0x00], vec![], vec![0x41]], "zero-read");

    // --- Message::to_frame
    let mut msg_lens: Vec<usize> = BOUNDARY.to_vec();
    msg_lens.extend_from_slice(&[2, 3, 200, 4096]);
    for &len in &msg_lens {
        if !thorough && len > 65535 && len != 65536 {
            continue;
        }
        let ascii: Vec<u8> = (0..len).map(|i| b'a' + (i % 26) as u8).collect();
        let utf8: Vec<u8> = "é€😀x".bytes().cycle().take(len).collect();
        let bin = rng.bytes(len);
        let mut hi = ascii.clone();
        if len > 0 {
            hi[len - 1] = 0xff;
        }
        for p in [&ascii, &utf8, &bin, &hi] {
            for kind in ["new", "binary"] {
                let r = emit(out, vec!["msg".into(), kind.into(), hex(p)], true);
                out.count(&format!("msg:{}:first-byte={}", kind, &r[..2.min(r.len())]));
            }
        }
    }

    // --- Message::to_frame of RECEIVED messages (`rx` kinds): a message whose text flag is set although the payload is not
    // UTF-8 cannot be built with the constructors, only received. Payload lengths: the boundaries and a sweep around
    // powers of two; payloads: ASCII, whole multi-byte characters, the same cut at the end, arbitrary bytes, Latin-1;
    // received as text and as binary, in one frame and in fragments (cut after the first byte = inside a character for
    // the multi-byte payloads, in the middle, into three).
    let mut rx_lens: Vec<usize> = msg_lens.clone();
    rx_lens.extend_from_slice(&[4, 6, 7, 10, 100, 255, 256, 257, 1000, 1024]);
    if thorough {
        rx_lens.extend_from_slice(&[4095, 4097, 8192, 16384, 32768, 100_000, 131_072, 262_144, 1 << 20]);
    }
    rx_lens.sort_unstable();
    rx_lens.dedup();
    let unit = "é€😀x中ß";
    for &len in &rx_lens {
        if !thorough && len > 65535 && len != 65536 {
            continue;
        }
        let ascii: Vec<u8> = (0..len).map(|i| b'a' + (i % 26) as u8).collect();
        // whole characters only: filled up with `x`
        let mut whole: Vec<u8> = Vec::new();
        for c in unit.chars().cycle() {
            if whole.len() + c.len_utf8() > len {
                break;
            }
            let mut b = [0u8; 4];
            whole.extend_from_slice(c.encode_utf8(&mut b).as_bytes());
        }
        whole.resize(len, b'x');
        // the same stream of characters cut at `len` wherever that falls
        let cut: Vec<u8> = unit.bytes().cycle().take(len).collect();
        let bin = rng.bytes(len);
        let mut latin1 = ascii.clone();
        if len > 0 {
            latin1[len / 2] = 0xe9;
        }
        let mut tail = whole.clone();
        if len > 0 {
            tail[len - 1] = 0xc3;
        }
        for (pi, p) in [&ascii, &whole, &cut, &bin, &latin1, &tail].into_iter().enumerate() {
            if len == 0 && pi > 0 {
                continue;
            }
            let mut cuts: Vec<String> = vec!["-".into()];
            if len >= 2 {
                cuts.push("1".into());
                cuts.push((len / 2).to_string());
                cuts.push((len - 1).to_string());
            }
            if len >= 3 {
                cuts.push(format!("1+{}", (len - 1) / 2));
                cuts.push("1+1+0".into());
            }
            if len > 300 {
                // the large ones: whole, cut in the middle, and one more
                cuts.truncate(3);
            }
            cuts.dedup();
            for c in &cuts {
                for opcode in [1u8, 2] {
                    let r = emit(out, vec!["msg".into(), format!("rx.{}.{}", opcode, c), hex(p)], true);
                    let utf8_ok = std::str::from_utf8(p).is_ok();
                    out.count(&format!("msg:rx:opcode={}:{}:first-byte={}", opcode, if utf8_ok { "utf8" } else { "not-utf8" }, r.split(':').nth(1).map(|h| &h[..2.min(h.len())]).unwrap_or("?")));
                }
            }
        }
    }
}
