//! C08: lifecycle scripts over {start, execute*, stop, drop} on the REAL `humphrey::thread::pool::ThreadPool`,
//! on real threads, with the H3 tracer installed. Every script runs in a child process (`hv __c08child`)
//! under a 2 s watchdog; a pool that does not come back is reported as `WEDGED`.
//!
//! Case line: `pool <TAB> N <TAB> script <TAB> panicking task ids <TAB> event log <TAB> summary`.
//! Script letters: `S` start, `e` execute (returns), `p` execute (panics), `b` execute (waits on a barrier of
//! N such tasks, then returns), `w` wait until every task submitted so far has run, `T` stop, `D` drop.
//! Event log tokens: see `tok` below and `Driver/C08.lean`.
use crate::common::*;
use humphrey::thread::pool::ThreadPool;
use humphrey::thread::verif::{install_sink, PoolEvent, Received};
use std::io::{BufRead, Write};
use std::sync::atomic::{AtomicBool, AtomicU32, AtomicU64, AtomicUsize, Ordering};
use std::sync::{Arc, Mutex};
use std::time::{Duration, Instant};

const WATCHDOG: Duration = Duration::from_millis(2000);
const GRACE: Duration = Duration::from_millis(1500);
const BARRIER_WAIT: Duration = Duration::from_millis(1200);

struct Trace {
    log: Vec<String>,
    rng: Rng,
    /// 0 = no perturbation, 1 = yields, 2 = yields and short sleeps
    intensity: u64,
}

static TRACE: Mutex<Option<Trace>> = Mutex::new(None);
static EXITS: AtomicUsize = AtomicUsize::new(0);

fn tok(ev: PoolEvent) -> String {
    use PoolEvent::*;
    match ev {
        StartBegin(n) => format!("S{}", n),
        StartEnd => "s".into(),
        Submit => "E".into(),
        StopBegin => "T".into(),
        StopEnd => "t".into(),
        LockRequest(w) => format!("q{}", w),
        LockAcquired(w) => format!("l{}", w),
        RecvReturned(w, Received::Task) => format!("r{}t", w),
        RecvReturned(w, Received::Shutdown) => format!("r{}s", w),
        RecvReturned(w, Received::Disconnected) => format!("r{}d", w),
        GuardRelease(w) => format!("u{}", w),
        Run(w) => format!("n{}", w),
        TaskFinished(w) => format!("f{}", w),
        TaskPanicked(w) => format!("p{}", w),
        MarkerSend(w) => format!("m{}", w),
        WorkerExit(w) => format!("x{}", w),
        RecoveryRecv(w) => format!("R{}", w),
        RecoveryJoined(w) => format!("J{}", w),
        RecoveryRespawn(w) => format!("P{}", w),
        DropBegin => "D".into(),
        DropRecoveryHandle => "h".into(),
        DropRecoveryDone => "H".into(),
        DropThread(w) => format!("d{}", w),
        DropEnd => "X".into(),
    }
}

/// Append a token to the global log; returns the perturbation hint.
fn record(t: String) -> u32 {
    let mut g = TRACE.lock().unwrap_or_else(|e| e.into_inner());
    match g.as_mut() {
        None => 0,
        Some(tr) => {
            tr.log.push(t);
            match tr.intensity {
                0 => 0,
                1 => {
                    if tr.rng.chance(1, 3) { 1 } else { 0 }
                }
                _ => match tr.rng.below(8) {
                    0 | 1 => 1,
                    2 => 2 + tr.rng.below(200) as u32,
                    _ => 0,
                },
            }
        }
    }
}

fn perturb(hint: u32) {
    match hint {
        0 => {}
        1 => std::thread::yield_now(),
        n => std::thread::sleep(Duration::from_micros((n - 1) as u64)),
    }
}

fn worker_id() -> String {
    std::thread::current().name().unwrap_or("?").to_string()
}

struct Shared {
    counters: Vec<AtomicU32>,
    done: Vec<AtomicBool>,
    arrived: AtomicUsize,
    barrier_timeout: AtomicBool,
    n: usize,
}

pub struct RunResult {
    pub log: String,
    pub summary: String,
    pub clean: bool,
}

fn panicking_ids(script: &str) -> String {
    let mut k = 0;
    let mut v = Vec::new();
    for c in script.chars() {
        match c {
            'e' | 'b' => k += 1,
            'p' | 'q' | 'r' | 's' => {
                v.push(k.to_string());
                k += 1
            }
            _ => {}
        }
    }
    v.join(",")
}

/// Run one script on the real pool in this process. Must be called at most once per process after a
/// run that was not `clean` (threads of the old pool may still be alive).
pub fn run_script(n: usize, script: &str, seed: u64) -> RunResult {
    // panics with a message go through the process-wide panic hook; start every script from the quiet one (a pool with a
    // monitor subscribed to ThreadPoolPanic installs its own)
    std::panic::set_hook(Box::new(|_| {}));
    let ntasks = script.chars().filter(|c| matches!(c, 'e' | 'p' | 'q' | 'r' | 's' | 'b')).count();
    let started_in_script = script.contains('S');
    let has_barrier = script.contains('b');
    let mut rng = Rng::new(seed);
    let intensity = rng.below(3);
    let spin_mask = rng.next();
    *TRACE.lock().unwrap_or_else(|e| e.into_inner()) = Some(Trace { log: Vec::new(), rng, intensity });
    EXITS.store(0, Ordering::SeqCst);
    install_sink(Box::new(|ev| {
        // count the exit only after its token is in the log: the main thread snapshots the log once it has
        // seen all exits
        let hint = record(tok(ev));
        if let PoolEvent::WorkerExit(_) = ev {
            EXITS.fetch_add(1, Ordering::SeqCst);
        }
        hint
    }));
    let shared = Arc::new(Shared {
        counters: (0..ntasks).map(|_| AtomicU32::new(0)).collect(),
        done: (0..ntasks).map(|_| AtomicBool::new(false)).collect(),
        arrived: AtomicUsize::new(0),
        barrier_timeout: AtomicBool::new(false),
        n,
    });
    let stop_panicked = Arc::new(AtomicBool::new(false));
    let (tx, rx) = std::sync::mpsc::channel::<()>();
    let script_owned: Vec<char> = script.chars().collect();
    let sh = shared.clone();
    let sp = stop_panicked.clone();
    let caller = std::thread::Builder::new()
        .name("caller".into())
        .spawn(move || {
            let mut pool = Some(ThreadPool::new(n));
            let mut monitor_rx = Vec::new(); // receivers of registered monitors stay alive for the whole script
            let mut k = 0usize;
            for c in script_owned {
                match c {
                    'S' => pool.as_mut().unwrap().start(),
                    // `M`: a monitor subscribed to the pool's panic events (changes how the pool observes panics: it
                    // installs a panic hook), `m`: a monitor subscribed to something else
                    'M' | 'm' => {
                        let (mtx, mrx) = std::sync::mpsc::channel();
                        let cfg = humphrey::monitor::MonitorConfig::new(mtx);
                        let cfg = if c == 'M' {
                            cfg.with_subscription_to(humphrey::monitor::event::EventType::ThreadPoolPanic)
                        } else {
                            cfg.with_subscription_to(humphrey::monitor::event::EventType::RequestServedSuccess)
                        };
                        pool.as_mut().unwrap().register_monitor(cfg);
                        monitor_rx.push(mrx);
                    }
                    'e' | 'p' | 'q' | 'r' | 's' | 'b' => {
                        let id = k;
                        k += 1;
                        let sh = sh.clone();
                        let spin = (spin_mask >> (id % 60)) & 3;
                        pool.as_ref().unwrap().execute(move || {
                            let w = worker_id();
                            sh.counters[id].fetch_add(1, Ordering::SeqCst);
                            perturb(record(format!("b{}.{}", id, w)));
                            if c == 'b' {
                                sh.arrived.fetch_add(1, Ordering::SeqCst);
                                let t0 = Instant::now();
                                while sh.arrived.load(Ordering::SeqCst) < sh.n {
                                    if t0.elapsed() > BARRIER_WAIT {
                                        sh.barrier_timeout.store(true, Ordering::SeqCst);
                                        break;
                                    }
                                    std::thread::sleep(Duration::from_micros(50));
                                }
                            } else if spin == 3 {
                                std::thread::sleep(Duration::from_micros(150));
                            } else if spin == 2 {
                                std::thread::yield_now();
                            }
                            if matches!(c, 'p' | 'q' | 'r' | 's') {
                                perturb(record(format!("c{}.{}", id, w)));
                                sh.done[id].store(true, Ordering::SeqCst);
                                match c {
                                    // quiet panic: no panic hook, still `thread::panicking()` while unwinding
                                    'p' => std::panic::resume_unwind(Box::new(())),
                                    // the kinds of payload a task can panic with: literal, formatted, not a string at all
                                    'q' => panic!("task failed"),
                                    'r' => panic!("task {} failed", id),
                                    _ => std::panic::panic_any(id as u32),
                                }
                            }
                            perturb(record(format!("e{}.{}", id, w)));
                            sh.done[id].store(true, Ordering::SeqCst);
                        });
                    }
                    'w' => {
                        let t0 = Instant::now();
                        while !(0..k).all(|i| sh.done[i].load(Ordering::SeqCst)) && t0.elapsed() < BARRIER_WAIT {
                            std::thread::sleep(Duration::from_micros(50));
                        }
                    }
                    'T' => {
                        let p = pool.as_mut().unwrap();
                        if guarded(|| p.stop()).is_err() {
                            sp.store(true, Ordering::SeqCst);
                        }
                    }
                    'D' => drop(pool.take()),
                    _ => {}
                }
            }
            drop(pool.take());
            let _ = tx.send(());
        })
        .expect("spawn caller");
    let returned = rx.recv_timeout(WATCHDOG).is_ok();
    let expect_exits = if started_in_script { n } else { 0 };
    let mut clean = returned;
    if returned {
        let _ = caller.join();
        let t0 = Instant::now();
        while EXITS.load(Ordering::SeqCst) < expect_exits && t0.elapsed() < GRACE {
            std::thread::sleep(Duration::from_micros(100));
        }
        if EXITS.load(Ordering::SeqCst) != expect_exits {
            clean = false;
        }
        // grace period: anything that would run a task a second time gets its chance
        std::thread::sleep(Duration::from_micros(300));
    }
    let log = {
        let mut g = TRACE.lock().unwrap_or_else(|e| e.into_inner());
        let l = g.as_ref().map(|t| t.log.join(" ")).unwrap_or_default();
        if clean {
            *g = None;
        }
        l
    };
    let summary = if !returned {
        "WEDGED".to_string()
    } else {
        let runs: Vec<String> = shared.counters.iter().map(|c| c.load(Ordering::SeqCst).to_string()).collect();
        let barrier = if !has_barrier {
            "na"
        } else if shared.barrier_timeout.load(Ordering::SeqCst) {
            "timeout"
        } else {
            "ok"
        };
        format!(
            "runs={};exited={};caller=returned;barrier={};stoppanic={}",
            runs.join(","),
            EXITS.load(Ordering::SeqCst),
            barrier,
            if stop_panicked.load(Ordering::SeqCst) { 1 } else { 0 }
        )
    };
    if summary.contains("timeout") {
        clean = false;
    }
    RunResult { log, summary, clean }
}

/// `hv __c08child`: read `N script seed` lines from stdin, answer `N<TAB>script<TAB>log<TAB>summary` per line.
/// Ends (exit code 3) after the first run that left threads behind.
pub fn child() {
    std::panic::set_hook(Box::new(|_| {}));
    let stdin = std::io::stdin();
    let stdout = std::io::stdout();
    for line in stdin.lock().lines() {
        let line = match line {
            Ok(l) => l,
            Err(_) => break,
        };
        let f: Vec<&str> = line.split(' ').collect();
        if f.len() != 3 {
            continue;
        }
        let n: usize = f[0].parse().unwrap_or(1);
        let seed: u64 = f[2].parse().unwrap_or(1);
        let r = run_script(n, f[1], seed);
        {
            let mut o = stdout.lock();
            let _ = writeln!(o, "{}\t{}\t{}\t{}", n, f[1], r.log, r.summary);
            let _ = o.flush();
        }
        if !r.clean {
            std::process::exit(3);
        }
    }
}

/// Run the jobs in child processes; a child that ends early is replaced and continues with the rest.
fn run_batch(jobs: &[(usize, String, u64)], wedges: &AtomicU64, max_wedges: u64) -> Vec<(usize, String, String, String)> {
    let exe = std::env::current_exe().expect("current_exe");
    let mut res = Vec::new();
    let mut next = 0;
    while next < jobs.len() {
        if wedges.load(Ordering::SeqCst) >= max_wedges {
            break;
        }
        let mut ch = std::process::Command::new(&exe)
            .arg("__c08child")
            .stdin(std::process::Stdio::piped())
            .stdout(std::process::Stdio::piped())
            .stderr(std::process::Stdio::null())
            .spawn()
            .expect("spawn child");
        {
            let mut si = ch.stdin.take().unwrap();
            let mut text = String::new();
            // at most 400 scripts per child: their lines fit into the pipe buffer, so writing all of them
            // before reading any answer cannot block
            for (n, s, seed) in &jobs[next..(next + 400).min(jobs.len())] {
                text += &format!("{} {} {}\n", n, s, seed);
            }
            // the child may exit before it has read everything
            let _ = si.write_all(text.as_bytes());
        }
        let so = ch.stdout.take().unwrap();
        let mut got = 0;
        for line in std::io::BufReader::new(so).lines() {
            let line = match line {
                Ok(l) => l,
                Err(_) => break,
            };
            let f: Vec<&str> = line.split('\t').collect();
            if f.len() != 4 {
                continue;
            }
            if f[3] == "WEDGED" {
                wedges.fetch_add(1, Ordering::SeqCst);
            }
            res.push((f[0].parse().unwrap_or(0), f[1].to_string(), f[2].to_string(), f[3].to_string()));
            got += 1;
        }
        let _ = ch.wait();
        let given = (next + 400).min(jobs.len()) - next;
        if got > 0 && got < given && res.last().map(|r| r.3 != "WEDGED").unwrap_or(false) {
            // the child ended early: its last run left threads behind (workers that never exit, tasks never
            // run). Such runs cost a grace period each, so they count towards the early stop like wedges do.
            wedges.fetch_add(1, Ordering::SeqCst);
        }
        if got == 0 {
            // the child died without an answer: report the job as such and move on
            let (n, s, _) = &jobs[next];
            res.push((*n, s.clone(), String::new(), "CHILD-DIED".into()));
            got = 1;
        }
        next += got;
    }
    res
}

pub fn exec(f: &[String]) -> Option<String> {
    match (f[0].as_str(), f.len()) {
        ("pool", 5) => {
            let n: usize = f[1].parse().ok()?;
            let w = AtomicU64::new(0);
            let r = run_batch(&[(n, f[2].clone(), 1)], &w, 1);
            r.first().map(|x| x.3.clone())
        }
        _ => None,
    }
}

fn scripts(thorough: bool, seed: u64) -> Vec<(usize, String, u64)> {
    let mut v: Vec<(usize, String)> = Vec::new();
    // never started
    for n in 1..=4 {
        v.push((n, "D".into()));
        v.push((n, "TD".into()));
    }
    // exhaustive block: N in 1..4, 0..6 executes, every panicking subset, with and without stop
    let max_m = 6;
    for n in 1..=4usize {
        for m in 0..=max_m {
            for mask in 0..(1u32 << m) {
                let body: String = (0..m).map(|i| if mask >> i & 1 == 1 { 'p' } else { 'e' }).collect();
                v.push((n, format!("S{}D", body)));
                v.push((n, format!("S{}TD", body)));
            }
        }
    }
    // configuration block: monitors (subscribed to the pool's panic events or not) x the payload a task panics with
    // (quiet unwind, literal message, formatted message, a value that is no string)
    for n in 1..=3usize {
        for mon in ["", "M", "m"] {
            for kind in ['p', 'q', 'r', 's'] {
                for body in ["k", "ek", "ke", "kk", "ekeke", "kekek", "eeekeee"] {
                    let body: String = body.chars().map(|c| if c == 'k' { kind } else { c }).collect();
                    v.push((n, format!("{}S{}D", mon, body)));
                    v.push((n, format!("{}S{}TD", mon, body)));
                    v.push((n, format!("{}S{}wTD", mon, body)));
                }
            }
        }
    }
    // random block: settle points, barrier tasks, stop position
    let mut rng = Rng::new(seed ^ 0xC08);
    let extra = if thorough { 200_000 } else { 20_000 };
    for _ in 0..extra {
        let n = rng.range(1, 4) as usize;
        let m = rng.range(0, 6) as usize;
        let mut kinds: Vec<char> = (0..m).map(|_| if rng.chance(2, 5) { 'p' } else { 'e' }).collect();
        if rng.chance(1, 3) && m >= n {
            // exactly N barrier tasks at random positions
            let mut left = n;
            while left > 0 {
                let i = rng.below(m as u64) as usize;
                if kinds[i] != 'b' {
                    kinds[i] = 'b';
                    left -= 1;
                }
            }
        }
        let mut s = String::from("S");
        // no settle point between barrier tasks: they only return once all N of them have been submitted
        let last_b = kinds.iter().rposition(|c| *c == 'b');
        let first_b = kinds.iter().position(|c| *c == 'b');
        for (i, c) in kinds.into_iter().enumerate() {
            s.push(c);
            let inside = matches!((first_b, last_b), (Some(a), Some(b)) if i >= a && i < b);
            if rng.chance(1, 4) && !inside {
                s.push('w');
            }
        }
        if rng.chance(3, 5) {
            s.push('T');
            if rng.chance(1, 4) {
                s.push('w');
            }
        }
        s.push('D');
        v.push((n, s));
    }
    let mut rng = Rng::new(seed);
    v.into_iter().map(|(n, s)| (n, s, rng.next())).collect()
}

pub fn gen(out: &mut Out, thorough: bool, seed: u64) {
    let jobs = scripts(thorough, seed);
    let wedges = AtomicU64::new(0);
    let max_wedges = 6;
    let par = std::thread::available_parallelism().map(|x| x.get()).unwrap_or(2).clamp(1, 4);
    let chunk = (jobs.len() + par - 1) / par;
    let mut results: Vec<Vec<(usize, String, String, String)>> = Vec::new();
    std::thread::scope(|sc| {
        let hs: Vec<_> = jobs.chunks(chunk.max(1)).map(|c| sc.spawn(|| run_batch(c, &wedges, max_wedges))).collect();
        for h in hs {
            results.push(h.join().unwrap_or_default());
        }
    });
    let mut done = 0usize;
    for (n, script, log, summary) in results.into_iter().flatten() {
        done += 1;
        let panics = panicking_ids(&script);
        let npan = script.chars().filter(|c| matches!(c, 'p' | 'q' | 'r' | 's')).count();
        if script.contains('M') { out.count("monitor_subscribed_to_pool_panics"); }
        if script.contains('q') || script.contains('r') { out.count("panic_with_message"); }
        if script.contains('s') { out.count("panic_with_non_string_payload"); }
        out.count(&format!("N={}", n));
        out.count(&format!("panicking_tasks={}", npan.min(4)));
        out.count(if script.contains('T') { "with_stop" } else { "without_stop" });
        if !script.contains('S') {
            out.count("never_started");
        }
        if script.contains('b') {
            out.count("barrier_of_N");
        }
        if log.contains(" P") {
            out.count("runs_with_respawn");
        }
        if summary == "WEDGED" {
            out.count("WEDGED");
        }
        // a worker id that was respawned and panicked again
        let mut seen = std::collections::HashMap::new();
        for t in log.split(' ') {
            if let Some(w) = t.strip_prefix('P') {
                *seen.entry(w.to_string()).or_insert(0) += 1;
            }
        }
        if seen.values().any(|c| *c >= 2) {
            out.count("same_worker_id_respawned_twice");
        }
        let nontrivial = script.contains('S') && script.chars().any(|c| matches!(c, 'e' | 'p' | 'q' | 'r' | 's' | 'b'));
        out.case(&["pool", &n.to_string(), &script, &panics, &log], &summary, nontrivial);
    }
    if done < jobs.len() {
        out.extra.insert(
            "stopped_early".into(),
            format!("{} of {} scripts run: {} runs wedged, the rest was skipped", done, jobs.len(), wedges.load(Ordering::SeqCst)),
        );
    }
    out.extra.insert("scripts".into(), format!("{} (exhaustive: N 1..4 x 0..{} executes x every panicking subset x stop/no stop)", jobs.len(), 6));
}
