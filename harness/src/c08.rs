//! C08: lifecycle scripts over {start, execute*, stop, drop} on the REAL `humphrey::thread::pool::ThreadPool`,
//! on real threads, with the H3 tracer installed. Every script runs in a child process (`hv __c08child`)
//! under a 2 s watchdog; a pool that does not come back is reported as `WEDGED`.
//!
//! Case line: `pool <TAB> N <TAB> script <TAB> panicking task ids <TAB> event log <TAB> summary`.
//! Script letters: `S` start, `e` execute (returns), `p` execute (panics), `b` execute (waits on a barrier of
//! N such tasks, then returns), `w` wait until every task submitted so far has run, `T` stop, `D` drop.
//! `h` / `x` execute a HELD task: it blocks until the caller opens the gate (`o`: releases every held task submitted so
//! far; the end of the script opens it for good), then returns (`h`) or panics (`x`) — a task that is still running when
//! the pool is stopped, started again or dropped. `W` = `w` and, in addition, every panic that has begun has been
//! recovered (the replacement worker is being spawned); a `W` that is not satisfied although nothing has moved for `BARRIER_WAIT` is reported as
//! `settle=timeout`. `S` may follow `T` (restart, any number of times) or `S` (started twice); every start gives N new
//! workers, all of which have to exit in the end. Barrier tasks form groups: a group is the `b`s between two letters
//! that are no task letters. A task letter may carry a repeat count (`e1000` = 1000 × `e`).
//! Scripts with more than `LOG_LIMIT` tasks run without the tracer's log (log field `-`); `runs=` is run-length encoded
//! (`1x1000`) when there are more than 64 tasks.
//! Event log tokens: see `tok` below and `Driver/C08.lean`.
use crate::common::*;
use humphrey::thread::pool::ThreadPool;
use humphrey::thread::verif::{install_sink, PoolEvent, Received};
use std::io::{BufRead, Write};
use std::sync::atomic::{AtomicBool, AtomicU32, AtomicU64, AtomicUsize, Ordering};
use std::sync::{Arc, Mutex};
use std::time::{Duration, Instant};

// All waits are QUIESCENCE timeouts: what is waited for has not happened AND no thread of the pool has reported an event
// (no task has written a token) for this long. A long script that is still moving is never cut off; a deadlock is seen
// after the same 1-2 s whatever the size of the script.
const WATCHDOG: Duration = Duration::from_millis(2000);
const GRACE: Duration = Duration::from_millis(1500);
const BARRIER_WAIT: Duration = Duration::from_millis(1200);
/// above this many tasks the event log is not kept (the case line would be megabytes; the summary still judges the run)
const LOG_LIMIT: usize = 5_000;

struct Trace {
    log: Vec<String>,
    rng: Rng,
    /// 0 = no perturbation, 1 = yields, 2 = yields and short sleeps
    intensity: u64,
}

static TRACE: Mutex<Option<Trace>> = Mutex::new(None);
static EXITS: AtomicUsize = AtomicUsize::new(0);
/// counts every pool event and every token a task writes
static PROGRESS: AtomicU64 = AtomicU64::new(0);

/// How long nothing has moved (as seen by the thread that owns this value).
struct Quiet {
    last: u64,
    since: Instant,
}

impl Quiet {
    fn new() -> Self {
        Quiet { last: PROGRESS.load(Ordering::SeqCst), since: Instant::now() }
    }
    fn quiet_for(&mut self) -> Duration {
        let p = PROGRESS.load(Ordering::SeqCst);
        if p != self.last {
            self.last = p;
            self.since = Instant::now();
        }
        self.since.elapsed()
    }
}
/// tasks that are about to panic / replacements the recovery threads are about to spawn (for `W`)
static PANICS_BEGUN: AtomicUsize = AtomicUsize::new(0);
static RESPAWNS: AtomicUsize = AtomicUsize::new(0);
/// Longest time (µs) by which the heartbeat thread overslept since the current script began: how long this process was
/// kept off the CPU by the rest of the machine. A run that looks wedged while the process was starved says nothing.
static MAX_STALL_US: AtomicU64 = AtomicU64::new(0);
/// ... and the sum of all such delays above 1 ms
static SUM_STALL_US: AtomicU64 = AtomicU64::new(0);
static HEARTBEAT: std::sync::Once = std::sync::Once::new();

fn start_heartbeat() {
    HEARTBEAT.call_once(|| {
        let _ = std::thread::Builder::new().name("heartbeat".into()).spawn(|| loop {
            let t0 = Instant::now();
            std::thread::sleep(Duration::from_millis(2));
            let over = t0.elapsed().saturating_sub(Duration::from_millis(2)).as_micros() as u64;
            MAX_STALL_US.fetch_max(over, Ordering::SeqCst);
            if over > 1000 {
                SUM_STALL_US.fetch_add(over, Ordering::SeqCst);
            }
        });
    });
}

fn tok(ev: PoolEvent) -> String {
    use PoolEvent::*;
    match ev {
        StartBegin(n) => format!("S{}", n),
        StartEnd => "s".into(),
        Submit => "E".into(),
        StopBegin => "T".into(),
        StopEnd => "t".into(),
        LockRequest(w) => format!("q{}", w),
        LockAcquired(w) => format!("l{}", w),
        RecvReturned(w, Received::Task) => format!("r{}t", w),
        RecvReturned(w, Received::Shutdown) => format!("r{}s", w),
        RecvReturned(w, Received::Disconnected) => format!("r{}d", w),
        GuardRelease(w) => format!("u{}", w),
        Run(w) => format!("n{}", w),
        TaskFinished(w) => format!("f{}", w),
        TaskPanicked(w) => format!("p{}", w),
        MarkerSend(w) => format!("m{}", w),
        WorkerExit(w) => format!("x{}", w),
        RecoveryRecv(w) => format!("R{}", w),
        RecoveryJoined(w) => format!("J{}", w),
        RecoveryRespawn(w) => format!("P{}", w),
        DropBegin => "D".into(),
        DropRecoveryHandle => "h".into(),
        DropRecoveryDone => "H".into(),
        DropThread(w) => format!("d{}", w),
        DropEnd => "X".into(),
    }
}

/// Append a token to the global log; returns the perturbation hint.
fn record(t: String) -> u32 {
    PROGRESS.fetch_add(1, Ordering::SeqCst);
    let mut g = TRACE.lock().unwrap_or_else(|e| e.into_inner());
    match g.as_mut() {
        None => 0,
        Some(tr) => {
            tr.log.push(t);
            match tr.intensity {
                0 => 0,
                1 => {
                    if tr.rng.chance(1, 3) { 1 } else { 0 }
                }
                _ => match tr.rng.below(8) {
                    0 | 1 => 1,
                    2 => 2 + tr.rng.below(200) as u32,
                    _ => 0,
                },
            }
        }
    }
}

fn perturb(hint: u32) {
    match hint {
        0 => {}
        1 => std::thread::yield_now(),
        n => std::thread::sleep(Duration::from_micros((n - 1) as u64)),
    }
}

fn worker_id() -> String {
    std::thread::current().name().unwrap_or("?").to_string()
}

struct Shared {
    counters: Vec<AtomicU32>,
    done: Vec<AtomicBool>,
    /// one arrival counter per barrier group
    arrived: Vec<AtomicUsize>,
    barrier_timeout: AtomicBool,
    settle_timeout: AtomicBool,
    /// gate epoch: a held task submitted at epoch g runs on once the gate is above g
    gate: AtomicUsize,
    n: usize,
}

pub fn is_task(c: char) -> bool {
    matches!(c, 'e' | 'p' | 'q' | 'r' | 's' | 'b' | 'h' | 'x')
}

pub fn is_panicking(c: char) -> bool {
    matches!(c, 'p' | 'q' | 'r' | 's' | 'x')
}

/// The script with the repeat counts written out.
pub fn expand(script: &str) -> Vec<char> {
    let mut v: Vec<char> = Vec::new();
    let cs: Vec<char> = script.chars().collect();
    let mut i = 0;
    while i < cs.len() {
        let c = cs[i];
        i += 1;
        let mut k = 0usize;
        let mut digits = false;
        while i < cs.len() && cs[i].is_ascii_digit() {
            k = k.saturating_mul(10).saturating_add(cs[i] as usize - '0' as usize);
            digits = true;
            i += 1;
        }
        if c.is_ascii_digit() {
            continue;
        }
        let k = if digits && is_task(c) { k } else { 1 };
        for _ in 0..k {
            v.push(c);
        }
    }
    v
}

/// `letter` or `letter<count>`
fn rep(c: char, k: usize) -> String {
    match k {
        0 => String::new(),
        1 => c.to_string(),
        _ => format!("{}{}", c, k),
    }
}

fn rle(xs: &[u32]) -> String {
    let mut out: Vec<String> = Vec::new();
    let mut i = 0;
    while i < xs.len() {
        let mut j = i;
        while j < xs.len() && xs[j] == xs[i] {
            j += 1;
        }
        out.push(format!("{}x{}", xs[i], j - i));
        i = j;
    }
    out.join(",")
}

pub struct RunResult {
    pub log: String,
    pub summary: String,
    pub clean: bool,
}

fn panicking_ids(script: &str) -> String {
    let mut k = 0;
    let mut v = Vec::new();
    for c in expand(script) {
        if is_panicking(c) {
            v.push(k.to_string());
        }
        if is_task(c) {
            k += 1;
        }
    }
    v.join(",")
}

/// Run one script on the real pool in this process. Must be called at most once per process after a
/// run that was not `clean` (threads of the old pool may still be alive).
pub fn run_script(n: usize, script: &str, seed: u64) -> RunResult {
    // panics with a message go through the process-wide panic hook; start every script from the quiet one (a pool with a
    // monitor subscribed to ThreadPoolPanic installs its own)
    std::panic::set_hook(Box::new(|_| {}));
    let ops = expand(script);
    let ntasks = ops.iter().filter(|c| is_task(**c)).count();
    let starts = ops.iter().filter(|c| **c == 'S').count();
    let has_barrier = ops.contains(&'b');
    let has_settle = ops.contains(&'W');
    let ngroups = ops.iter().filter(|c| !is_task(**c)).count() + 1;
    let keep_log = ntasks <= LOG_LIMIT;
    // the one absolute limit (a pool that keeps moving and never gets anywhere)
    let hard_limit = Duration::from_millis(30_000 + (100 * ntasks as u64).min(600_000));
    let mut rng = Rng::new(seed);
    let intensity = rng.below(3);
    let spin_mask = rng.next();
    *TRACE.lock().unwrap_or_else(|e| e.into_inner()) = if keep_log { Some(Trace { log: Vec::new(), rng, intensity }) } else { None };
    start_heartbeat();
    MAX_STALL_US.store(0, Ordering::SeqCst);
    SUM_STALL_US.store(0, Ordering::SeqCst);
    EXITS.store(0, Ordering::SeqCst);
    PANICS_BEGUN.store(0, Ordering::SeqCst);
    RESPAWNS.store(0, Ordering::SeqCst);
    install_sink(Box::new(|ev| {
        // count the exit only after its token is in the log: the main thread snapshots the log once it has
        // seen all exits
        let hint = record(tok(ev));
        match ev {
            PoolEvent::WorkerExit(_) => {
                EXITS.fetch_add(1, Ordering::SeqCst);
            }
            PoolEvent::RecoveryRespawn(_) => {
                RESPAWNS.fetch_add(1, Ordering::SeqCst);
            }
            _ => {}
        }
        hint
    }));
    let shared = Arc::new(Shared {
        counters: (0..ntasks).map(|_| AtomicU32::new(0)).collect(),
        done: (0..ntasks).map(|_| AtomicBool::new(false)).collect(),
        arrived: (0..ngroups).map(|_| AtomicUsize::new(0)).collect(),
        barrier_timeout: AtomicBool::new(false),
        settle_timeout: AtomicBool::new(false),
        gate: AtomicUsize::new(0),
        n,
    });
    let stop_panicked = Arc::new(AtomicBool::new(false));
    let (tx, rx) = std::sync::mpsc::channel::<()>();
    let sh = shared.clone();
    let sp = stop_panicked.clone();
    let hold_max = hard_limit + Duration::from_secs(20);
    let caller = std::thread::Builder::new()
        .name("caller".into())
        .spawn(move || {
            let mut pool = Some(ThreadPool::new(n));
            let mut monitor_rx = Vec::new(); // receivers of registered monitors stay alive for the whole script
            let mut k = 0usize;
            let mut group = 0usize;
            let mut epoch = 0usize;
            // held tasks: id -> gate epoch at submission; `undone` = tasks not yet seen to be done
            let mut held: std::collections::HashMap<usize, usize> = std::collections::HashMap::new();
            let mut undone: Vec<usize> = Vec::new();
            for c in ops {
                if !is_task(c) {
                    group += 1;
                }
                match c {
                    'S' => pool.as_mut().unwrap().start(),
                    // `M`: a monitor subscribed to the pool's panic events (changes how the pool observes panics: it
                    // installs a panic hook), `m`: a monitor subscribed to something else
                    'M' | 'm' => {
                        let (mtx, mrx) = std::sync::mpsc::channel();
                        let cfg = humphrey::monitor::MonitorConfig::new(mtx);
                        let cfg = if c == 'M' {
                            cfg.with_subscription_to(humphrey::monitor::event::EventType::ThreadPoolPanic)
                        } else {
                            cfg.with_subscription_to(humphrey::monitor::event::EventType::RequestServedSuccess)
                        };
                        pool.as_mut().unwrap().register_monitor(cfg);
                        monitor_rx.push(mrx);
                    }
                    'e' | 'p' | 'q' | 'r' | 's' | 'b' | 'h' | 'x' => {
                        let id = k;
                        k += 1;
                        let sh = sh.clone();
                        // (no extra delays in the very long scripts that run without the log)
                        let spin = if keep_log { (spin_mask >> (id % 60)) & 3 } else { 0 };
                        let my_group = group;
                        let my_epoch = epoch;
                        if matches!(c, 'h' | 'x') {
                            held.insert(id, epoch);
                        }
                        undone.push(id);
                        pool.as_ref().unwrap().execute(move || {
                            let w = worker_id();
                            sh.counters[id].fetch_add(1, Ordering::SeqCst);
                            perturb(record(format!("b{}.{}", id, w)));
                            if c == 'b' {
                                sh.arrived[my_group].fetch_add(1, Ordering::SeqCst);
                                let mut q = Quiet::new();
                                while sh.arrived[my_group].load(Ordering::SeqCst) < sh.n {
                                    if q.quiet_for() > BARRIER_WAIT {
                                        sh.barrier_timeout.store(true, Ordering::SeqCst);
                                        break;
                                    }
                                    std::thread::sleep(Duration::from_micros(50));
                                }
                            } else if matches!(c, 'h' | 'x') {
                                let t0 = Instant::now();
                                while sh.gate.load(Ordering::SeqCst) <= my_epoch && t0.elapsed() < hold_max {
                                    std::thread::sleep(Duration::from_micros(50));
                                }
                            } else if spin == 3 {
                                std::thread::sleep(Duration::from_micros(150));
                            } else if spin == 2 {
                                std::thread::yield_now();
                            }
                            if is_panicking(c) {
                                perturb(record(format!("c{}.{}", id, w)));
                                PANICS_BEGUN.fetch_add(1, Ordering::SeqCst);
                                sh.done[id].store(true, Ordering::SeqCst);
                                match c {
                                    // quiet panic: no panic hook, still `thread::panicking()` while unwinding
                                    'p' | 'x' => std::panic::resume_unwind(Box::new(())),
                                    // the kinds of payload a task can panic with: literal, formatted, not a string at all
                                    'q' => panic!("task failed"),
                                    'r' => panic!("task {} failed", id),
                                    _ => std::panic::panic_any(id as u32),
                                }
                            }
                            perturb(record(format!("e{}.{}", id, w)));
                            sh.done[id].store(true, Ordering::SeqCst);
                        });
                    }
                    // open the gate: every held task submitted so far goes on
                    'o' => {
                        epoch += 1;
                        sh.gate.store(epoch, Ordering::SeqCst);
                    }
                    'w' | 'W' => {
                        let mut q = Quiet::new();
                        loop {
                            undone.retain(|i| !sh.done[*i].load(Ordering::SeqCst));
                            // held tasks whose gate is still shut are not waited for
                            let tasks_ok = undone.iter().all(|i| held.get(i).map(|g| *g >= epoch).unwrap_or(false));
                            let rec_ok = c == 'w' || RESPAWNS.load(Ordering::SeqCst) >= PANICS_BEGUN.load(Ordering::SeqCst);
                            if tasks_ok && rec_ok {
                                break;
                            }
                            if q.quiet_for() > BARRIER_WAIT {
                                if c == 'W' {
                                    sh.settle_timeout.store(true, Ordering::SeqCst);
                                }
                                break;
                            }
                            std::thread::sleep(Duration::from_micros(50));
                        }
                    }
                    'T' => {
                        let p = pool.as_mut().unwrap();
                        if guarded(|| p.stop()).is_err() {
                            sp.store(true, Ordering::SeqCst);
                        }
                    }
                    'D' => drop(pool.take()),
                    _ => {}
                }
            }
            drop(pool.take());
            sh.gate.store(usize::MAX, Ordering::SeqCst);
            let _ = tx.send(());
        })
        .expect("spawn caller");
    let t_begin = Instant::now();
    let returned = {
        let mut q = Quiet::new();
        loop {
            match rx.recv_timeout(Duration::from_millis(10)) {
                Ok(()) => break true,
                Err(std::sync::mpsc::RecvTimeoutError::Disconnected) => break false,
                Err(std::sync::mpsc::RecvTimeoutError::Timeout) => {
                    if q.quiet_for() > WATCHDOG || t_begin.elapsed() > hard_limit {
                        break false;
                    }
                }
            }
        }
    };
    if !returned {
        if let Ok(path) = std::env::var("HV_C08_DIAG") {
            if let Ok(mut f) = std::fs::OpenOptions::new().create(true).append(true).open(path) {
                let _ = writeln!(f, "{} {} waited={:?} caller_finished={} max_stall_us={}", n, script, t_begin.elapsed(), caller.is_finished(), MAX_STALL_US.load(Ordering::SeqCst));
            }
        }
    }
    // whatever happened to the caller, no held task stays behind
    shared.gate.store(usize::MAX, Ordering::SeqCst);
    let expect_exits = n * starts;
    let mut clean = returned;
    if returned {
        let _ = caller.join();
        let mut q = Quiet::new();
        while EXITS.load(Ordering::SeqCst) < expect_exits && q.quiet_for() < GRACE && t_begin.elapsed() < hard_limit {
            std::thread::sleep(Duration::from_micros(100));
        }
        if EXITS.load(Ordering::SeqCst) != expect_exits {
            clean = false;
        }
        // grace period: anything that would run a task a second time gets its chance
        std::thread::sleep(Duration::from_micros(300));
    }
    let log = {
        let mut g = TRACE.lock().unwrap_or_else(|e| e.into_inner());
        let l = if keep_log { g.as_ref().map(|t| t.log.join(" ")).unwrap_or_default() } else { "-".to_string() };
        if clean {
            *g = None;
        }
        l
    };
    let summary = if !returned {
        "WEDGED".to_string()
    } else {
        let runs: Vec<u32> = shared.counters.iter().map(|c| c.load(Ordering::SeqCst)).collect();
        let runs = if ntasks > 64 { rle(&runs) } else { runs.iter().map(|c| c.to_string()).collect::<Vec<_>>().join(",") };
        let barrier = if !has_barrier {
            "na"
        } else if shared.barrier_timeout.load(Ordering::SeqCst) {
            "timeout"
        } else {
            "ok"
        };
        let mut s = format!(
            "runs={};exited={};caller=returned;barrier={};stoppanic={}",
            runs,
            EXITS.load(Ordering::SeqCst),
            barrier,
            if stop_panicked.load(Ordering::SeqCst) { 1 } else { 0 }
        );
        if has_settle {
            s += if shared.settle_timeout.load(Ordering::SeqCst) { ";settle=timeout" } else { ";settle=ok" };
        }
        s
    };
    if summary.contains("timeout") {
        clean = false;
    }
    // A run that looks wedged or late says nothing when the machine kept this process off the CPU meanwhile (the
    // heartbeat thread, which only sleeps, was delayed by more than 250 ms at once or by more than a quarter of the time
    // the run took): the parent runs the script again later, on its own.
    if !clean {
        std::thread::sleep(Duration::from_millis(20));
        let max = MAX_STALL_US.load(Ordering::SeqCst);
        let sum = SUM_STALL_US.load(Ordering::SeqCst);
        if max > 250_000 || sum as u128 * 4 > t_begin.elapsed().as_micros() {
            return RunResult { log, summary: "STARVED".into(), clean: false };
        }
    }
    RunResult { log, summary, clean }
}

/// `hv __c08child`: read `N script seed` lines from stdin, answer `N<TAB>script<TAB>log<TAB>summary` per line.
/// Ends (exit code 3) after the first run that left threads behind.
pub fn child() {
    std::panic::set_hook(Box::new(|_| {}));
    let stdin = std::io::stdin();
    let stdout = std::io::stdout();
    for line in stdin.lock().lines() {
        let line = match line {
            Ok(l) => l,
            Err(_) => break,
        };
        let f: Vec<&str> = line.split(' ').collect();
        if f.len() != 3 {
            continue;
        }
        let n: usize = f[0].parse().unwrap_or(1);
        let seed: u64 = f[2].parse().unwrap_or(1);
        let r = run_script(n, f[1], seed);
        {
            let mut o = stdout.lock();
            let _ = writeln!(o, "{}\t{}\t{}\t{}", n, f[1], r.log, r.summary);
            let _ = o.flush();
        }
        if !r.clean {
            std::process::exit(3);
        }
    }
}

/// Run the jobs in child processes; a child that ends early is replaced and continues with the rest.
fn run_batch(jobs: &[(usize, String, u64)], wedges: &AtomicU64, max_wedges: u64) -> Vec<(usize, String, String, String)> {
    let exe = std::env::current_exe().expect("current_exe");
    let mut res = Vec::new();
    let mut next = 0;
    while next < jobs.len() {
        if wedges.load(Ordering::SeqCst) >= max_wedges {
            break;
        }
        #[allow(unused_assignments)]
        let mut given = 0usize;
        let mut ch = std::process::Command::new(&exe)
            .arg("__c08child")
            .stdin(std::process::Stdio::piped())
            .stdout(std::process::Stdio::piped())
            .stderr(std::process::Stdio::null())
            .spawn()
            .expect("spawn child");
        {
            let mut si = ch.stdin.take().unwrap();
            let mut text = String::new();
            // at most 400 scripts and 32 KiB per child: their lines fit into the pipe buffer, so writing all of them
            // before reading any answer cannot block
            given = 0;
            let mut starts = 0usize;
            for (n, s, seed) in &jobs[next..(next + 400).min(jobs.len())] {
                let line = format!("{} {} {}\n", n, s, seed);
                // every start leaves a (detached, immortal) recovery thread behind in the child
                starts += s.matches('S').count();
                if given > 0 && (text.len() + line.len() > 32 * 1024 || starts > 2000) {
                    break;
                }
                text += &line;
                given += 1;
            }
            // the child may exit before it has read everything
            let _ = si.write_all(text.as_bytes());
        }
        let so = ch.stdout.take().unwrap();
        let mut got = 0;
        for line in std::io::BufReader::new(so).lines() {
            let line = match line {
                Ok(l) => l,
                Err(_) => break,
            };
            let f: Vec<&str> = line.split('\t').collect();
            if f.len() != 4 {
                continue;
            }
            if f[3] == "WEDGED" {
                wedges.fetch_add(1, Ordering::SeqCst);
            }
            res.push((f[0].parse().unwrap_or(0), f[1].to_string(), f[2].to_string(), f[3].to_string()));
            got += 1;
        }
        let _ = ch.wait();
        if got > 0 && got < given && res.last().map(|r| r.3 != "WEDGED" && r.3 != "STARVED").unwrap_or(false) {
            // the child ended early: its last run left threads behind (workers that never exit, tasks never
            // run). Such runs cost a grace period each, so they count towards the early stop like wedges do.
            wedges.fetch_add(1, Ordering::SeqCst);
        }
        if got == 0 {
            // the child died without an answer: report the job as such and move on
            let (n, s, _) = &jobs[next];
            res.push((*n, s.clone(), String::new(), "CHILD-DIED".into()));
            got = 1;
        }
        next += got;
    }
    res
}

/// A verdict that rests on time: the caller is not back, a wait was given up, not every worker has exited, no answer.
fn suspicious(n: usize, script: &str, summary: &str) -> bool {
    if summary == "WEDGED" || summary == "STARVED" || summary == "CHILD-DIED" || summary.contains("timeout") {
        return true;
    }
    let starts = script.matches('S').count();
    !summary.contains(&format!(";exited={};", n * starts))
}

/// One script in a child of its own; a run during which the machine starved the child is repeated (a few times).
fn run_alone(n: usize, script: &str, seed: u64) -> Option<(usize, String, String, String)> {
    for attempt in 0..4u64 {
        let w = AtomicU64::new(0);
        let r = run_batch(&[(n, script.to_string(), seed + attempt)], &w, 1);
        match r.into_iter().next() {
            Some(x) if x.3 == "STARVED" => std::thread::sleep(Duration::from_millis(300 * (attempt + 1))),
            other => return other,
        }
    }
    None
}

pub fn exec(f: &[String]) -> Option<String> {
    match (f[0].as_str(), f.len()) {
        ("pool", 5) => {
            let n: usize = f[1].parse().ok()?;
            // the event log is a field of the case, but it belongs to the run that produced it: a replay carries the log of
            // ITS run behind the summary, and the driver judges that one (`|relog=`)
            let r = run_alone(n, &f[2], 1);
            r.map(|x| format!("{}|relog={}", x.3, x.2))
        }
        _ => None,
    }
}

fn scripts(thorough: bool, seed: u64) -> Vec<(usize, String, u64)> {
    let mut v: Vec<(usize, String)> = Vec::new();
    // never started
    for n in 1..=4 {
        v.push((n, "D".into()));
        v.push((n, "TD".into()));
    }
    // exhaustive block: N in 1..4, 0..6 executes, every panicking subset, with and without stop
    let max_m = 6;
    for n in 1..=4usize {
        for m in 0..=max_m {
            for mask in 0..(1u32 << m) {
                let body: String = (0..m).map(|i| if mask >> i & 1 == 1 { 'p' } else { 'e' }).collect();
                v.push((n, format!("S{}D", body)));
                v.push((n, format!("S{}TD", body)));
            }
        }
    }
    // configuration block: monitors (subscribed to the pool's panic events or not) x the payload a task panics with
    // (quiet unwind, literal message, formatted message, a value that is no string)
    for n in 1..=3usize {
        for mon in ["", "M", "m"] {
            for kind in ['p', 'q', 'r', 's'] {
                for body in ["k", "ek", "ke", "kk", "ekeke", "kekek", "eeekeee"] {
                    let body: String = body.chars().map(|c| if c == 'k' { kind } else { c }).collect();
                    v.push((n, format!("{}S{}D", mon, body)));
                    v.push((n, format!("{}S{}TD", mon, body)));
                    v.push((n, format!("{}S{}wTD", mon, body)));
                }
            }
        }
    }
    // random block: settle points, barrier tasks, stop position
    let mut rng = Rng::new(seed ^ 0xC08);
    let extra = if thorough { 200_000 } else { 20_000 };
    for _ in 0..extra {
        let n = rng.range(1, 4) as usize;
        let m = rng.range(0, 6) as usize;
        let mut kinds: Vec<char> = (0..m).map(|_| if rng.chance(2, 5) { 'p' } else { 'e' }).collect();
        if rng.chance(1, 3) && m >= n {
            // exactly N barrier tasks at random positions
            let mut left = n;
            while left > 0 {
                let i = rng.below(m as u64) as usize;
                if kinds[i] != 'b' {
                    kinds[i] = 'b';
                    left -= 1;
                }
            }
        }
        let mut s = String::from("S");
        // no settle point between barrier tasks: they only return once all N of them have been submitted
        let last_b = kinds.iter().rposition(|c| *c == 'b');
        let first_b = kinds.iter().position(|c| *c == 'b');
        for (i, c) in kinds.into_iter().enumerate() {
            s.push(c);
            let inside = matches!((first_b, last_b), (Some(a), Some(b)) if i >= a && i < b);
            if rng.chance(1, 4) && !inside {
                s.push('w');
            }
        }
        if rng.chance(3, 5) {
            s.push('T');
            if rng.chance(1, 4) {
                s.push('w');
            }
        }
        s.push('D');
        v.push((n, s));
    }
    restart_scripts(&mut v, thorough, &mut rng);
    large_scripts(&mut v, thorough);
    // the long scripts sit at the end of the list: deal the list out so that every parallel batch gets its share
    for i in (1..v.len()).rev() {
        let j = rng.below(i as u64 + 1) as usize;
        v.swap(i, j);
    }
    let mut rng = Rng::new(seed);
    v.into_iter().map(|(n, s)| (n, s, rng.next())).collect()
}

/// Scripts in which the pool is started more than once: `... T S ...` (restart), `... S S ...` (started twice without a
/// stop) and `... T T ...`; tasks finished, queued or still running (held) when the pool is stopped / started again /
/// dropped; panics before, across (held task that panics after the next start) and after the restart; barrier groups of
/// N in the later runs (N usable workers THERE, whatever the earlier runs' threads do); with and without a final stop.
fn restart_scripts(v: &mut Vec<(usize, String)>, thorough: bool, rng: &mut Rng) {
    let small: Vec<String> = {
        let mut b = vec![String::new()];
        for m in 1..=2 {
            for mask in 0..(1u32 << m) {
                b.push((0..m).map(|i| if mask >> i & 1 == 1 { 'p' } else { 'e' }).collect());
            }
        }
        b
    };
    // R1: one restart, every pair of small bodies, first run settled or not, with / without a final stop
    for n in 1..=3usize {
        for a in &small {
            for b in &small {
                for settle in ["", "w", "W"] {
                    if a.is_empty() && !settle.is_empty() {
                        continue;
                    }
                    for end in ["D", "TD"] {
                        v.push((n, format!("S{}{}TS{}{}", a, settle, b, end)));
                    }
                }
            }
        }
    }
    // R2: tasks of the first run still running (held) or queued behind them across the restart
    for n in 1..=3usize {
        let bn = rep('b', n);
        for first in ["h", "x", "hh", "xx", "ex", "xe", "he", "hee", "xee", "hx", "px", "xp"] {
            for restart in ["TS", "S", "TTS"] {
                // (a) released right after the restart, everything settled, then the second run works
                for b in ["".to_string(), "e".into(), "p".into(), format!("pW{}", bn), bn.clone(), format!("ppW{}W", bn)] {
                    for end in ["D", "TD", "WD", "WTD"] {
                        v.push((n, format!("S{}{}oW{}{}", first, restart, b, end)));
                    }
                }
                // (b) the second run works while the old tasks are still held, then they are released
                for b in ["e".to_string(), "p".into(), "ee".into(), bn.clone(), format!("p{}", bn)] {
                    for end in ["D", "TD", "WD", "WTD"] {
                        v.push((n, format!("S{}{}{}oW{}", first, restart, b, end)));
                    }
                    // (c) ... or only after the pool has been dropped (the end of the script opens the gate)
                    for end in ["D", "TD"] {
                        v.push((n, format!("S{}{}{}{}", first, restart, b, end)));
                    }
                }
            }
        }
    }
    // R3: several restarts with the same kind of run each time
    let mut counts = vec![2usize, 3, 4, 5, 8, 10, 30, 100];
    if thorough {
        counts.extend([300, 1000]);
    }
    for n in 1..=3usize {
        let bn = rep('b', n);
        for &r in &counts {
            let mut bodies: Vec<(String, String)> = vec![
                ("".into(), "T".into()),
                ("e".into(), "T".into()),
                ("p".into(), "T".into()),
                ("ep".into(), "T".into()),
                ("pe".into(), "wT".into()),
                (bn.clone(), "T".into()),
                (format!("pW{}", bn), "T".into()),
                ("e".into(), "".into()), // started again without a stop
                ("p".into(), "TT".into()),
            ];
            if r > 10 {
                bodies.truncate(4);
            }
            for (body, stop) in &bodies {
                let run = format!("S{}{}", body, stop);
                v.push((n, format!("{}D", run.repeat(r))));
                v.push((n, format!("{}S{}D", run.repeat(r - 1), body)));
            }
            // a task of every run panics only after the next run has been started
            v.push((n, format!("SxT{}SoWD", "SoWxT".repeat(r - 1))));
            v.push((n, format!("SxT{}S{}oW{}D", "SoWxT".repeat(r - 1), bn, bn)));
            // ... or all of them at the very end
            v.push((n, format!("{}D", "SxT".repeat(r))));
            v.push((n, format!("{}S{}oWpW{}D", "ShxT".repeat(r), bn, bn)));
        }
    }
    // R4: random lifecycle scripts with 1..6 runs
    let extra = if thorough { 60_000 } else { 4_000 };
    for _ in 0..extra {
        let n = rng.range(1, 4) as usize;
        let runs = if rng.chance(1, 8) { rng.range(4, 6) } else { rng.range(1, 3) } as usize;
        let mut s = String::new();
        if rng.chance(1, 10) {
            s.push(*rng.pick(&['M', 'm']));
        }
        // held tasks whose gate is shut: of the current run / of any run
        let mut held_here = 0usize;
        let mut held_any = 0usize;
        for run in 0..runs {
            s.push('S');
            held_here = 0;
            let segs = rng.range(0, 3);
            for _ in 0..segs {
                match rng.below(8) {
                    // a few quick tasks
                    0..=2 => {
                        for _ in 0..rng.range(1, 3) {
                            s.push(if rng.chance(2, 5) { *rng.pick(&['p', 'p', 'q', 'r', 's']) } else { 'e' });
                        }
                    }
                    // held tasks
                    3 | 4 => {
                        for _ in 0..rng.range(1, 2) {
                            s.push(if rng.chance(1, 2) { 'x' } else { 'h' });
                            held_here += 1;
                            held_any += 1;
                        }
                    }
                    // release
                    5 => {
                        if held_any > 0 {
                            s.push('o');
                            held_here = 0;
                            held_any = 0;
                        }
                    }
                    // a barrier group of N: needs every worker of this run
                    6 => {
                        if held_here > 0 {
                            s.push('o');
                            held_here = 0;
                            held_any = 0;
                        }
                        if held_any == 0 && rng.chance(1, 2) {
                            s.push('W');
                        }
                        let mut group: Vec<char> = vec!['b'; n];
                        for _ in 0..rng.below(3) {
                            let at = rng.below(group.len() as u64 + 1) as usize;
                            group.insert(at, if rng.chance(1, 2) { 'p' } else { 'e' });
                        }
                        s.extend(group);
                    }
                    // settle (never while a task is held: tasks queued behind it cannot run)
                    _ => {
                        if held_any == 0 {
                            s.push(if rng.chance(1, 2) { 'W' } else { 'w' });
                        }
                    }
                }
            }
            let last = run + 1 == runs;
            if !last {
                match rng.below(10) {
                    0 => {}                  // started again without a stop
                    1 => s.push_str("TT"),
                    2 => {
                        if held_any == 0 {
                            s.push('w');
                        }
                        s.push('T');
                    }
                    _ => s.push('T'),
                }
            } else {
                if rng.chance(3, 5) {
                    s.push('T');
                }
                if held_any > 0 && rng.chance(1, 2) {
                    s.push('o');
                    held_any = 0;
                }
                if held_any == 0 && rng.chance(1, 3) {
                    s.push(if rng.chance(1, 2) { 'W' } else { 'w' });
                }
                s.push('D');
            }
        }
        let _ = held_here;
        v.push((n, s));
    }
}

/// Scripts with MANY tasks, panics, queued tasks: counts around powers of two and round numbers, a few very large ones.
fn large_scripts(v: &mut Vec<(usize, String)>, thorough: bool) {
    // every worker held and c tasks queued behind them (a bounded queue would block the caller): small c as well
    let mut small: Vec<usize> = (1..=20).collect();
    small.extend([31, 32, 33, 63, 64, 65]);
    for n in 1..=4usize {
        for &c in &small {
            v.push((n, format!("S{}{}oWD", rep('h', n), rep('e', c))));
            v.push((n, format!("S{}{}TD", rep('h', n), rep('e', c))));
        }
    }
    let mut counts = vec![100usize, 128, 255, 256, 257, 1000, 1024];
    if thorough {
        counts.extend([512, 2048, 4096, 8192, 10_000]);
    }
    let ns: &[usize] = if thorough { &[1, 2, 3, 4, 8, 16] } else { &[1, 2, 4] };
    for &n in ns {
        let bn = rep('b', n);
        let hn = rep('h', n);
        for &c in &counts {
            let e = rep('e', c);
            let p = rep('p', c);
            v.push((n, format!("S{}D", e)));
            v.push((n, format!("S{}TD", e)));
            v.push((n, format!("S{}wTD", e)));
            v.push((n, format!("S{}W{}D", e, bn)));
            v.push((n, format!("S{}{}{}wD", rep('e', c / 2), rep('p', c / 4), rep('e', c / 4))));
            // every worker held, c tasks queued: released / dropped / stopped with the queue full
            v.push((n, format!("S{}{}oWD", hn, e)));
            v.push((n, format!("S{}{}D", hn, e)));
            v.push((n, format!("S{}{}TD", hn, e)));
            // bulk across a restart
            v.push((n, format!("S{}TS{}D", e, e)));
            v.push((n, format!("S{}{}TS{}oWD", hn, e, e)));
            if c <= 1024 || n >= 4 {
                // hundreds of panics: N usable workers afterwards
                v.push((n, format!("S{}D", p)));
                v.push((n, format!("S{}TD", p)));
                v.push((n, format!("S{}W{}WTD", p, bn)));
                v.push((n, format!("S{}TS{}W{}D", p, p, bn)));
            }
        }
    }
    // wide pools (the other blocks have N <= 4): every worker busy / panicking / held, also across a restart
    let wide: &[usize] = if thorough { &[5, 6, 8, 16, 32, 64, 128] } else { &[5, 8, 16, 64] };
    for &n in wide {
        let bn = rep('b', n);
        v.push((n, format!("S{}W{}D", rep('e', 2 * n), bn)));
        v.push((n, format!("S{}W{}TD", rep('p', n), bn)));
        v.push((n, format!("S{}{}oW{}D", rep('h', n), rep('e', n), bn)));
        v.push((n, format!("S{}TS{}D", bn, bn)));
        v.push((n, format!("S{}TSoWpW{}D", rep('x', n), bn)));
        v.push((n, format!("S{}SoW{}TD", rep('x', n), bn)));
    }
    // very large: with the event log up to LOG_LIMIT tasks, without it beyond
    let big: &[(usize, usize)] = if thorough {
        &[(1, 5_000), (2, 12_000), (4, 16_384), (2, 65_536), (4, 100_000), (8, 262_144), (4, 1_000_000), (1, 1_048_576)]
    } else {
        &[(2, 4096), (4, 10_000), (4, 65_536), (2, 100_000)]
    };
    for &(n, c) in big {
        let e = rep('e', c);
        v.push((n, format!("S{}D", e)));
        v.push((n, format!("S{}wTD", e)));
        v.push((n, format!("S{}{}oWD", rep('h', n), e)));
        if c >= 65_536 {
            v.push((n, format!("S{}TS{}D", e, e)));
        }
    }
}

pub fn gen(out: &mut Out, thorough: bool, seed: u64) {
    let jobs = scripts(thorough, seed);
    let wedges = AtomicU64::new(0);
    let max_wedges = 6;
    let par = std::thread::available_parallelism().map(|x| x.get()).unwrap_or(2).clamp(1, 4);
    let chunk = (jobs.len() + par - 1) / par;
    let mut results: Vec<Vec<(usize, String, String, String)>> = Vec::new();
    std::thread::scope(|sc| {
        let hs: Vec<_> = jobs.chunks(chunk.max(1)).map(|c| sc.spawn(|| run_batch(c, &wedges, max_wedges))).collect();
        for h in hs {
            results.push(h.join().unwrap_or_default());
        }
    });
    let mut done = 0usize;
    // Verdicts that rest on time (the caller is not back, a wait was given up, workers have not exited yet, the child
    // died) are CONFIRMED: the script is run again on its own, up to three times, now that nothing else runs here. The
    // first repetition that fails again is what is reported; a failure that does not show again in three undisturbed
    // runs is put down to the machine (counted in `suspicious_not_reproduced`) and the clean run is reported. A task
    // that ran twice, or a log the model rejects, is a fact and is reported as it is.
    let mut all: Vec<(usize, String, String, String)> = Vec::new();
    let mut suspicious_n = 0usize;
    let mut confirmed_n = 0usize;
    let mut not_reproduced: Vec<String> = Vec::new();
    let mut dropped = 0usize;
    for r in results.into_iter().flatten() {
        if !suspicious(r.0, &r.1, &r.3) {
            all.push(r);
            continue;
        }
        suspicious_n += 1;
        let mut last: Option<(usize, String, String, String)> = None;
        let mut confirmed = false;
        // (after two confirmed failures the rest is taken as it is: the code is broken, not the machine)
        let tries = if confirmed_n < 2 && suspicious_n <= 60 { 3 } else { 0 };
        for attempt in 0..tries {
            match run_alone(r.0, &r.1, seed ^ (suspicious_n as u64 * 8 + attempt)) {
                Some(x) => {
                    let bad = suspicious(x.0, &x.1, &x.3);
                    last = Some(x);
                    if bad {
                        confirmed = true;
                        break;
                    }
                }
                None => {}
            }
        }
        if tries == 0 {
            if r.3 != "STARVED" {
                all.push(r);
            } else {
                dropped += 1;
                done += 1;
            }
        } else if confirmed {
            confirmed_n += 1;
            all.push(last.unwrap());
        } else {
            match last {
                Some(x) => {
                    if r.3 != "STARVED" {
                        not_reproduced.push(format!("N={} {} ({})", r.0, r.1, r.3.chars().take(40).collect::<String>()));
                    }
                    all.push(x);
                }
                None => {
                    dropped += 1;
                    done += 1;
                }
            }
        }
    }
    if suspicious_n > 0 {
        out.extra.insert(
            "time_dependent_verdicts_rerun".into(),
            format!("{} runs looked wedged / late / starved and were repeated alone; not reproduced in 3 runs: {} [{}]; no undisturbed run possible: {}",
                suspicious_n, not_reproduced.len(), not_reproduced.join("; "), dropped),
        );
    }
    for (n, script, log, summary) in all {
        done += 1;
        let panics = panicking_ids(&script);
        let ops = expand(&script);
        let npan = ops.iter().filter(|c| is_panicking(**c)).count();
        let ntasks = ops.iter().filter(|c| is_task(**c)).count();
        let starts = ops.iter().filter(|c| **c == 'S').count();
        if starts >= 2 {
            out.count(&format!("starts={}", if starts <= 5 { starts.to_string() } else if starts <= 10 { "6..10".into() } else if starts <= 100 { "11..100".into() } else { ">100".to_string() }));
            out.count("outside_the_model:judged_by_summary_and_log_counts");
            if script.contains("SS") || ops.windows(2).any(|w| w[1] == 'S' && w[0] != 'T' && w[0] != 'M' && w[0] != 'm') && !script.contains('T') {
                out.count("started_again_without_stop");
            }
            // a held task submitted before a later start and released after it
            let mut pending = false;
            let mut across = false;
            for c in &ops {
                match c {
                    'h' | 'x' => pending = true,
                    'o' => pending = false,
                    'S' if pending => across = true,
                    _ => {}
                }
            }
            if across {
                out.count("task_running_across_restart");
            }
        }
        if script.contains("TT") { out.count("stopped_twice"); }
        if script.contains('h') || script.contains('x') { out.count("held_tasks"); }
        if script.contains('W') { out.count("settle_incl_recovery"); }
        for lim in [100usize, 1000, 10_000, 100_000, 1_000_000] {
            if ntasks >= lim { out.count(&format!("tasks>={}", lim)); }
        }
        if npan >= 100 { out.count("panics>=100"); }
        if log == "-" { out.count("log_omitted(summary_only)"); }
        if script.contains('M') { out.count("monitor_subscribed_to_pool_panics"); }
        if script.contains('q') || script.contains('r') { out.count("panic_with_message"); }
        if script.contains('s') { out.count("panic_with_non_string_payload"); }
        out.count(&format!("N={}", n));
        out.count(&format!("panicking_tasks={}", npan.min(4)));
        out.count(if script.contains('T') { "with_stop" } else { "without_stop" });
        if !script.contains('S') {
            out.count("never_started");
        }
        if script.contains('b') {
            out.count("barrier_of_N");
        }
        if log.contains(" P") {
            out.count("runs_with_respawn");
        }
        if summary == "WEDGED" {
            out.count("WEDGED");
        }
        // a worker id that was respawned and panicked again
        let mut seen = std::collections::HashMap::new();
        for t in log.split(' ') {
            if let Some(w) = t.strip_prefix('P') {
                *seen.entry(w.to_string()).or_insert(0) += 1;
            }
        }
        if seen.values().any(|c| *c >= 2) {
            out.count("same_worker_id_respawned_twice");
        }
        let nontrivial = script.contains('S') && ntasks > 0;
        out.case(&["pool", &n.to_string(), &script, &panics, &log], &summary, nontrivial);
    }
    if done < jobs.len() {
        out.extra.insert(
            "stopped_early".into(),
            format!("{} of {} scripts run: {} runs wedged, the rest was skipped", done, jobs.len(), wedges.load(Ordering::SeqCst)),
        );
    }
    out.extra.insert("scripts".into(), format!("{} (exhaustive: N 1..4 x 0..{} executes x every panicking subset x stop/no stop; restart families R1-R4; large-count families)", jobs.len(), 6));
}
