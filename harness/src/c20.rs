//! C20: the REAL `App::run` (threaded runtime) with a shutdown receiver, on 127.0.0.1 / 0.0.0.0 / [::] / [::1]
//! and a free port per scenario, client connections placed in the traffic states the property lists, pools of
//! 1..8 threads (also fully occupied ones), the signal before / between / concurrently with / after the
//! connects. Every scenario runs in a child process (`hv __c20child`; tokio: `hvt __c20child` from
//! `harness-tokio`) because a wedged `run` cannot be cleaned up in-process; `run` not back 3 s after the signal
//! = `WEDGED`. The pool tracer (H3) and the app tracer are installed: the event log of the accept / stop / drop
//! path is replayed through `Model/Shutdown.lean` by the Lean driver (see `Driver/C20.lean` for the tokens).
//!
//! Large states (mode `Q`, see `c20_scn.rs`): every worker held by a connection that does not finish and 200 /
//! 1 100 / (thorough) 5 000 and seed-chosen numbers of further connections accepted and queued (tokio: spawned
//! and idle) at the moment of the signal. Two descriptors per connection live in the child: it is started through
//! `sh -c 'ulimit -S -n …; exec hv __c20child'` with the soft limit raised to `NOFILE_WANTED` (or the hard limit);
//! `fd_budget()` is the same computation in the parent, the connection counts are capped by it.
//!
//! Case line: `shutdown <TAB> scenario <TAB> id=port,… <TAB> refused ids <TAB> must ids <TAB> log <TAB> summary`.
use crate::c20_scn::*;
use crate::common::*;
use humphrey::http::{Response, StatusCode};
use humphrey::stream::Stream;
use humphrey::thread::verif::{install_app_sink, install_sink, AppEvent, PoolEvent, Received};
use humphrey::App;
use std::io::Write;
use std::net::TcpStream;
use std::sync::atomic::Ordering;
use std::sync::mpsc::Sender;
use std::sync::Arc;
use std::time::Duration;

fn pool_tok(ev: PoolEvent) -> String {
    use PoolEvent::*;
    match ev {
        StartBegin(n) => format!("S{}", n),
        StartEnd => "s".into(),
        Submit => "E".into(),
        StopBegin => "T".into(),
        StopEnd => "t".into(),
        LockRequest(w) => format!("q{}", w),
        LockAcquired(w) => format!("l{}", w),
        RecvReturned(w, Received::Task) => format!("r{}t", w),
        RecvReturned(w, Received::Shutdown) => format!("r{}s", w),
        RecvReturned(w, Received::Disconnected) => format!("r{}d", w),
        GuardRelease(w) => format!("u{}", w),
        Run(w) => format!("n{}", w),
        TaskFinished(w) => format!("f{}", w),
        TaskPanicked(w) => format!("p{}", w),
        MarkerSend(w) => format!("m{}", w),
        WorkerExit(w) => format!("x{}", w),
        RecoveryRecv(w) => format!("R{}", w),
        RecoveryJoined(w) => format!("J{}", w),
        RecoveryRespawn(w) => format!("P{}", w),
        DropBegin => "D".into(),
        DropRecoveryHandle => "h".into(),
        DropRecoveryDone => "H".into(),
        DropThread(w) => format!("d{}", w),
        DropEnd => "X".into(),
    }
}

pub fn app_tok(ev: AppEvent) -> String {
    use AppEvent::*;
    match ev {
        AcceptReturned(Some(p)) => format!("@A{}", p),
        AcceptReturned(None) => "@A?".into(),
        AcceptFailed => "@AE".into(),
        FlagChecked(v) => format!("@F{}", v as u8),
        Condition(v) => format!("@C{}", v as u8),
        Executed => "@E".into(),
        LoopExit => "@L".into(),
        PoolStopped => "@P".into(),
        AppDropped => "@D".into(),
        SignalReceived => "@R".into(),
        FlagStoreBegin => "@B".into(),
        FlagStored => "@S".into(),
        SelfConnectBegin => "@W".into(),
        SelfConnectDone => "@w".into(),
        JoinDone => "@J".into(),
    }
}

pub fn install_sinks() {
    install_sink(Box::new(|ev| {
        record(pool_tok(ev));
        match ev {
            PoolEvent::WorkerExit(_) => {
                WORKER_EXITS.fetch_add(1, Ordering::SeqCst);
            }
            PoolEvent::DropBegin => probe_listener(),
            _ => {}
        }
        0
    }));
    install_app_sink(Box::new(|ev| {
        record(app_tok(ev));
        if matches!(ev, AppEvent::Executed | AppEvent::Condition(false)) {
            HANDLED.fetch_add(1, Ordering::SeqCst);
        }
        0
    }));
}

fn condition(_: &mut TcpStream, _: Arc<()>) -> bool {
    !deny_now()
}

fn ws_handler(mut stream: humphrey_ws::stream::WebsocketStream, _: Arc<()>) {
    while stream.recv().is_ok() {}
}

fn launch(scn: &Scn, addr: String, done: Sender<()>) -> Box<dyn FnOnce() + Send> {
    install_sinks();
    let (tx, rx) = std::sync::mpsc::channel::<()>();
    let mut app: App<()> = App::new_with_config(scn.threads, ())
        .with_shutdown(rx)
        .with_connection_condition(condition)
        .with_stateless_route("/ok", |_| Response::new(StatusCode::OK, "ok"))
        .with_stateless_route("/short", |_| {
            std::thread::sleep(Duration::from_millis(SHORT_MS));
            Response::new(StatusCode::OK, "short")
        })
        .with_stateless_route("/long", |_| {
            std::thread::sleep(Duration::from_millis(LONG_MS));
            Response::new(StatusCode::OK, "long")
        })
        .with_stateless_route("/big", |_| Response::new(StatusCode::OK, vec![b'x'; BIG]))
        // pipelined connections: `/gate` runs until the harness opens the gate (after `run` has returned),
        // `/n/<i>` answers with its URI at once, `/ns/<i>` after `SHORT_MS`
        .with_stateless_route("/gate", |_| {
            let t0 = std::time::Instant::now();
            while !gate_open() && t0.elapsed() < GATE_MAX {
                std::thread::sleep(Duration::from_millis(1));
            }
            Response::new(StatusCode::OK, "gate")
        })
        .with_stateless_route("/n/*", |r: humphrey::http::Request| Response::new(StatusCode::OK, r.uri))
        .with_stateless_route("/ns/*", |r: humphrey::http::Request| {
            std::thread::sleep(Duration::from_millis(SHORT_MS));
            Response::new(StatusCode::OK, r.uri)
        })
        .with_websocket_route("/ws", humphrey_ws::websocket_handler(ws_handler));
    if scn.timeout_ms > 0 {
        app = app.with_connection_timeout(Some(Duration::from_millis(scn.timeout_ms)));
    }
    std::thread::Builder::new()
        .name("run".into())
        .spawn(move || {
            let _ = app.run(addr);
            mark_done();
            let _ = done.send(());
        })
        .expect("spawn run");
    Box::new(move || {
        let _ = tx.send(());
    })
}

pub fn child() {
    child_loop();
}

fn child_loop() {
    crate::c20_scn::child(launch);
}

type Row = Vec<String>;

/// descriptors the children ask for (5 000 connections = 10 000 descriptors, both ends live in the child)
const NOFILE_WANTED: u64 = 16384;

/// The soft limit on open files the children will run with (`/proc/self/limits`; `sh` raises the soft limit
/// up to the hard limit, never lowers it).
fn fd_budget() -> u64 {
    let lim = |w: &str| -> u64 { if w == "unlimited" { u64::MAX } else { w.parse().unwrap_or(1024) } };
    let text = std::fs::read_to_string("/proc/self/limits").unwrap_or_default();
    for l in text.lines() {
        if let Some(rest) = l.strip_prefix("Max open files") {
            let w: Vec<&str> = rest.split_whitespace().collect();
            if w.len() >= 2 {
                let (soft, hard) = (lim(w[0]), lim(w[1]));
                return if soft >= NOFILE_WANTED { soft } else { hard.min(NOFILE_WANTED) };
            }
        }
    }
    1024
}

/// Connections one scenario may hold open (two descriptors each; 256 kept for the process, the listener, the
/// probe and the wake-up connection, stdio, tokio's driver).
fn max_connections() -> usize {
    (fd_budget().saturating_sub(256) / 2).min(1 << 20) as usize
}

fn spawn_child(exe: &std::path::Path) -> std::io::Result<std::process::Child> {
    use std::process::{Command, Stdio};
    let script = format!(
        "s=$(ulimit -S -n); h=$(ulimit -H -n); w={}\n\
         if [ \"$s\" != unlimited ] && [ \"$s\" -lt $w ]; then\n\
           if [ \"$h\" = unlimited ] || [ \"$h\" -ge $w ]; then ulimit -S -n $w; else ulimit -S -n \"$h\"; fi\n\
         fi 2>/dev/null\n\
         exec \"$0\" __c20child",
        NOFILE_WANTED
    );
    let io = |c: &mut Command| {
        c.stdin(Stdio::piped()).stdout(Stdio::piped()).stderr(Stdio::null()).spawn()
    };
    match io(Command::new("sh").arg("-c").arg(&script).arg(exe)) {
        Ok(c) => Ok(c),
        // no `sh`: the child keeps this process's limits
        Err(_) => io(Command::new(exe).arg("__c20child")),
    }
}

/// Run the scenarios in child processes of `exe`; a child that ends early (wedge, threads left behind) is
/// replaced and the batch continues.
fn run_batch(exe: &std::path::Path, jobs: &[String]) -> Vec<Row> {
    use std::io::BufRead;
    let mut res = Vec::new();
    let mut next = 0;
    while next < jobs.len() {
        let mut ch = match spawn_child(exe) {
            Ok(c) => c,
            Err(_) => {
                for j in &jobs[next..] {
                    res.push(vec![j.clone(), String::new(), String::new(), String::new(), String::new(), "NO-CHILD".into(), "0".into()]);
                }
                return res;
            }
        };
        // the scenario texts of the large states do not fit into a pipe buffer: fed from a thread of their own
        let feeder = {
            let mut si = ch.stdin.take().unwrap();
            let mut text = String::new();
            for j in &jobs[next..(next + 200).min(jobs.len())] {
                text += j;
                text.push('\n');
            }
            std::thread::spawn(move || {
                let _ = si.write_all(text.as_bytes());
            })
        };
        let so = ch.stdout.take().unwrap();
        let mut got = 0;
        for line in std::io::BufReader::new(so).lines() {
            let line = match line {
                Ok(l) => l,
                Err(_) => break,
            };
            let f: Vec<String> = line.split('\t').map(|x| x.to_string()).collect();
            if f.len() != 7 {
                continue;
            }
            res.push(f);
            got += 1;
        }
        let _ = ch.wait();
        let _ = feeder.join();
        if got == 0 {
            res.push(vec![jobs[next].clone(), String::new(), String::new(), String::new(), String::new(), "CHILD-DIED".into(), "0".into()]);
            got = 1;
        }
        next += got;
    }
    res
}

fn tokio_exe() -> Option<std::path::PathBuf> {
    let me = std::env::current_exe().ok()?;
    // <verif>/harness/target/release/hv -> <verif>/harness-tokio/target/release/hvt
    let verif = me.parent()?.parent()?.parent()?.parent()?;
    let p = verif.join("harness-tokio").join("target").join("release").join("hvt");
    if p.exists() { Some(p) } else { None }
}

fn exe_for(scn: &str) -> Option<std::path::PathBuf> {
    if scn.starts_with('k') { tokio_exe() } else { std::env::current_exe().ok() }
}

pub fn exec(f: &[String]) -> Option<String> {
    match (f[0].as_str(), f.len()) {
        ("shutdown", 6) => {
            let exe = exe_for(&f[1])?;
            let r = run_batch(&exe, &[f[1].clone()]);
            r.first().map(|x| x[5].clone())
        }
        _ => None,
    }
}

const KINDS: [char; 7] = ['J', 'K', 'H', 'S', 'L', 'W', 'O'];
/// states that keep a worker for as long as the client keeps the connection (no connection timeout)
const HOLDERS: [char; 4] = ['J', 'H', 'O', 'K'];

/// Kinds of a large state: `threads` holders, then `queued` further connections: silent, idle keep-alive or
/// half-sent ones with a few complete requests (`S` x3, `W` x1) at seed-chosen places among them.
fn large_kinds(threads: usize, queued: usize, rng: &mut Rng) -> String {
    let mut v: Vec<char> = (0..threads).map(|_| *rng.pick(&HOLDERS)).collect();
    let fill = *rng.pick(&['J', 'J', 'K', 'H']);
    let mut q: Vec<char> = (0..queued).map(|_| if rng.chance(1, 8) { *rng.pick(&['J', 'K', 'H']) } else { fill }).collect();
    if queued >= 8 {
        for k in ['S', 'S', 'S', 'W'] {
            let at = rng.below(queued as u64) as usize;
            q[at] = k;
        }
        // two pipelined connections (2..5 requests, any first handler) somewhere in the queue
        for _ in 0..2 {
            let at = rng.below(queued as u64) as usize;
            q[at] = pipe_kind(rng.below(3) as usize, rng.below(4) as usize);
        }
        // the last one queued is a complete request: it is answered although everything else is in front of it
        q[queued - 1] = 'S';
    }
    v.extend(q);
    v.into_iter().collect()
}

fn scenarios(thorough: bool, seed: u64, rt: char) -> Vec<String> {
    let mut rng = Rng::new(seed ^ 0xC20 ^ (rt as u64) << 32);
    let mut v: Vec<Scn> = Vec::new();
    let ips = ["127.0.0.1", "0.0.0.0", "[::]", "[::1]"];
    let mk = |ip: &str, threads: usize, timeout_ms: u64, deny: bool, mode: char, k: usize, kinds: &str, rng: &mut Rng| Scn {
        rt,
        ip: ip.to_string(),
        threads,
        timeout_ms,
        deny,
        mode,
        k,
        kinds: kinds.chars().collect(),
        seed: rng.next(),
    };
    // fixed block: every address x every signal position with no / one / a few connections
    for ip in ips {
        v.push(mk(ip, 2, 0, false, 'A', 0, "", &mut rng));
        v.push(mk(ip, 2, 0, false, 'B', 0, "SJ", &mut rng));
        v.push(mk(ip, 2, 0, false, 'M', 1, "LS", &mut rng));
        v.push(mk(ip, 2, 0, false, 'C', 0, "SKL", &mut rng));
    }
    // every traffic state alone, with a free and with a fully occupied pool
    for k in KINDS {
        v.push(mk("127.0.0.1", 2, 0, false, 'A', 0, &k.to_string(), &mut rng));
        v.push(mk("0.0.0.0", 1, 0, false, 'A', 0, &format!("J{}", k), &mut rng));
    }
    // saturated pools: more long-running connections than threads, in-flight requests queued behind them
    v.push(mk("127.0.0.1", 1, 0, false, 'A', 0, "LLL", &mut rng));
    v.push(mk("127.0.0.1", 2, 0, false, 'A', 0, "OJLSW", &mut rng));
    v.push(mk("0.0.0.0", 3, 0, false, 'A', 0, "JKHOLSWL", &mut rng));
    v.push(mk("[::]", 8, 0, false, 'A', 0, "JKHOJKHOLSWLSWLS", &mut rng));
    v.push(mk("127.0.0.1", 2, 150, false, 'A', 0, "JKHLS", &mut rng));
    v.push(mk("127.0.0.1", 2, 0, true, 'A', 0, "SSSSLLLL", &mut rng));
    // PIPELINED connections (letters `a`..`o`, see c20_scn.rs): several complete requests written before the
    // signal, the first one short / long / gated so that the signal lands while it runs. Every kind alone ...
    for first in 0..3 {
        for idx in 0..4 {
            let k = pipe_kind(first, idx);
            v.push(mk(ips[(first + idx) % 4], 2, 0, false, 'A', 0, &k.to_string(), &mut rng));
        }
        // ... behind a connection that holds the only worker (threaded: the pipeline waits in the pool's queue
        // until `run` is back and the holder is gone) ...
        v.push(mk("127.0.0.1", 1, 0, false, 'A', 0, &format!("J{}", pipe_kind(first, [0, 1, 3][first])), &mut rng));
        // ... and a long pipeline (64 requests)
        v.push(mk("0.0.0.0", 2, 0, false, 'A', 0, &pipe_kind(first, 4).to_string(), &mut rng));
    }
    // several pipelines at once, among the other states; more of them than threads
    v.push(mk("127.0.0.1", 2, 0, false, 'A', 0, "kfa", &mut rng));
    v.push(mk("127.0.0.1", 2, 0, false, 'A', 0, "cSfKk", &mut rng));
    v.push(mk("0.0.0.0", 3, 0, false, 'A', 0, "JkKgSbLl", &mut rng));
    v.push(mk("[::]", 8, 0, false, 'A', 0, "klmnabcdfghiSW", &mut rng));
    // pipelines placed before the signal with further connections after it; placed after / concurrently with it
    // (then nothing is owed to them: whatever they get must still be whole)
    v.push(mk("127.0.0.1", 2, 0, false, 'M', 1, "kS", &mut rng));
    v.push(mk("[::1]", 2, 0, false, 'M', 2, "Slf", &mut rng));
    v.push(mk("127.0.0.1", 2, 0, false, 'C', 0, "ak", &mut rng));
    v.push(mk("0.0.0.0", 2, 0, false, 'B', 0, "kf", &mut rng));
    // with a connection timeout shorter than the first handler; with the refusing condition
    v.push(mk("127.0.0.1", 2, 150, false, 'A', 0, "lgK", &mut rng));
    v.push(mk("127.0.0.1", 2, 0, true, 'A', 0, "kaflkafl", &mut rng));
    // large states: every worker held, 200 / 1 100 / (thorough) 5 000 further connections accepted and queued
    // (tokio: spawned and idle) when the signal is sent; capped by what the descriptor limit allows
    // (a generator of its own: the seed-chosen small scenarios of a seed stay what they were)
    let mut big = Rng::new(seed ^ 0xC20_B16 ^ (rt as u64) << 32);
    let cap = max_connections();
    let mut sizes = vec![200usize, 1100];
    if thorough {
        sizes.push(5000);
    }
    let mut turn = 0;
    for queued in &sizes {
        for threads in [1usize, 2, 8] {
            let queued = (*queued).min(cap.saturating_sub(threads));
            let kinds = large_kinds(threads, queued, &mut big);
            v.push(mk(ips[turn % 4], threads, 0, false, 'Q', threads, &kinds, &mut big));
            turn += 1;
        }
    }
    if thorough {
        for _ in 0..12 {
            let threads = big.range(1, 8) as usize;
            let queued = match big.below(3) {
                0 => big.range(17, 300),
                1 => big.range(threads as u64 * 128 - 2, threads as u64 * 128 + 140),
                _ => big.range(300, 3000),
            } as usize;
            let queued = queued.min(cap.saturating_sub(threads));
            let kinds = large_kinds(threads, queued, &mut big);
            let ip = *big.pick(&ips);
            v.push(mk(ip, threads, 0, false, 'Q', threads, &kinds, &mut big));
        }
    }
    let extra = if thorough { 3000 } else if rt == 'k' { 60 } else { 160 };
    for _ in 0..extra {
        let ip = *rng.pick(&ips);
        let threads = rng.range(1, 8) as usize;
        let n = match rng.below(4) {
            0 => rng.range(0, 3),
            1 => rng.range(threads as u64, (threads as u64 + 4).min(16)),
            _ => rng.range(0, 16),
        } as usize;
        let heavy = rng.chance(1, 3);
        let kinds: String = (0..n)
            .map(|_| {
                if rng.chance(1, 5) {
                    // a pipelined connection: 2..5 requests, one in eight 64
                    let idx = if rng.chance(1, 8) { 4 } else { rng.below(4) as usize };
                    pipe_kind(rng.below(3) as usize, idx)
                } else if heavy {
                    *rng.pick(&['J', 'L', 'O', 'W', 'L'])
                } else {
                    *rng.pick(&KINDS)
                }
            })
            .collect();
        let mode = *rng.pick(&['A', 'A', 'M', 'M', 'C', 'C', 'B']);
        let k = if n == 0 { 0 } else { rng.below(n as u64 + 1) as usize };
        let timeout_ms = if rng.chance(1, 5) { 120 } else { 0 };
        let deny = rng.chance(1, 6);
        v.push(mk(ip, threads, timeout_ms, deny, mode, k, &kinds, &mut rng));
    }
    v.into_iter().map(|s| s.text()).collect()
}

pub fn gen(out: &mut Out, thorough: bool, seed: u64) {
    let mut groups: Vec<(std::path::PathBuf, Vec<String>)> = Vec::new();
    groups.push((std::env::current_exe().expect("current_exe"), scenarios(thorough, seed, 't')));
    match tokio_exe() {
        Some(p) => groups.push((p, scenarios(thorough, seed, 'k'))),
        None => {
            out.extra.insert("tokio".into(), "harness-tokio/target/release/hvt not built: tokio scenarios skipped".into());
        }
    }
    let par = std::thread::available_parallelism().map(|x| x.get()).unwrap_or(2).clamp(1, 6);
    let mut rows: Vec<Row> = Vec::new();
    let mut total = 0usize;
    for (exe, jobs) in &groups {
        total += jobs.len();
        // interleave so that every child gets a mix of slow and fast scenarios
        let mut parts: Vec<Vec<String>> = vec![Vec::new(); par];
        for (i, j) in jobs.iter().enumerate() {
            parts[i % par].push(j.clone());
        }
        std::thread::scope(|sc| {
            let hs: Vec<_> = parts.iter().map(|p| sc.spawn(move || run_batch(exe, p))).collect();
            for h in hs {
                rows.extend(h.join().unwrap_or_default());
            }
        });
    }
    rows.sort();
    let mut worst = 0u128;
    let mut worst_scn = String::new();
    for r in &rows {
        let scn = Scn::parse(&r[0]);
        let ms: u128 = r[6].parse().unwrap_or(0);
        if ms >= worst {
            worst_scn = r[0].clone();
        }
        worst = worst.max(ms);
        if let Some(s) = &scn {
            out.count(&format!("runtime={}", if s.rt == 't' { "threaded" } else { "tokio" }));
            out.count(&format!("addr={}", s.ip));
            out.count(&format!("threads={}", s.threads));
            out.count(&format!("signal={}", match s.mode { 'B' => "before_first_connection", 'M' => "between_connections", 'C' => "concurrent_with_connects", 'Q' => "after_all_placed_large_state", _ => "after_all_placed" }));
            out.count(&format!("connections={}", match s.kinds.len() { 0 => "0", 1..=4 => "1-4", 5..=8 => "5-8", 9..=16 => "9-16", 17..=255 => "17-255", 256..=1999 => "256-1999", 2000..=4999 => "2000-4999", _ => ">=5000" }));
            if s.mode == 'Q' {
                let open = s.kinds.len() - r[2].split(',').filter(|x| !x.is_empty()).count();
                out.count(&format!("large_state_open_connections_at_signal={}", match open { 0..=255 => "<256", 256..=1099 => "256-1099", 1100..=4999 => "1100-4999", _ => ">=5000" }));
            }
            for k in &s.kinds {
                match pipe_of(*k) {
                    Some((first, n)) => {
                        out.count("state=pipelined");
                        out.count(&format!("pipelined_requests={}", n));
                        out.count(&format!("pipelined_first_handler={}", ["short", "long", "gated"][first]));
                    }
                    None => out.count(&format!("state={}", k)),
                }
            }
            let codes: Vec<char> = r[5].rsplit('=').next().unwrap_or("").chars().collect();
            let must: Vec<usize> = r[3].split(',').filter_map(|x| x.parse().ok()).collect();
            for (i, k) in s.kinds.iter().enumerate() {
                if pipe_of(*k).is_some() && r[5].contains("clients=") {
                    let owed = if must.contains(&i) { "all_received_before_signal" } else { "not_owed" };
                    out.count(&format!("pipelined_{}={}", owed, match codes.get(i) {
                        Some('C') => "every_response_complete_in_order",
                        Some('M') => "SOME_RESPONSES_MISSING_connection_closed",
                        Some('P') => "TRUNCATED_or_out_of_order",
                        Some('T') => "TIMEOUT",
                        Some('Z') => "closed_without_bytes",
                        Some('R') => "connect_refused",
                        _ => "other",
                    }));
                }
            }
            let busy = s.kinds.iter().filter(|k| matches!(k, 'J' | 'K' | 'H' | 'L' | 'O' | 'W')).count();
            if s.rt == 't' && busy > s.threads {
                out.count("pool_fully_occupied");
            }
            if s.timeout_ms > 0 {
                out.count("with_connection_timeout");
            }
            if s.deny {
                out.count("with_denying_condition");
            }
        }
        out.count(&format!("return_latency={}", match ms { 0..=9 => "<10ms", 10..=99 => "<100ms", 100..=999 => "<1s", 1000..=2999 => "<3s", _ => ">=3s" }));
        if r[5] == "WEDGED" {
            out.count("WEDGED");
        }
        if r[5].contains("clients=") {
            let codes = r[5].rsplit('=').next().unwrap_or("");
            for c in codes.chars() {
                match c {
                    'C' => out.count("inflight_response_complete"),
                    'Z' => out.count("inflight_connection_closed_without_bytes"),
                    'P' => out.count("inflight_response_TRUNCATED"),
                    'M' => out.count("inflight_pipelined_responses_MISSING"),
                    'T' => out.count("inflight_response_TIMEOUT"),
                    'R' => out.count("connect_refused_after_shutdown"),
                    _ => {}
                }
            }
        }
        if !r[3].is_empty() {
            out.count("scenarios_with_requests_dispatched_before_signal");
        }
        let nontrivial = scn.map(|s| !s.kinds.is_empty()).unwrap_or(false);
        out.case(&["shutdown", &r[0], &r[1], &r[2], &r[3], &r[4]], &r[5], nontrivial);
        // the evidence keeps a few sample lines: not the megabyte of a large state
        if let Some(last) = out.samples.last_mut() {
            if last.len() > 1500 {
                let mut cut = 1500;
                while !last.is_char_boundary(cut) {
                    cut -= 1;
                }
                last.truncate(cut);
                last.push_str(" …(cut)");
            }
        }
    }
    out.extra.insert("scenarios".into(), format!("{} planned, {} run", total, rows.len()));
    out.extra.insert(
        "descriptor_limit".into(),
        format!("children run with a soft limit of {} open files: at most {} connections per scenario", fd_budget(), max_connections()),
    );
    out.extra.insert("slowest_return_after_signal_ms".into(), format!("{} ({})", worst, worst_scn));
}
