//! Shared plumbing: PRNG, hex, case writer, statistics.
use std::collections::{BTreeMap, HashSet};
use std::hash::{Hash, Hasher};
use std::io::Write;

#[derive(Clone)]
pub struct Rng(pub u64);
impl Rng {
    pub fn new(seed: u64) -> Self {
        Rng(seed.wrapping_mul(0x9E3779B97F4A7C15) ^ 0xD1B54A32D192ED03)
    }
    pub fn next(&mut self) -> u64 {
        self.0 = self.0.wrapping_add(0x9E3779B97F4A7C15);
        let mut z = self.0;
        z = (z ^ (z >> 30)).wrapping_mul(0xBF58476D1CE4E5B9);
        z = (z ^ (z >> 27)).wrapping_mul(0x94D049BB133111EB);
        z ^ (z >> 31)
    }
    pub fn below(&mut self, n: u64) -> u64 {
        if n == 0 { 0 } else { self.next() % n }
    }
    pub fn range(&mut self, lo: u64, hi: u64) -> u64 {
        lo + self.below(hi - lo + 1)
    }
    pub fn chance(&mut self, num: u64, den: u64) -> bool {
        self.below(den) < num
    }
    pub fn pick<'a, T>(&mut self, xs: &'a [T]) -> &'a T {
        &xs[self.below(xs.len() as u64) as usize]
    }
    pub fn bytes(&mut self, n: usize) -> Vec<u8> {
        let mut v = Vec::with_capacity(n);
        while v.len() < n {
            let x = self.next().to_le_bytes();
            let k = (n - v.len()).min(8);
            v.extend_from_slice(&x[..k]);
        }
        v
    }
}

pub fn hex(b: &[u8]) -> String {
    const H: &[u8; 16] = b"0123456789abcdef";
    let mut s = String::with_capacity(b.len() * 2);
    for x in b {
        s.push(H[(x >> 4) as usize] as char);
        s.push(H[(x & 15) as usize] as char);
    }
    s
}

pub fn unhex(s: &str) -> Vec<u8> {
    let b = s.as_bytes();
    let v = |c: u8| -> u8 {
        match c {
            b'0'..=b'9' => c - b'0',
            b'a'..=b'f' => c - b'a' + 10,
            b'A'..=b'F' => c - b'A' + 10,
            _ => 0,
        }
    };
    b.chunks(2).filter(|c| c.len() == 2).map(|c| v(c[0]) << 4 | v(c[1])).collect()
}

pub struct Out {
    w: std::io::BufWriter<std::fs::File>,
    pub evaluations: u64,
    seen: HashSet<u64>,
    pub nontrivial: u64,
    pub hist: BTreeMap<String, u64>,
    pub samples: Vec<String>,
    pub extra: BTreeMap<String, String>,
    sample_every: u64,
}

impl Out {
    pub fn new(path: &str) -> Self {
        Out {
            w: std::io::BufWriter::with_capacity(1 << 20, std::fs::File::create(path).expect("create cases file")),
            evaluations: 0,
            seen: HashSet::new(),
            nontrivial: 0,
            hist: BTreeMap::new(),
            samples: Vec::new(),
            extra: BTreeMap::new(),
            sample_every: 1,
        }
    }
    /// Emit one case. `fields` = function name and arguments, `impl_out` = what the real code returned.
    /// `nontrivial` = this case is non-trivial by the property's rule (distinctness is measured here).
    pub fn case(&mut self, fields: &[&str], impl_out: &str, nontrivial: bool) {
        let line = fields.join("\t");
        self.evaluations += 1;
        if nontrivial {
            let mut h = std::collections::hash_map::DefaultHasher::new();
            line.hash(&mut h);
            if self.seen.insert(h.finish()) {
                self.nontrivial += 1;
            }
        }
        if self.evaluations % self.sample_every == 0 && self.samples.len() < 12 {
            self.samples.push(format!("{} => {}", line.replace('\t', " "), impl_out));
            self.sample_every *= 7;
        }
        self.w.write_all(line.as_bytes()).unwrap();
        self.w.write_all(b"\t").unwrap();
        self.w.write_all(impl_out.as_bytes()).unwrap();
        self.w.write_all(b"\n").unwrap();
    }
    pub fn count(&mut self, key: &str) {
        *self.hist.entry(key.to_string()).or_insert(0) += 1;
    }
    pub fn finish(mut self, stats_path: &str) {
        self.w.flush().unwrap();
        let esc = |s: &str| -> String {
            let mut o = String::new();
            for c in s.chars() {
                match c {
                    '"' => o.push_str("\\\""),
                    '\\' => o.push_str("\\\\"),
                    '\n' => o.push_str("\\n"),
                    '\t' => o.push_str("\\t"),
                    '\r' => o.push_str("\\r"),
                    c if (c as u32) < 0x20 => o.push_str(&format!("\\u{:04x}", c as u32)),
                    c => o.push(c),
                }
            }
            o
        };
        let mut s = String::from("{");
        s += &format!("\"evaluations\":{},\"distinct_nontrivial\":{},", self.evaluations, self.nontrivial);
        s += "\"hist\":{";
        s += &self.hist.iter().map(|(k, v)| format!("\"{}\":{}", esc(k), v)).collect::<Vec<_>>().join(",");
        s += "},\"extra\":{";
        s += &self.extra.iter().map(|(k, v)| format!("\"{}\":\"{}\"", esc(k), esc(v))).collect::<Vec<_>>().join(",");
        s += "},\"samples\":[";
        s += &self.samples.iter().map(|x| format!("\"{}\"", esc(x))).collect::<Vec<_>>().join(",");
        s += "]}";
        std::fs::write(stats_path, s).unwrap();
    }
}

/// Run `f`, mapping a panic to `Err(message)`.
pub fn guarded<T>(f: impl FnOnce() -> T) -> Result<T, String> {
    match std::panic::catch_unwind(std::panic::AssertUnwindSafe(f)) {
        Ok(v) => Ok(v),
        Err(e) => Err(if let Some(s) = e.downcast_ref::<String>() {
            s.clone()
        } else if let Some(s) = e.downcast_ref::<&str>() {
            s.to_string()
        } else {
            "panic".into()
        }),
    }
}
