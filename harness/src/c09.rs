//! C09: `proxy_request` / `proxy_handler` against scripted loopback upstreams; `LoadBalancer::select_target`.
use crate::c02::hxl;
use crate::c07::canon_response;
use crate::common::*;
use crate::httpgen::*;
use humphrey::http::proxy::proxy_request;
use humphrey::http::Request;
use humphrey_server::config::{BlacklistConfig, BlacklistMode, CacheConfig, Config, LoadBalancerMode, LoggingConfig};
use humphrey_server::logger::LogLevel;
use humphrey_server::proxy::{proxy_handler, EqMutex, LoadBalancer};
use humphrey_server::rand::Lcg;
use humphrey_server::server::server::AppState;
use std::io::{Read, Write};
use std::net::{SocketAddr, TcpListener};
use std::sync::Arc;
use std::time::{Duration, Instant};

const TIMEOUT_MS: u64 = 500;
const SLACK_MS: u64 = 300;

/// Upstream script: `r` refuse; otherwise segments `d<hex>` sent in order, `p<ms>` pauses, ending `e` (close)
/// or `s` (stay silent with the connection open until the proxy gives up).
fn run_upstream(l: TcpListener, script: Vec<String>) -> std::sync::mpsc::Receiver<Vec<u8>> {
    let (tx, rx) = std::sync::mpsc::channel();
    std::thread::spawn(move || {
        let mut received = Vec::new();
        l.set_nonblocking(false).ok();
        if let Ok((mut s, _)) = l.accept() {
            s.set_read_timeout(Some(Duration::from_millis(200))).ok();
            s.set_nodelay(true).ok();
            // read the forwarded request (until the blank line and the announced body)
            let mut buf = [0u8; 4096];
            loop {
                match s.read(&mut buf) {
                    Ok(0) | Err(_) => break,
                    Ok(n) => {
                        received.extend_from_slice(&buf[..n]);
                        if let Some(p) = received.windows(4).position(|w| w == b"\r\n\r\n") {
                            let head = String::from_utf8_lossy(&received[..p]).to_ascii_lowercase();
                            let cl = head.split("\r\n").filter_map(|l| l.strip_prefix("content-length:")).next()
                                .and_then(|v| v.trim().parse::<usize>().ok()).unwrap_or(0);
                            if received.len() >= p + 4 + cl { break; }
                        }
                    }
                }
            }
            let _ = tx.send(received.clone());
            for step in &script {
                if let Some(h) = step.strip_prefix('d') {
                    if s.write_all(&unhex(h)).is_err() { break; }
                    let _ = s.flush();
                } else if let Some(ms) = step.strip_prefix('p') {
                    std::thread::sleep(Duration::from_millis(ms.parse().unwrap_or(0)));
                } else if step == "s" {
                    // stay silent: keep the socket open well past the proxy's deadline
                    std::thread::sleep(Duration::from_millis(TIMEOUT_MS + SLACK_MS + 900));
                } else if step == "e" {
                    break;
                }
            }
        } else {
            let _ = tx.send(received);
        }
    });
    rx
}

fn parse_request(bytes: &[u8], peer: SocketAddr) -> Option<Request> {
    let mut r = Chunked::new(vec![bytes.to_vec()]);
    Request::from_stream(&mut r, peer).ok()
}

fn quiet_state() -> Arc<AppState> {
    Arc::new(AppState::from(Config {
        cache: CacheConfig { size_limit: 0, time_limit: 0 },
        logging: LoggingConfig { level: LogLevel::Error, console: false, file: None },
        ..Config::default()
    }))
}

/// `proxy <hex client request> <peer ip|port> <ip oracle> <script> <route pattern hex or ->`
///   → `<canon response> | <hxl bytes received upstream> | <time ok|SLOW:ms>`
pub fn exec(f: &[String]) -> Option<String> {
    match (f[0].as_str(), f.len()) {
        ("proxy", 6) => {
            let (ip, port) = f[2].split_once('|')?;
            let peer = SocketAddr::new(ip.parse().ok()?, port.parse().ok()?);
            let req = parse_request(&unhex(&f[1]), peer)?;
            let script: Vec<String> = f[4].split(',').map(|s| s.to_string()).collect();
            let refuse = script.first().map(|s| s == "r").unwrap_or(false);
            let l = TcpListener::bind("127.0.0.1:0").ok()?;
            let addr = l.local_addr().ok()?;
            let up = if refuse { drop(l); None } else { Some(run_upstream(l, script)) };
            let t0 = Instant::now();
            let pattern = if f[5] == "-" { None } else { Some(String::from_utf8(unhex(&f[5])).ok()?) };
            let resp = guarded(move || match pattern {
                None => proxy_request(&req, addr, Duration::from_millis(TIMEOUT_MS)),
                Some(p) => {
                    let lb = EqMutex::new(LoadBalancer {
                        targets: vec![addr.to_string()],
                        mode: LoadBalancerMode::RoundRobin,
                        index: 0,
                        lcg: Lcg::new(),
                    });
                    proxy_handler(req, quiet_state(), &lb, &p)
                }
            });
            let ms = t0.elapsed().as_millis() as u64;
            let received = match up { Some(rx) => rx.recv_timeout(Duration::from_millis(1500)).unwrap_or_default(), None => Vec::new() };
            let r = match &resp { Ok(r) => canon_response(r), Err(_) => "PANIC".into() };
            // proxy_handler uses a fixed 5 s timeout; proxy_request the 300 ms given here
            let limit = if f[5] == "-" { TIMEOUT_MS + SLACK_MS } else { 5000 + SLACK_MS };
            Some(format!("{} | {} | {}", r, hxl(&received), if ms <= limit { "time-ok".to_string() } else { format!("SLOW:{}", ms) }))
        }
        // rot <ntargets> <mode b|f> <sequence of a|b> : requests through the server's proxy_handler, one after the other, with a
        // round-robin balancer over <ntargets> live upstreams and a blacklist; `a` = from an address that is not listed,
        // `b` = from a listed one. Output: per request `<status>:<index of the upstream that served it or ->`.
        ("rot", 4) => {
            let n: usize = f[1].parse().ok()?;
            let mode = if f[2] == "f" { BlacklistMode::Forbidden } else { BlacklistMode::Block };
            let mut addrs = Vec::new();
            let stop = Arc::new(std::sync::atomic::AtomicBool::new(false));
            let mut hs = Vec::new();
            for i in 0..n {
                let l = TcpListener::bind("127.0.0.1:0").ok()?;
                addrs.push(l.local_addr().ok()?.to_string());
                l.set_nonblocking(true).ok();
                let stop = stop.clone();
                hs.push(std::thread::spawn(move || {
                    while !stop.load(std::sync::atomic::Ordering::SeqCst) {
                        match l.accept() {
                            Ok((mut s, _)) => {
                                s.set_nonblocking(false).ok();
                                s.set_read_timeout(Some(Duration::from_millis(200))).ok();
                                let mut buf = [0u8; 4096];
                                let mut got = Vec::new();
                                while !got.windows(4).any(|w| w == b"\r\n\r\n") {
                                    match s.read(&mut buf) { Ok(0) | Err(_) => break, Ok(k) => got.extend_from_slice(&buf[..k]) }
                                }
                                let body = format!("up{}", i);
                                let _ = s.write_all(format!("HTTP/1.1 200 OK\r\nContent-Length: {}\r\n\r\n{}", body.len(), body).as_bytes());
                            }
                            Err(_) => std::thread::sleep(Duration::from_millis(1)),
                        }
                    }
                }));
            }
            let state = Arc::new(AppState::from(Config {
                cache: CacheConfig { size_limit: 0, time_limit: 0 },
                logging: LoggingConfig { level: LogLevel::Error, console: false, file: None },
                blacklist: BlacklistConfig { list: vec!["10.0.0.9".parse().unwrap()], mode },
                ..Config::default()
            }));
            let lb = EqMutex::new(LoadBalancer { targets: addrs, mode: LoadBalancerMode::RoundRobin, index: 0, lcg: Lcg::new() });
            let mut res = Vec::new();
            for c in f[3].chars() {
                let peer: SocketAddr = if c == 'b' { "10.0.0.9:40000".parse().unwrap() } else { "127.0.0.1:40000".parse().unwrap() };
                let req = parse_request(b"GET /api/x HTTP/1.1\r\nHost: h\r\n\r\n", peer)?;
                let st = state.clone();
                let r = guarded(|| proxy_handler(req, st, &lb, "/api/*"));
                res.push(match r {
                    Err(_) => "PANIC".to_string(),
                    Ok(resp) => {
                        let code: u16 = resp.status_code.into();
                        let body = String::from_utf8_lossy(&resp.body).to_string();
                        format!("{}:{}", code, body.strip_prefix("up").filter(|x| x.chars().all(|c| c.is_ascii_digit()) && !x.is_empty()).unwrap_or("-"))
                    }
                });
            }
            stop.store(true, std::sync::atomic::Ordering::SeqCst);
            for h in hs { let _ = h.join(); }
            Some(res.join(","))
        }
        // lb <mode r|x> <ntargets> <threads> <picks per thread> <lcg seed> → the picks (in lock order for 1 thread; sorted counts otherwise)
        ("lb", 6) => {
            let n: usize = f[2].parse().ok()?;
            let threads: usize = f[3].parse().ok()?;
            let picks: usize = f[4].parse().ok()?;
            let seed: usize = f[5].parse().ok()?;
            let lb = Arc::new(EqMutex::new(LoadBalancer {
                targets: (0..n).map(|i| format!("t{}", i)).collect(),
                mode: if f[1] == "r" { LoadBalancerMode::RoundRobin } else { LoadBalancerMode::Random },
                index: 0,
                lcg: Lcg::with_parameters(2usize.pow(31) - 1, 1103515245, 12345, seed),
            }));
            let log = Arc::new(std::sync::Mutex::new(Vec::new()));
            let mut hs = Vec::new();
            for _ in 0..threads {
                let lb = lb.clone();
                let log = log.clone();
                hs.push(std::thread::spawn(move || {
                    for _ in 0..picks {
                        let mut g = lb.lock().unwrap();
                        let t = g.select_target();
                        log.lock().unwrap().push(t); // logged while the balancer's lock is held: a linearisation
                        drop(g);
                    }
                }));
            }
            for h in hs { let _ = h.join(); }
            let v = log.lock().unwrap().clone();
            Some(v.join(","))
        }
        _ => None,
    }
}

fn resp_bytes(rng: &mut Rng, code: u16, framing: u8, body: &[u8]) -> Vec<u8> {
    let mut out = format!("HTTP/1.{} {} X\r\nServer: up\r\nX-A: {}\r\n", rng.below(2), code, rng.below(100)).into_bytes();
    match framing {
        0 => { out.extend(format!("Content-Length: {}\r\n\r\n", body.len()).as_bytes()); out.extend(body); }
        1 => {
            out.extend(b"Transfer-Encoding: chunked\r\n\r\n");
            let mut pos = 0;
            while pos < body.len() {
                let n = (rng.range(1, 7) as usize).min(body.len() - pos);
                out.extend(format!("{:x}\r\n", n).as_bytes());
                out.extend(&body[pos..pos + n]);
                out.extend(b"\r\n");
                pos += n;
            }
            out.extend(b"0\r\n\r\n");
        }
        _ => { out.extend(b"\r\n"); out.extend(body); } // close-delimited
    }
    out
}

pub fn gen(out: &mut Out, thorough: bool, seed: u64) {
    let mut rng = Rng::new(seed ^ 0xC09);
    let mut cases: Vec<Vec<String>> = Vec::new();
    let peer = "127.0.0.1|40000";
    let client_reqs: Vec<Vec<u8>> = vec![
        b"GET /api/x?y=1 HTTP/1.1\r\nHost: h\r\n\r\n".to_vec(),
        b"POST /api/submit HTTP/1.1\r\nHost: h\r\nContent-Length: 5\r\nX-Forwarded-For: 9.9.9.9\r\n\r\nhello".to_vec(),
        b"DELETE /api HTTP/1.0\r\nCookie: a=b\r\nVia: x\r\nVia: y\r\n\r\n".to_vec(),
    ];
    let mut add = |cases: &mut Vec<Vec<String>>, req: &[u8], script: Vec<String>, pat: &str| {
        cases.push(vec!["proxy".into(), hex(req), peer.into(), ip_oracle(req), script.join(","), if pat == "-" { "-".into() } else { hex(pat.as_bytes()) }]);
    };
    let codes: &[u16] = &[200, 201, 204, 301, 304, 404, 500, 503, 100];
    // valid responses: every framing, whole / segmented / trickled
    for code in codes {
        for framing in 0..3u8 {
            let blen = if *code == 204 || *code == 304 || *code == 100 { 0 } else { rng.range(0, 40) as usize };
            let body = rng.bytes(blen);
            let bytes = resp_bytes(&mut rng, *code, framing, &body);
            let req = rng.pick(&client_reqs).clone();
            add(&mut cases, &req, vec![format!("d{}", hex(&bytes)), "e".into()], "-");
            // two segments with a short pause
            let cut = rng.range(1, bytes.len() as u64 - 1) as usize;
            add(&mut cases, &req, vec![format!("d{}", hex(&bytes[..cut])), "p20".into(), format!("d{}", hex(&bytes[cut..])), "e".into()], "-");
            // complete response, then the upstream keeps the connection open (self-delimiting framings must still be answered)
            if framing < 2 {
                add(&mut cases, &req, vec![format!("d{}", hex(&bytes)), "s".into()], "-");
            }
        }
    }
    // EMPTY bodies with explicit framing (`Content-Length: 0`, a chunked body of no chunks) on statuses that may carry content,
    // after which the upstream keeps the connection open: the message is complete, the answer is due at once
    for code in [200u16, 301, 404, 500] {
        for framing in 0..2u8 {
            let bytes = resp_bytes(&mut rng, code, framing, b"");
            let req = rng.pick(&client_reqs).clone();
            add(&mut cases, &req, vec![format!("d{}", hex(&bytes)), "s".into()], "-");
            add(&mut cases, &req, vec![format!("d{}", hex(&bytes)), "e".into()], "-");
        }
    }
    // each valid response cut at byte offsets (every offset for a few, sampled otherwise), then closed or stalled
    let cut_rounds = if thorough { 40 } else { 4 };
    for _ in 0..cut_rounds {
        for framing in 0..3u8 {
            let blen = rng.range(1, 12) as usize;
            let body = rng.bytes(blen);
            let bytes = resp_bytes(&mut rng, 200, framing, &body);
            let req = rng.pick(&client_reqs).clone();
            for cut in 0..bytes.len() {
                if !thorough && cut % 3 != 0 && cut + 4 < bytes.len() { continue; }
                add(&mut cases, &req, vec![format!("d{}", hex(&bytes[..cut])), "e".into()], "-");
            }
            let cut = rng.range(0, bytes.len() as u64 - 1) as usize;
            add(&mut cases, &req, vec![format!("d{}", hex(&bytes[..cut])), "s".into()], "-");
        }
    }
    // silence, then part of a response late (but inside the budget), then silence again: the answer is still due
    // at the deadline, not one full timeout after the last byte
    for framing in 0..2u8 {
        let bytes = resp_bytes(&mut rng, 200, framing, b"0123456789abcdef");
        let cut = bytes.len() - 5;
        add(&mut cases, &client_reqs[0], vec!["p400".into(), format!("d{}", hex(&bytes[..cut])), "s".into()], "-");
        add(&mut cases, &client_reqs[1], vec!["p200".into(), format!("d{}", hex(&bytes[..10])), "p200".into(), format!("d{}", hex(&bytes[10..cut])), "s".into()], "-");
    }
    // garbage, header-malformed, refused, accept-then-silence, accept-then-close, trickle
    for g in [&b"garbage\r\n\r\n"[..], b"HTTP/1.1 abc OK\r\n\r\n", b"HTTP/1.1 200 OK\r\nNoColon\r\n\r\n", b"HTTP/1.1 999 X\r\n\r\n", b"\xff\xfe\r\n", b"HTTP/1.1 200 OK\r\nContent-Length: zz\r\n\r\n", b"HTTP/1.1 200 OK\r\nTransfer-Encoding: chunked\r\n\r\nzz\r\n"] {
        add(&mut cases, &client_reqs[0], vec![format!("d{}", hex(g)), "e".into()], "-");
    }
    for _ in 0..3 {
        add(&mut cases, &client_reqs[0], vec!["r".into()], "-");
        add(&mut cases, &client_reqs[1], vec!["s".into()], "-");
        add(&mut cases, &client_reqs[2], vec!["e".into()], "-");
    }
    // one byte per 50 ms: a 60-byte response takes 3 s, far beyond the 300 ms budget
    let slow = resp_bytes(&mut rng, 200, 0, b"0123456789");
    let mut script = Vec::new();
    for b in &slow { script.push(format!("d{:02x}", b)); script.push("p50".into()); }
    script.push("e".into());
    add(&mut cases, &client_reqs[0], script, "-");
    // through the server's proxy_handler: prefix stripping (route patterns with and without wildcard)
    for (pat, target) in [("/api/*", "/api/x?y=1"), ("/api*", "/api"), ("/*", "/api/submit"), ("/api/submit", "/api/submit"),
                          // prefixes whose length in characters and in bytes differ, as raw UTF-8 in the request target
                          ("/\u{65e5}\u{672c}/*", "/\u{65e5}\u{672c}/index.html"), ("/\u{e9}quip\u{e9}/*", "/\u{e9}quip\u{e9}/a"),
                          ("/caf\u{e9}/*", "/caf\u{e9}/x"), ("/\u{1f600}*", "/\u{1f600}/y?z"), ("/\u{e9}*", "/\u{e9}"),
                          // the wildcard in the middle / doubled / absent, a target exactly as long as the prefix
                          ("/a/*/c", "/a/b/c"), ("/a**", "/a/b"), ("/long/prefix/*", "/long/prefix/"), ("*", "/x")] {
        let req = format!("GET {} HTTP/1.1\r\nHost: h\r\n\r\n", target).into_bytes();
        let bytes = resp_bytes(&mut rng, 200, 0, b"ok");
        add(&mut cases, &req, vec![format!("d{}", hex(&bytes)), "e".into()], pat);
        add(&mut cases, &req, vec!["r".into()], pat);
    }
    // run the socket cases on parallel threads
    let nthreads = 16;
    let chunk = (cases.len() + nthreads - 1) / nthreads;
    let mut handles = Vec::new();
    for part in cases.chunks(chunk.max(1)) {
        let part: Vec<Vec<String>> = part.to_vec();
        handles.push(std::thread::spawn(move || part.iter().map(|c| exec(c).unwrap_or_else(|| "UNSUPPORTED".into())).collect::<Vec<_>>()));
    }
    let mut results = Vec::new();
    for h in handles { results.extend(h.join().unwrap()); }
    for (c, r) in cases.iter().zip(results.iter()) {
        let code = r.split(' ').nth(2).unwrap_or("?");
        out.count(&format!("proxy:status={}", code));
        if r.contains("SLOW") { out.count("proxy:slow"); }
        let fr: Vec<&str> = c.iter().map(|s| s.as_str()).collect();
        out.case(&fr, r, true);
    }
    // rotation through the real handler, with refused (blacklisted) requests in between: they take no turn
    {
        let mut rng2 = Rng::new(seed ^ 0x907);
        let mut seqs: Vec<(usize, &str, String)> = Vec::new();
        for n in 1..=4usize {
            for mode in ["b", "f"] {
                for s in ["aaaa", "abab", "baab", "aabbaa", "bbbb", "abbbba", "ababababab"] { seqs.push((n, mode, s.to_string())); }
                for _ in 0..(if thorough { 30 } else { 4 }) {
                    let len = rng2.range(1, 14) as usize;
                    seqs.push((n, mode, (0..len).map(|_| if rng2.chance(1, 3) { 'b' } else { 'a' }).collect()));
                }
            }
        }
        for (n, mode, s) in seqs {
            let f = vec!["rot".to_string(), n.to_string(), mode.to_string(), s.clone()];
            let r = exec(&f).unwrap_or_else(|| "UNSUPPORTED".into());
            out.count(&format!("rot:targets={}", n));
            let fr: Vec<&str> = f.iter().map(|x| x.as_str()).collect();
            out.case(&fr, &r, n >= 2 && s.contains('b'));
        }
    }
    // load balancer
    for mode in ["r", "x"] {
        for n in 1..=4 {
            for threads in [1usize, 2, 4, 8] {
                let f = vec!["lb".to_string(), mode.into(), n.to_string(), threads.to_string(), "25".into(), format!("{}", 1_700_000_000 + rng.below(1000))];
                let r = exec(&f).unwrap();
                out.count(&format!("lb:{}:threads={}", mode, threads));
                let fr: Vec<&str> = f.iter().map(|s| s.as_str()).collect();
                out.case(&fr, &r, n >= 2);
            }
        }
    }
}
