//! C07: `Vec<u8>::from(Response)`, `Response::from_stream`, Set-Cookie rendering, chunked decoding.
use crate::c02::{hx, hxl};
use crate::common::*;
use crate::httpgen::*;
use humphrey::http::cookie::{SameSite, SetCookie};
use humphrey::http::{Response, StatusCode};
use std::collections::BTreeSet;
use std::convert::TryFrom;
use std::time::Duration;

pub fn canon_response(r: &Response) -> String {
    let mut names: BTreeSet<Vec<u8>> = BTreeSet::new();
    for h in r.headers.iter() {
        names.insert(h.name.to_string().to_ascii_lowercase().into_bytes());
    }
    let hs: Vec<String> = names
        .iter()
        .map(|n| {
            let name = String::from_utf8_lossy(n).to_string();
            let vals: Vec<String> = r.headers.get_all(name.as_str()).iter().map(|v| hx(v.as_bytes())).collect();
            format!("{}={}", hx(n), vals.join(";"))
        })
        .collect();
    format!("OK {} {} H[{}] B[{}]", hx(r.version.as_bytes()), u16::from(r.status_code), hs.join(","), hxl(&r.body))
}

pub fn parse_resp_chunks(chunks: Vec<Vec<u8>>) -> String {
    match guarded(move || {
        let mut r = Chunked::new(chunks);
        Response::from_stream(&mut r).map_err(|e| format!("ERR:{:?}", e))
    }) {
        Err(_) => "PANIC".into(),
        Ok(Err(e)) => e,
        Ok(Ok(r)) => canon_response(&r),
    }
}

fn opt(s: &str) -> Option<String> {
    if s == "-" { None } else { Some(String::from_utf8(unhex(if s == "~" { "" } else { s })).ok()?) }
}

/// items: `h.<hexname>.<hexvalue>` or `c.<name>.<value>.<expires|->.<maxage|->.<domain|->.<path|->.<secure>.<httponly>.<S|L|N|->`
fn build_response(version: &str, code: u16, items: &str, body: &[u8]) -> Option<Response> {
    let status = StatusCode::try_from(code).ok()?;
    let mut r = Response::new(status, body);
    r.version = String::from_utf8(unhex(version)).ok()?;
    if items != "-" {
        for it in items.split(',') {
            let p: Vec<&str> = it.split('.').collect();
            match p[0] {
                "h" => {
                    let n = String::from_utf8(unhex(p[1])).ok()?;
                    let v = String::from_utf8(unhex(if p[2] == "~" { "" } else { p[2] })).ok()?;
                    r = r.with_header(n.as_str(), v);
                }
                "c" => {
                    let mut c = SetCookie::new(opt(p[1])?, opt(p[2])?);
                    if let Some(e) = opt(p[3]) { c = c.with_expires(e); }
                    if p[4] != "-" { c = c.with_max_age(Duration::from_secs(p[4].parse().ok()?)); }
                    if let Some(d) = opt(p[5]) { c = c.with_domain(d); }
                    if let Some(d) = opt(p[6]) { c = c.with_path(d); }
                    c = c.with_secure(p[7] == "1").with_http_only(p[8] == "1");
                    match p[9] {
                        "S" => c = c.with_same_site(SameSite::Strict),
                        "L" => c = c.with_same_site(SameSite::Lax),
                        "N" => c = c.with_same_site(SameSite::None),
                        _ => {}
                    }
                    r = r.with_cookie(c);
                }
                _ => return None,
            }
        }
    }
    Some(r)
}

/// A scripted origin server on 127.0.0.1:80 (the client's URL parser cannot express another port): answers
/// `/h<i>` with hop i of the chain, one connection per request, and records the request lines it saw.
fn serve_chain(l: std::net::TcpListener, hops: Vec<(u16, Option<String>, Vec<u8>)>, expect: usize) -> std::thread::JoinHandle<Vec<String>> {
    use std::io::{Read, Write};
    std::thread::spawn(move || {
        let mut seen = Vec::new();
        l.set_nonblocking(true).ok();
        let t0 = std::time::Instant::now();
        while seen.len() < expect && t0.elapsed() < Duration::from_millis(1500) {
            let (mut s, _) = match l.accept() {
                Ok(x) => x,
                Err(_) => { std::thread::sleep(Duration::from_micros(200)); continue; }
            };
            s.set_nonblocking(false).ok();
            s.set_read_timeout(Some(Duration::from_millis(300))).ok();
            let mut buf = Vec::new();
            let mut b = [0u8; 2048];
            while !buf.windows(4).any(|w| w == b"\r\n\r\n") {
                match s.read(&mut b) { Ok(0) | Err(_) => break, Ok(n) => buf.extend_from_slice(&b[..n]) }
            }
            let line = String::from_utf8_lossy(&buf).lines().next().unwrap_or("").to_string();
            seen.push(line.clone());
            let path = line.split(' ').nth(1).unwrap_or("");
            let idx: usize = path.trim_start_matches("/h").split(|c: char| !c.is_ascii_digit()).next().unwrap_or("").parse().unwrap_or(usize::MAX);
            let resp = match hops.get(idx) {
                Some((code, Some(loc), _)) => format!("HTTP/1.1 {} R\r\nLocation: {}\r\nContent-Length: 0\r\n\r\n", code, loc).into_bytes(),
                Some((code, None, body)) => { let mut v = format!("HTTP/1.1 {} F\r\nContent-Length: {}\r\nX-Hop: {}\r\n\r\n", code, body.len(), idx).into_bytes(); v.extend(body); v }
                None => b"HTTP/1.1 404 N\r\nContent-Length: 0\r\n\r\n".to_vec(),
            };
            let _ = s.write_all(&resp);
        }
        seen
    })
}

pub fn exec(f: &[String]) -> Option<String> {
    match (f[0].as_str(), f.len()) {
        // client <follow 0|1> <start url hex> <hops: code:lochex|-:bodyhex joined by ,>  →  `<canon final response> | <request lines seen, hex, joined by ,>`
        ("client", 4) => {
            let follow = f[1] == "1";
            let url = String::from_utf8(unhex(&f[2])).ok()?;
            let hops: Vec<(u16, Option<String>, Vec<u8>)> = f[3].split(',').filter_map(|h| {
                let p: Vec<&str> = h.split(':').collect();
                if p.len() != 3 { return None; }
                Some((p[0].parse().ok()?, if p[1] == "-" { None } else { Some(String::from_utf8(unhex(p[1])).ok()?) }, unhex(if p[2] == "~" { "" } else { p[2] })))
            }).collect();
            let l = match std::net::TcpListener::bind("127.0.0.1:80") { Ok(l) => l, Err(_) => return Some("PORT-80-UNAVAILABLE".into()) };
            let redirects = hops.iter().take_while(|h| h.1.is_some()).count();
            let expect = if follow { redirects + 1 } else { 1 };
            let server = serve_chain(l, hops, expect);
            let r = guarded(move || {
                let mut client = humphrey::Client::new();
                client.get(&url).map_err(|e| e.to_string()).and_then(|req| req.with_redirects(follow).send().map_err(|e| e.to_string()))
            });
            let seen = server.join().unwrap_or_default();
            let resp = match r { Err(_) => "PANIC".to_string(), Ok(Err(_)) => "ERR".to_string(), Ok(Ok(r)) => canon_response(&r) };
            Some(format!("{} | {}", resp, seen.iter().map(|l| hx(l.as_bytes())).collect::<Vec<_>>().join(",")))
        }
        // resp_parse <hex bytes> <cuts> <expected|->
        ("resp_parse", 4) => {
            let bytes = unhex(&f[1]);
            Some(parse_resp_chunks(apply_cuts(&bytes, &f[2])))
        }
        // resp_ser <hex version> <code> <items> <hex body>  →  `<hxl serialised> | <parse back>`
        ("resp_ser", 5) => {
            let body = unhex(if f[4] == "~" { "" } else { &f[4] });
            let r = build_response(&f[1], f[2].parse().ok()?, &f[3], &body)?;
            match guarded(move || -> Vec<u8> { r.into() }) {
                Err(_) => Some("PANIC | -".into()),
                Ok(ser) => {
                    let back = parse_resp_chunks(vec![ser.clone()]);
                    Some(format!("{} | {}", hx(&ser), back))
                }
            }
        }
        _ => None,
    }
}

pub const CODES: &[u16] = &[
    100, 101, 200, 201, 202, 203, 204, 205, 206, 300, 301, 302, 303, 304, 305, 307, 400, 401, 403, 404, 405, 406, 407,
    408, 409, 410, 411, 412, 413, 414, 415, 416, 417, 500, 501, 502, 503, 504, 505,
];
pub const PHRASES: &[&str] = &["OK", "Not Found", "Whatever You Like", "", "Switching Protocols"];
const HNAMES: &[&str] = &["Content-Type", "Server", "Date", "Set-Cookie", "X-Custom", "Via", "ETag", "Location", "Cache-Control", "x-b", "Link", "Age"];

fn rand_hvalue(rng: &mut Rng) -> String {
    const ALPH: &[&str] = &["a", "b", "Z", "0", " ", ":", ",", ";", "=", "/", "é", "€", "😀", "\"", "-", "."];
    let n0 = rng.below(16);
    // now and then a LONG field line: lengths around the usual buffer and limit sizes (4 KiB, 8 KiB, 16 KiB, 64 KiB)
    if rng.chance(1, 48) {
        let target = *rng.pick(&[4090usize, 4096, 8150, 8186, 8192, 8193, 8200, 16384, 16400, 65530, 65536, 70000]) + rng.below(8) as usize;
        let mut s = String::with_capacity(target + 8);
        while s.len() < target {
            if rng.chance(1, 64) { s.push_str(*rng.pick(ALPH)); } else { s.push('a'); }
        }
        return s.trim().to_string();
    }
    let n = n0;
    let mut s = String::new();
    for _ in 0..n {
        s.push_str(*rng.pick(ALPH));
    }
    s.trim().to_string()
}

/// All ways of cutting `body` into non-empty consecutive chunks (compositions), as lists of lengths.
fn compositions(n: usize) -> Vec<Vec<usize>> {
    if n == 0 {
        return vec![vec![]];
    }
    let mut res = Vec::new();
    for first in 1..=n {
        for mut rest in compositions(n - first) {
            let mut v = vec![first];
            v.append(&mut rest);
            res.push(v);
        }
    }
    res
}

fn render_chunked(rng: &mut Rng, body: &[u8], parts: &[usize]) -> Vec<u8> {
    let mut out = Vec::new();
    let mut pos = 0;
    for p in parts {
        let size = match rng.below(4) {
            0 => format!("{:X}", p),
            1 => format!("{:x}", p),
            2 => format!("0{:x}", p),
            _ => format!("{:x}", p),
        };
        out.extend(size.as_bytes());
        out.extend(b"\r\n");
        out.extend(&body[pos..pos + p]);
        out.extend(b"\r\n");
        pos += p;
    }
    // the last chunk, now and then followed by a trailer section (RFC 9112 7.1.2): the payload is the same either way
    out.extend(*rng.pick(&[&b"0"[..], b"0", b"0", b"00", b"000", b"00000000"]));
    out.extend(b"\r\n");
    if rng.chance(1, 6) {
        for _ in 0..rng.range(1, 3) {
            out.extend(format!("{}: {}\r\n", rng.pick(&["X-Checksum", "Expires", "x-t"]), rng.pick(&["abc", "0", "Thu, 01 Jan 1970 00:00:00 GMT"])).as_bytes());
        }
    }
    out.extend(b"\r\n");
    out
}

struct GenResp {
    version: &'static str,
    code: u16,
    phrase: String,
    headers: Vec<(String, String)>,
    body: Vec<u8>,
}

fn gen_resp(rng: &mut Rng, body: Vec<u8>) -> GenResp {
    let nh = match rng.below(6) { 0 => 0, 1..=3 => rng.range(1, 6), 4 => rng.range(6, 20), _ => rng.range(21, 40) };
    let pool_n = rng.range(1, 5) as usize;
    let pool: Vec<&str> = (0..pool_n).map(|_| *rng.pick(HNAMES)).collect();
    let headers = (0..nh).map(|_| (rng.pick(&pool).to_string(), rand_hvalue(rng))).collect();
    GenResp {
        version: if rng.chance(1, 4) { "HTTP/1.0" } else { "HTTP/1.1" },
        code: *rng.pick(CODES),
        phrase: rng.pick(PHRASES).to_string(),
        headers,
        body,
    }
}

/// framing: 0 = Content-Length, 1 = chunked with the given parts, 2 = no body headers
fn render_resp(rng: &mut Rng, g: &GenResp, framing: u8, parts: &[usize]) -> (Vec<u8>, String) {
    let mut out = Vec::new();
    out.extend(format!("{} {} {}\r\n", g.version, g.code, g.phrase).as_bytes());
    let mut all: Vec<(String, String)> = g.headers.clone();
    let pos = rng.below(all.len() as u64 + 1) as usize;
    match framing {
        0 => all.insert(pos, ("Content-Length".into(), g.body.len().to_string())),
        1 => all.insert(pos, ("Transfer-Encoding".into(), "chunked".into())),
        _ => {}
    }
    for (n, v) in &all {
        out.extend(format!("{}:{}{}\r\n", n, rng.pick(&[" ", "", "  "]), v).as_bytes());
    }
    out.extend(b"\r\n");
    match framing {
        0 => out.extend(&g.body),
        1 => out.extend(render_chunked(rng, &g.body, parts)),
        _ => {}
    }
    // denotation: chunked is reported as a plain body with its length, Transfer-Encoding removed
    let mut lines: Vec<(String, String)> = g.headers.iter().map(|(n, v)| (n.to_ascii_lowercase(), v.clone())).collect();
    // (the position of Content-Length among other names does not matter for the canonical form)
    if framing <= 1 {
        lines.push(("content-length".into(), g.body.len().to_string()));
    }
    let mut names: BTreeSet<Vec<u8>> = BTreeSet::new();
    for (n, _) in &lines {
        names.insert(n.clone().into_bytes());
    }
    let hs: Vec<String> = names
        .iter()
        .map(|n| {
            let vals: Vec<String> = lines.iter().filter(|(m, _)| m.as_bytes() == &n[..]).map(|(_, v)| hx(v.as_bytes())).collect();
            format!("{}={}", hx(n), vals.join(";"))
        })
        .collect();
    let body: &[u8] = if framing <= 1 { &g.body } else { &[] };
    let expect = format!("OK {} {} H[{}] B[{}]", hx(g.version.as_bytes()), g.code, hs.join(","), hxl(body));
    (out, expect)
}

fn emit_parse(out: &mut Out, bytes: &[u8], cuts: &str, expect: &str, tag: &str) {
    let f = vec!["resp_parse".to_string(), hex(bytes), cuts.to_string(), expect.to_string()];
    let r = exec(&f).unwrap();
    out.count(&format!("parse:{}:{}", tag, if r.starts_with("OK") { "ok" } else { &r[..r.len().min(12)] }));
    let fr: Vec<&str> = f.iter().map(|s| s.as_str()).collect();
    out.case(&fr, &r, true);
}

pub fn gen(out: &mut Out, thorough: bool, seed: u64) {
    let mut rng = Rng::new(seed ^ 0xC07);
    // (1) chunked decoding: every division of bodies up to 6 bytes into chunks, several read segmentations
    for n in 0..=6usize {
        let body: Vec<u8> = (0..n).map(|i| b"ab\r\n0z"[i]).collect();
        for parts in compositions(n) {
            let g = gen_resp(&mut rng, body.clone());
            let (bytes, expect) = render_resp(&mut rng, &g, 1, &parts);
            for cuts in ["w".to_string(), "1".to_string(), random_cuts(&mut rng, bytes.len())] {
                emit_parse(out, &bytes, &cuts, &expect, "chunked-exh");
            }
        }
    }
    out.extra.insert("chunked_exhaustive".into(), "all compositions of bodies of 0..6 bytes into chunks".into());
    // (2) every status code x framing, random headers/bodies/chunkings/segmentations
    let rounds = if thorough { 400 } else { 12 };
    for _ in 0..rounds {
        for code in CODES {
            let blen = match rng.below(8) { 0 => 0, 1..=4 => rng.range(1, 40), 5 | 6 => rng.range(40, 2000), _ => rng.range(2000, 66000) } as usize;
            let body = rng.bytes(blen);
            let mut g = gen_resp(&mut rng, body);
            g.code = *code;
            for framing in 0..3u8 {
                let mut parts = Vec::new();
                if framing == 1 {
                    let mut left = blen;
                    while left > 0 {
                        let cap = if rng.chance(1, 3) { 5 } else { 5000 };
                        let p = (rng.range(1, 1 + (left as u64).min(cap)) as usize).min(left);
                        parts.push(p);
                        left -= p;
                    }
                }
                let (bytes, expect) = render_resp(&mut rng, &g, framing, &parts);
                let tag = ["cl", "chunked", "nobody"][framing as usize];
                emit_parse(out, &bytes, "w", &expect, tag);
                emit_parse(out, &bytes, &random_cuts(&mut rng, bytes.len()), &expect, tag);
                if bytes.len() < 600 {
                    emit_parse(out, &bytes, "1", &expect, tag);
                }
            }
        }
    }
    // (3) serialisation through the public API: every status, headers, every Set-Cookie attribute combination
    let mut combo = 0u32;
    let ser_rounds = if thorough { 40 } else { 3 };
    for _ in 0..ser_rounds {
        for code in CODES {
            let mut items: Vec<String> = Vec::new();
            let nh = if rng.chance(1, 4) { rng.range(21, 45) } else { rng.below(8) };
            for _ in 0..nh {
                if rng.chance(1, 3) {
                    // cookie with the next attribute combination (2^4 optional x 2 x 2 x 4 same-site = 256 combos)
                    let c = combo % 256;
                    combo += 1;
                    let o = |bit: u32, v: &str| if c & (1 << bit) != 0 { hx(v.as_bytes()) } else { "-".to_string() };
                    items.push(format!(
                        "c.{}.{}.{}.{}.{}.{}.{}.{}.{}",
                        hx(rng.pick(&["sid", "a", "k-é"]).as_bytes()),
                        hx(rng.pick(&["v", "", "x=y", "é"]).as_bytes()),
                        o(0, "Thu, 01 Jan 2026 00:00:00 GMT"),
                        if c & 2 != 0 { rng.pick(&["0", "3600", "4294967296"]).to_string() } else { "-".into() },
                        o(2, "example.com"),
                        o(3, "/p"),
                        (c >> 4) & 1,
                        (c >> 5) & 1,
                        ["-", "S", "L", "N"][((c >> 6) & 3) as usize]
                    ));
                } else {
                    items.push(format!("h.{}.{}", hex(rng.pick(HNAMES).as_bytes()), hx(rand_hvalue(&mut rng).as_bytes())));
                }
            }
            let with_cl = rng.chance(2, 3);
            let blen = if rng.chance(1, 3) { 0 } else { rng.range(1, 300) as usize };
            let body = rng.bytes(blen);
            if with_cl {
                items.push(format!("h.{}.{}", hex(b"Content-Length"), hex(blen.to_string().as_bytes())));
            }
            let f = vec![
                "resp_ser".to_string(),
                hex(rng.pick(&["HTTP/1.1", "HTTP/1.0"]).as_bytes()),
                code.to_string(),
                if items.is_empty() { "-".into() } else { items.join(",") },
                hx(&body),
            ];
            let r = exec(&f).unwrap_or_else(|| "UNSUPPORTED".into());
            out.count(if blen == 0 { "ser:empty-body" } else if with_cl { "ser:body+cl" } else { "ser:body-no-cl" });
            let fr: Vec<&str> = f.iter().map(|s| s.as_str()).collect();
            out.case(&fr, &r, true);
        }
    }
    // (4) the client: redirect chains of length 0..5 over {301,302,307}, relative and absolute Location, followed or not
    let probe = exec(&["client".into(), "0".into(), hex(b"http://127.0.0.1/h0"), "200:-:6f6b".into()]);
    if probe.as_deref() == Some("PORT-80-UNAVAILABLE") {
        out.extra.insert("client".into(), "127.0.0.1:80 cannot be bound: redirect-following clause not exercised in this run".into());
    } else {
        let nclient = if thorough { 1500 } else { 150 };
        for i in 0..nclient {
            let n = (i % 6) as usize;
            let mut hops: Vec<String> = Vec::new();
            for k in 0..n {
                let code = *rng.pick(&[301u16, 302, 307]);
                let loc = match rng.below(4) {
                    0 => format!("/h{}", k + 1),
                    1 => format!("http://127.0.0.1/h{}", k + 1),
                    2 => format!("/h{}?step={}", k + 1, k),
                    _ => format!("http://127.0.0.1/h{}?abs={}", k + 1, k),
                };
                hops.push(format!("{}:{}:~", code, hex(loc.as_bytes())));
            }
            let blen = rng.below(20) as usize;
            let body = rng.bytes(blen);
            hops.push(format!("{}:-:{}", rng.pick(&[200u16, 404, 500, 201, 303]), hx(&body)));
            let start = if rng.chance(1, 2) { "http://127.0.0.1/h0" } else { "http://127.0.0.1/h0?q=1" };
            let follow = if rng.chance(1, 5) { "0" } else { "1" };
            let f = vec!["client".to_string(), follow.into(), hex(start.as_bytes()), hops.join(",")];
            let r = exec(&f).unwrap_or_else(|| "UNSUPPORTED".into());
            out.count(&format!("client:hops={}:follow={}", n, follow));
            let fr: Vec<&str> = f.iter().map(|s| s.as_str()).collect();
            out.case(&fr, &r, n >= 1);
        }
    }
}
