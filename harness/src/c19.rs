//! C19: blacklist enforcement of `humphrey-server`.
//!
//! In-process cases (`bl`): a configuration is written as text (with a blacklist file) and loaded by the real
//! `parse_conf` + `Config::from_tree`; a client socket bound to the chosen source address (any 127/8 address, or ::1)
//! connects to a loopback listener; the accepted stream goes through the real connection condition
//! (`verif_verify_connection`); the request bytes are written by the client and parsed from the accepted stream by the
//! real `Request::from_stream` with the stream's own `peer_addr()`; the route found in the loaded configuration is
//! dispatched exactly as `inner_request_handler` does to `file_handler` / `directory_handler` / `proxy_handler` /
//! `redirect_handler`.  The proxy route points at a loopback listener thread inside the harness that answers
//! `HTTP/1.1 200 OK\r\nContent-Length: 2\r\n\r\nok` and counts the requests it sees.
//!
//! End-to-end cases (`bl_e2e`): the real `humphrey` binary (built from the same working tree) is started from a
//! generated configuration file on a free port; clients bound to chosen sources observe bytes / end of stream.
//!
//! Line format: see `lean/HumphreyModel/Driver/C19.lean`.
use crate::c02::fnv;
use crate::common::*;
use crate::httpgen::ip_oracle;
use humphrey::http::headers::HeaderType;
use humphrey::http::mime::MimeType;
use humphrey::http::{Request, Response};
use humphrey_server::config::config::{Config, RouteType};
use humphrey_server::config::tree::parse_conf;
use humphrey_server::server::cache::VERIF_NOW;
use humphrey_server::server::proxy::proxy_handler;
use humphrey_server::server::r#static::{directory_handler, file_handler, redirect_handler};
use humphrey_server::server::server::{verif_verify_connection, AppState};
use std::io::{Read, Write};
use std::net::{IpAddr, Ipv4Addr, SocketAddr, TcpListener, TcpStream};
use std::os::unix::io::FromRawFd;
use std::str::FromStr;
use std::sync::atomic::{AtomicU64, Ordering};
use std::sync::{Arc, OnceLock};
use std::time::Duration;

// ------------------------------------------------------------------ sockets with a chosen source address

#[repr(C)]
struct SockaddrIn {
    family: u16,
    port_be: u16,
    addr: [u8; 4],
    zero: [u8; 8],
}

#[repr(C)]
struct Linger {
    onoff: i32,
    linger: i32,
}

extern "C" {
    fn socket(domain: i32, ty: i32, protocol: i32) -> i32;
    fn bind(fd: i32, addr: *const SockaddrIn, len: u32) -> i32;
    fn connect(fd: i32, addr: *const SockaddrIn, len: u32) -> i32;
    fn setsockopt(fd: i32, level: i32, name: i32, val: *const Linger, len: u32) -> i32;
    fn close(fd: i32) -> i32;
}

/// A TCP connection to `dst` whose local address is `src` (bind before connect; Linux accepts every 127/8 source).
fn connect_from_v4(src: Ipv4Addr, dst: SocketAddr) -> std::io::Result<TcpStream> {
    let dst4 = match dst {
        SocketAddr::V4(a) => a,
        _ => return Err(std::io::Error::new(std::io::ErrorKind::Other, "v4 source to v6 destination")),
    };
    unsafe {
        let fd = socket(2 /* AF_INET */, 1 | 0o2000000 /* SOCK_STREAM | SOCK_CLOEXEC */, 0);
        if fd < 0 {
            return Err(std::io::Error::last_os_error());
        }
        // closing sends RST: no TIME_WAIT entries pile up over tens of thousands of cases
        let l = Linger { onoff: 1, linger: 0 };
        setsockopt(fd, 1 /* SOL_SOCKET */, 13 /* SO_LINGER */, &l, 8);
        let sa = SockaddrIn { family: 2, port_be: 0, addr: src.octets(), zero: [0; 8] };
        if bind(fd, &sa, 16) != 0 {
            let e = std::io::Error::last_os_error();
            close(fd);
            return Err(e);
        }
        let da = SockaddrIn { family: 2, port_be: dst4.port().to_be(), addr: dst4.ip().octets(), zero: [0; 8] };
        if connect(fd, &da, 16) != 0 {
            let e = std::io::Error::last_os_error();
            close(fd);
            return Err(e);
        }
        Ok(TcpStream::from_raw_fd(fd))
    }
}

/// Connect from `peer` to the v4 or v6 loopback listener port. `::1` needs no bind (it is the only v6 loopback source).
fn connect_from(peer: IpAddr, port4: u16, port6: Option<u16>) -> std::io::Result<TcpStream> {
    match peer {
        IpAddr::V4(p) => connect_from_v4(p, SocketAddr::from(([127, 0, 0, 1], port4))),
        IpAddr::V6(p) => {
            let port = port6.ok_or_else(|| std::io::Error::new(std::io::ErrorKind::Other, "no IPv6 loopback"))?;
            TcpStream::connect(SocketAddr::new(IpAddr::V6(p), port))
        }
    }
}

// ------------------------------------------------------------------ the world behind the routes

const FILE_BODY: &[u8] = b"<html>single page</html>\n";
const A_TXT: &[u8] = b"contents of a.txt: 0123456789\n";
const INDEX_BODY: &[u8] = b"<html>index of sub</html>";
const UPSTREAM_BODY: &[u8] = b"ok";
const REDIRECT_TARGET: &str = "/new/location";
const NOT_FOUND_BODY: &[u8] = b"<h1>404 Not Found</h1>";

struct World {
    dir: String,
    l4: TcpListener,
    l6: Option<TcpListener>,
    upstream: SocketAddr,
}

static UP_HITS: AtomicU64 = AtomicU64::new(0);
static WORLD: OnceLock<World> = OnceLock::new();

fn upstream_thread(l: TcpListener) {
    for s in l.incoming() {
        let mut s = match s {
            Ok(s) => s,
            Err(_) => continue,
        };
        let _ = s.set_read_timeout(Some(Duration::from_secs(2)));
        let mut buf = Vec::new();
        let mut b = [0u8; 512];
        while !buf.windows(4).any(|w| w == b"\r\n\r\n") {
            match s.read(&mut b) {
                Ok(0) | Err(_) => break,
                Ok(n) => buf.extend_from_slice(&b[..n]),
            }
        }
        UP_HITS.fetch_add(1, Ordering::SeqCst);
        let _ = s.write_all(b"HTTP/1.1 200 OK\r\nContent-Length: 2\r\n\r\nok");
    }
}

fn world() -> &'static World {
    WORLD.get_or_init(|| {
        let dir = std::fs::canonicalize("..").expect("verif dir").join("work").join(format!("c19_{}", std::process::id()));
        let dir = dir.to_string_lossy().to_string();
        write_files(&dir);
        let l4 = TcpListener::bind("127.0.0.1:0").expect("bind v4 loopback");
        let l6 = TcpListener::bind("[::1]:0").ok();
        let up = TcpListener::bind("127.0.0.1:0").expect("bind upstream");
        let upstream = up.local_addr().unwrap();
        std::thread::spawn(move || upstream_thread(up));
        World { dir, l4, l6, upstream }
    })
}

fn write_files(dir: &str) {
    std::fs::create_dir_all(format!("{}/d/sub", dir)).expect("create work dir for C19");
    std::fs::write(format!("{}/single.html", dir), FILE_BODY).unwrap();
    std::fs::write(format!("{}/d/a.txt", dir), A_TXT).unwrap();
    std::fs::write(format!("{}/d/sub/index.html", dir), INDEX_BODY).unwrap();
}

fn cleanup() {
    if let Some(w) = WORLD.get() {
        let _ = std::fs::remove_dir_all(&w.dir);
    }
}

/// (uri, expected answer of the remainder of the handler: status, body, Location)
fn fresh_for(route: &str, uri: &str) -> Option<(u16, &'static [u8], Option<String>)> {
    Some(match (route, uri) {
        ("file", _) => (200, FILE_BODY, None),
        ("directory", "/static/a.txt") => (200, A_TXT, None),
        ("directory", "/static/sub/") => (200, INDEX_BODY, None),
        ("directory", "/static/sub") => (301, b"", Some("/static/sub/".to_string())),
        ("directory", "/static/missing") => (404, NOT_FOUND_BODY, None),
        ("proxy", _) => (200, UPSTREAM_BODY, None),
        ("redirect", _) => (301, b"", Some(REDIRECT_TARGET.to_string())),
        _ => return None,
    })
}

fn canon_parts(status: u16, body: &[u8], location: Option<&str>) -> String {
    format!("{}:{:016x}:{}", status, fnv(body), match location {
        Some(l) => hex(l.as_bytes()),
        None => "-".into(),
    })
}

fn canon_response(r: &Response) -> String {
    let code: u16 = r.status_code.into();
    canon_parts(code, &r.body, r.headers.get(HeaderType::Location))
}

fn mk_data(size: usize, fill: usize) -> Vec<u8> {
    (0..size).map(|i| ((fill + i) & 0xff) as u8).collect()
}

// ------------------------------------------------------------------ configurations

#[derive(Clone)]
struct CacheSpec {
    limit: usize,
    tl: usize,
    now: u64,
    host: usize,
    prime: Option<(u64, usize, usize)>,
}

impl CacheSpec {
    fn render(&self) -> String {
        format!("{},{},{},{},{}", self.limit, self.tl, self.now, self.host, match self.prime {
            None => "-".to_string(),
            Some((t0, size, fill)) => format!("{}:{}:{}", t0, size, fill),
        })
    }
    fn parse(s: &str) -> Option<Self> {
        let f: Vec<&str> = s.split(',').collect();
        if f.len() != 5 {
            return None;
        }
        let prime = if f[4] == "-" {
            None
        } else {
            let p: Vec<&str> = f[4].split(':').collect();
            if p.len() != 3 {
                return None;
            }
            Some((p[0].parse().ok()?, p[1].parse().ok()?, p[2].parse().ok()?))
        };
        Some(CacheSpec { limit: f[0].parse().ok()?, tl: f[1].parse().ok()?, now: f[2].parse().ok()?, host: f[3].parse().ok()?, prime })
    }
}

/// The configuration file text. The blacklist is a file of one address per line, as `load_list_file` expects.
fn conf_text(w: &World, mode: &str, list: &[String], cache: &CacheSpec, address: &str, port: u16) -> String {
    let mut h = std::collections::hash_map::DefaultHasher::new();
    std::hash::Hash::hash(&list.to_vec(), &mut h);
    let bl_path = format!("{}/bl_{:016x}.txt", w.dir, std::hash::Hasher::finish(&h));
    if !std::path::Path::new(&bl_path).exists() {
        std::fs::write(&bl_path, list.join("\n")).expect("write blacklist file");
    }
    // an empty list is expressed half of the time by leaving the file out
    let file_line = if list.is_empty() && cache.host == 1 { String::new() } else { format!("        file \"{}\"\n", bl_path) };
    format!(
        "server {{\n    address \"{}\"\n    port {}\n    threads 4\n    blacklist {{\n{}        mode \"{}\"\n    }}\n    \
         log {{\n        level \"error\"\n        console false\n    }}\n    cache {{\n        size {}\n        time {}\n    }}\n    \
         route /single {{\n        file \"{}/single.html\"\n    }}\n    route /static/* {{\n        directory \"{}/d\"\n    }}\n    \
         route /api/* {{\n        proxy \"{}\"\n    }}\n    route /old {{\n        redirect \"{}\"\n    }}\n}}\n",
        address, port, file_line, mode, cache.limit, cache.tl, w.dir, w.dir, w.upstream, REDIRECT_TARGET
    )
}

fn load_config(text: &str) -> Result<Config, String> {
    let tree = parse_conf(text, "c19.conf").map_err(|e| e.to_string())?;
    Config::from_tree(tree).map_err(|e| e.to_string())
}

fn route_type_of(route: &str) -> Option<RouteType> {
    Some(match route {
        "file" => RouteType::File,
        "directory" => RouteType::Directory,
        "proxy" => RouteType::Proxy,
        "redirect" => RouteType::Redirect,
        _ => return None,
    })
}

// ------------------------------------------------------------------ one in-process case

struct Case {
    mode: String,
    list: Vec<String>, // canonical texts
    peer: String,
    route: String,
    cache: CacheSpec,
    req: Vec<u8>,
}

fn list_field(list: &[String]) -> String {
    if list.is_empty() { "-".into() } else { list.iter().map(|a| hex(a.as_bytes())).collect::<Vec<_>>().join(";") }
}

fn uri_of(req: &[u8]) -> String {
    let line = req.split(|b| *b == b'\r').next().unwrap_or(b"");
    let s = String::from_utf8_lossy(line);
    s.split(' ').nth(1).unwrap_or("/").to_string()
}

fn fields(c: &Case, name: &str) -> Option<Vec<String>> {
    let (st, body, loc) = fresh_for(&c.route, &uri_of(&c.req))?;
    Some(vec![
        name.to_string(),
        c.mode.clone(),
        list_field(&c.list),
        c.peer.clone(),
        c.route.clone(),
        c.cache.render(),
        hex(&c.req),
        ip_oracle(&c.req),
        canon_parts(st, body, loc.as_deref()),
    ])
}

fn parse_fields(f: &[String]) -> Option<Case> {
    if f.len() != 9 {
        return None;
    }
    let list: Vec<String> = if f[2] == "-" {
        Vec::new()
    } else {
        f[2].split(';').map(|h| String::from_utf8(unhex(h))).collect::<Result<_, _>>().ok()?
    };
    Some(Case { mode: f[1].clone(), list, peer: f[3].clone(), route: f[4].clone(), cache: CacheSpec::parse(&f[5])?, req: unhex(&f[6]) })
}

/// `<admitted> <response> up=<0|1>`
fn run_inproc(c: &Case) -> String {
    let w = world();
    let config = match load_config(&conf_text(w, &c.mode, &c.list, &c.cache, "127.0.0.1", 8080)) {
        Ok(c) => c,
        Err(e) => return format!("CONFIG-ERROR:{}", e.replace([' ', '\t'], "_")),
    };
    let state = Arc::new(AppState::from(config));
    let peer = match IpAddr::from_str(&c.peer) {
        Ok(p) => p,
        Err(_) => return "BADPEER".into(),
    };
    let port4 = w.l4.local_addr().unwrap().port();
    let port6 = w.l6.as_ref().map(|l| l.local_addr().unwrap().port());
    let mut client = match connect_from(peer, port4, port6) {
        Ok(s) => s,
        Err(_) => return "NOCONNECT".into(),
    };
    let accepted = if peer.is_ipv4() { w.l4.accept() } else { w.l6.as_ref().unwrap().accept() };
    let (mut stream, _) = match accepted {
        Ok(x) => x,
        Err(_) => return "NOACCEPT".into(),
    };
    // (1) the connection condition, on the accepted socket
    let st = state.clone();
    let admitted = match guarded(|| verif_verify_connection(&mut stream, st)) {
        Ok(b) => b,
        Err(_) => return "PANIC-IN-CONDITION".into(),
    };
    // (2) the request, read from the socket with the socket's own peer address
    if client.write_all(&c.req).is_err() {
        return "NOWRITE".into();
    }
    let _ = stream.set_read_timeout(Some(Duration::from_secs(2)));
    let addr = match stream.peer_addr() {
        Ok(a) => a,
        Err(_) => return "NOPEER".into(),
    };
    let request = match guarded(|| Request::from_stream(&mut stream, addr)) {
        Ok(Ok(r)) => r,
        Ok(Err(e)) => return format!("{} REQUEST-ERROR:{:?} up=0", admitted as u8, e),
        Err(_) => return format!("{} REQUEST-PANIC up=0", admitted as u8),
    };
    // (3) the cache as the case prescribes
    if let Some((t0, size, fill)) = c.cache.prime {
        VERIF_NOW.store(t0, Ordering::SeqCst);
        let uri = request.uri.clone();
        let host = c.cache.host;
        let stc = state.clone();
        let r = guarded(move || stc.cache.write().unwrap().set(&uri, host, mk_data(size, fill), MimeType::TextPlain));
        if r.is_err() {
            VERIF_NOW.store(u64::MAX, Ordering::SeqCst);
            return "PRIME-PANIC".into();
        }
    }
    VERIF_NOW.store(c.cache.now, Ordering::SeqCst);
    // (4) the handler of the configured route, dispatched as `inner_request_handler` does
    let rt = match route_type_of(&c.route) {
        Some(r) => r,
        None => return "BADROUTE".into(),
    };
    let hits_before = UP_HITS.load(Ordering::SeqCst);
    let host = c.cache.host;
    let st = state.clone();
    let resp = guarded(move || {
        let route = st.config.default_host.routes.iter().find(|r| r.route_type == rt).expect("route in config");
        match route.route_type {
            RouteType::File => file_handler(request, st.clone(), route.path.as_ref().unwrap(), host),
            RouteType::Directory => directory_handler(request, st.clone(), route.path.as_ref().unwrap(), &route.matches, host),
            RouteType::Proxy => proxy_handler(request, st.clone(), route.load_balancer.as_ref().unwrap(), &route.matches),
            RouteType::Redirect => redirect_handler(request, st.clone(), route.path.as_ref().unwrap()),
            RouteType::ExclusiveWebSocket => unreachable!(),
        }
    });
    VERIF_NOW.store(u64::MAX, Ordering::SeqCst);
    let up = (UP_HITS.load(Ordering::SeqCst) != hits_before) as u8;
    let resp = match resp {
        Ok(r) => canon_response(&r),
        Err(_) => "PANIC".into(),
    };
    format!("{} {} up={}", admitted as u8, resp, up)
}

// ------------------------------------------------------------------ end to end

struct Server {
    child: std::process::Child,
    port: u16,
}

impl Drop for Server {
    fn drop(&mut self) {
        let _ = self.child.kill();
        let _ = self.child.wait();
    }
}

fn humphrey_binary() -> Option<String> {
    let p = std::fs::canonicalize("../../repo/target/release/humphrey").ok()?;
    Some(p.to_string_lossy().to_string())
}

/// Bring `repo/target/release/humphrey` up to date with the working tree (a no-op when nothing changed). Run from the
/// repository directory, so the harness's `--cfg humphrey_verif` does not apply: this is the binary a user would build.
fn build_binary() -> Result<(), String> {
    let out = std::process::Command::new("cargo")
        .args(["build", "--release", "--offline", "-p", "humphrey_server"])
        .current_dir("../../repo")
        .env_remove("RUSTFLAGS")
        .output()
        .map_err(|e| e.to_string())?;
    if out.status.success() { Ok(()) } else { Err(String::from_utf8_lossy(&out.stderr).lines().rev().take(3).collect::<Vec<_>>().join(" / ")) }
}

fn free_port() -> u16 {
    TcpListener::bind("127.0.0.1:0").unwrap().local_addr().unwrap().port()
}

/// Start the binary on `address:port` from a generated configuration; wait until it accepts connections.
fn start_server(bin: &str, c: &Case, address: &str) -> Option<Server> {
    let w = world();
    let port = free_port();
    let text = conf_text(w, &c.mode, &c.list, &c.cache, address, port);
    let path = format!("{}/e2e_{}.conf", w.dir, port);
    std::fs::write(&path, text).ok()?;
    let child = std::process::Command::new(bin)
        .arg(&path)
        .current_dir(&w.dir)
        .stdout(std::process::Stdio::null())
        .stderr(std::process::Stdio::null())
        .spawn()
        .ok()?;
    let mut s = Server { child, port };
    // probe from an address that is on no generated list
    let probe: SocketAddr = if address == "::1" { SocketAddr::from_str(&format!("[::1]:{}", port)).ok()? } else { SocketAddr::from(([127, 0, 0, 1], port)) };
    for _ in 0..200 {
        if let Ok(Some(_)) = s.child.try_wait() {
            return None;
        }
        let ok = if address == "::1" { TcpStream::connect(probe).is_ok() } else { connect_from_v4(Ipv4Addr::new(127, 200, 200, 200), probe).is_ok() };
        if ok {
            return Some(s);
        }
        std::thread::sleep(Duration::from_millis(10));
    }
    None
}

/// What the client sees: `CLOSED` or `<status>:<hash of Content-Length bytes of body>:<Location>`.
fn client_exchange(peer: IpAddr, port: u16, req: &[u8]) -> String {
    let stream = match peer {
        IpAddr::V4(p) => connect_from_v4(p, SocketAddr::from(([127, 0, 0, 1], port))),
        IpAddr::V6(p) => TcpStream::connect(SocketAddr::new(IpAddr::V6(p), port)),
    };
    let mut stream = match stream {
        Ok(s) => s,
        Err(_) => return "NOCONNECT".into(),
    };
    let _ = stream.set_read_timeout(Some(Duration::from_secs(5)));
    let _ = stream.write_all(req); // a refused connection may already be reset
    let mut buf = Vec::new();
    let mut b = [0u8; 4096];
    let (head_end, clen, status, location) = loop {
        if let Some(pos) = buf.windows(4).position(|w| w == b"\r\n\r\n") {
            let head = String::from_utf8_lossy(&buf[..pos]).to_string();
            let mut lines = head.split("\r\n");
            let status: u16 = lines.next().and_then(|l| l.split(' ').nth(1)).and_then(|s| s.parse().ok()).unwrap_or(0);
            let mut clen = 0usize;
            let mut location = None;
            for l in lines {
                if let Some((k, v)) = l.split_once(':') {
                    if k.eq_ignore_ascii_case("content-length") {
                        clen = v.trim().parse().unwrap_or(0);
                    } else if k.eq_ignore_ascii_case("location") {
                        location = Some(v.trim().to_string());
                    }
                }
            }
            break (pos + 4, clen, status, location);
        }
        match stream.read(&mut b) {
            Ok(0) | Err(_) => return if buf.is_empty() { "CLOSED".into() } else { format!("TRUNCATED:{}", hex(&buf)) },
            Ok(n) => buf.extend_from_slice(&b[..n]),
        }
    };
    while buf.len() < head_end + clen {
        match stream.read(&mut b) {
            Ok(0) | Err(_) => break,
            Ok(n) => buf.extend_from_slice(&b[..n]),
        }
    }
    let end = (head_end + clen).min(buf.len());
    canon_parts(status, &buf[head_end..end], location.as_deref())
}

fn run_e2e(c: &Case) -> String {
    let bin = match humphrey_binary() {
        Some(b) => b,
        None => return "NOBINARY".into(),
    };
    let peer = match IpAddr::from_str(&c.peer) {
        Ok(p) => p,
        Err(_) => return "BADPEER".into(),
    };
    let server = match start_server(&bin, c, if peer.is_ipv6() { "::1" } else { "127.0.0.1" }) {
        Some(s) => s,
        None => return "NOSERVER".into(),
    };
    let hits_before = UP_HITS.load(Ordering::SeqCst);
    let seen = client_exchange(peer, server.port, &c.req);
    let up = (UP_HITS.load(Ordering::SeqCst) != hits_before) as u8;
    drop(server);
    if seen == "CLOSED" { seen } else { format!("{} up={}", seen, up) }
}

// ------------------------------------------------------------------ exec

pub fn exec(f: &[String]) -> Option<String> {
    let c = parse_fields(f)?;
    write_files(&world().dir); // removed again below: a replay leaves nothing behind
    let r = match f[0].as_str() {
        "bl" => run_inproc(&c),
        "bl_e2e" => run_e2e(&c),
        _ => return None,
    };
    cleanup();
    Some(r)
}

// ------------------------------------------------------------------ generators

const PEERS: [&str; 5] = ["127.0.0.1", "127.0.0.5", "127.9.8.7", "127.255.255.254", "::1"];
/// Addresses that are never a peer: used as "other" list entries and as unlisted forwarded addresses.
const OTHERS: [&str; 8] = ["10.0.0.9", "127.0.0.77", "8.8.8.8", "192.168.1.20", "2001:db8::7", "fe80::1:2", "::2", "::ffff:127.0.0.5"];
/// Other spellings `IpAddr::from_str` accepts for an address (canonical text -> alternatives).
const SPELLINGS: [(&str, &[&str]); 5] = [
    ("::1", &["0:0:0:0:0:0:0:1", "0000:0000:0000:0000:0000:0000:0000:0001", "::0.0.0.1"]),
    ("2001:db8::7", &["2001:DB8:0:0:0:0:0:7", "2001:0db8::0007"]),
    ("fe80::1:2", &["FE80::1:2", "fe80:0:0:0:0:0:1:2"]),
    ("::2", &["0::2"]),
    ("::ffff:127.0.0.5", &["::FFFF:7f00:5"]),
];
const INVALID: [&str; 7] = ["unknown", "1.2.3", "256.1.1.1", "127.0.0.5:80", "[::1]", "", "127.0.0.05"];
const SEPS: [&str; 7] = [",", ", ", " ,", " , ", ",   ", "\t,\t", ",\u{a0}"];
const XFF_NAMES: [&str; 4] = ["X-Forwarded-For", "x-forwarded-for", "X-FORWARDED-FOR", "X-forwarded-FOR"];

fn spell(rng: &mut Rng, canon: &str, vary: bool) -> String {
    if vary {
        if let Some((_, alts)) = SPELLINGS.iter().find(|(c, _)| *c == canon) {
            if rng.chance(1, 2) {
                return rng.pick(alts).to_string();
            }
        }
    }
    canon.to_string()
}

fn list_kinds(peer: &str) -> Vec<(&'static str, Vec<String>)> {
    let others: Vec<String> = OTHERS.iter().map(|s| s.to_string()).collect();
    let other_peers: Vec<String> = PEERS.iter().filter(|p| **p != peer).map(|s| s.to_string()).collect();
    let mut big: Vec<String> = (0..48).map(|i| format!("10.{}.{}.{}", i, 255 - i, i * 5)).collect();
    big.extend((0..16).map(|i| format!("2001:db8:{:x}::{:x}", i + 1, 0xa0 + i)));
    big.push(peer.to_string());
    vec![
        ("empty", vec![]),
        ("client-only", vec![peer.to_string()]),
        ("others-v4", vec!["10.0.0.9".into(), "127.0.0.77".into(), "192.168.1.20".into()]),
        ("others-mixed", { let mut v = others.clone(); v.extend(other_peers.iter().cloned()); v }),
        ("client-among-mixed", vec!["10.0.0.9".into(), "2001:db8::7".into(), peer.to_string(), "fe80::1:2".into()]),
        ("client-last-of-65", big),
    ]
}

/// X-Forwarded-For shapes. `l` = some listed address (if any), `u` = unlisted addresses.
fn xff_value(rng: &mut Rng, shape: usize, listed: &[String], unlisted: &[String], vary: bool) -> Option<String> {
    let l = |rng: &mut Rng| -> String {
        if listed.is_empty() { rng.pick(unlisted).clone() } else { rng.pick(listed).clone() }
    };
    let u = |rng: &mut Rng| -> String { rng.pick(unlisted).clone() };
    let entries: Vec<String> = match shape {
        0 => return None,
        1 => vec![u(rng)],
        2 => vec![l(rng)],
        3 => vec![l(rng), u(rng)],          // listed address first: the origin (last entry) is unlisted
        4 => vec![u(rng), l(rng)],
        5 => vec![u(rng), l(rng), u(rng)],
        6 => vec![rng.pick(&INVALID).to_string(), l(rng), rng.pick(&INVALID).to_string()],
        7 => vec![rng.pick(&INVALID).to_string(), rng.pick(&INVALID).to_string()],
        8 => vec![l(rng), rng.pick(&INVALID).to_string(), u(rng), u(rng)],
        9 => vec![String::new()],
        10 => vec![u(rng), u(rng), u(rng)],
        _ => {
            let n = rng.range(1, 6) as usize;
            (0..n)
                .map(|_| match rng.below(5) {
                    0 | 1 => u(rng),
                    2 | 3 => l(rng),
                    _ => rng.pick(&INVALID).to_string(),
                })
                .collect()
        }
    };
    let mut v = String::new();
    if vary && rng.chance(1, 3) {
        v.push(' ');
    }
    for (i, e) in entries.iter().enumerate() {
        if i > 0 {
            let sep: &str = if vary { *rng.pick(&SEPS) } else { "," };
            v.push_str(sep);
        }
        v.push_str(&spell(rng, e, vary));
    }
    if vary && rng.chance(1, 4) {
        v.push_str("  ");
    }
    Some(v)
}

fn build_request(rng: &mut Rng, uri: &str, xff: Option<&str>, listed: &[String], vary: bool, close: bool) -> Vec<u8> {
    let mut s = format!("GET {} HTTP/1.1\r\nHost: localhost\r\n", uri);
    if vary && rng.chance(1, 2) {
        s += "User-Agent: hv/0.1\r\nAccept: */*\r\n";
    }
    // fields the code does not read: they must make no difference
    if vary && !listed.is_empty() && rng.chance(1, 4) {
        s += &format!("X-Real-IP: {}\r\nForwarded: for={}\r\n", rng.pick(listed), rng.pick(listed));
    }
    if let Some(x) = xff {
        let name = if vary { *rng.pick(&XFF_NAMES) } else { "X-Forwarded-For" };
        s += &format!("{}:{}{}\r\n", name, if vary && rng.chance(1, 3) { "" } else { " " }, x);
    }
    if close {
        s += "Connection: close\r\n";
    }
    s += "\r\n";
    s.into_bytes()
}

const ROUTE_URIS: [(&str, &str); 7] = [
    ("file", "/single"),
    ("directory", "/static/a.txt"),
    ("directory", "/static/sub/"),
    ("directory", "/static/sub"),
    ("directory", "/static/missing"),
    ("proxy", "/api/x"),
    ("redirect", "/old"),
];

fn cache_specs(route: &str, host: usize) -> Vec<(&'static str, CacheSpec)> {
    let off = CacheSpec { limit: 0, tl: 60, now: 1000, host, prime: None };
    let on = CacheSpec { limit: 4096, tl: 60, now: 1000, host, prime: None };
    if route == "file" || route == "directory" {
        vec![
            ("off", off),
            ("on-empty", on.clone()),
            ("on-entry-fresh", CacheSpec { prime: Some((990, 40, 7)), ..on.clone() }),
            ("on-entry-stale", CacheSpec { prime: Some((900, 40, 9)), ..on }),
        ]
    } else {
        vec![("off", off), ("on-empty", on)]
    }
}

fn emit(out: &mut Out, c: &Case, tag: &str) {
    let f = match fields(c, "bl") {
        Some(f) => f,
        None => return,
    };
    let impl_out = run_inproc(c);
    let xff = c.req.windows(16).any(|w| w.eq_ignore_ascii_case(b"x-forwarded-for:"));
    let peer_listed = c.list.contains(&c.peer);
    out.count(&format!("mode={}", c.mode));
    out.count(&format!("route={}", c.route));
    out.count(&format!("peer={}", c.peer));
    out.count(&format!("cache={}", tag));
    out.count(&format!("peer-listed={} xff={}", peer_listed as u8, xff as u8));
    let answer = impl_out.split(' ').nth(1).unwrap_or("?");
    let answer = answer.split(':').next().unwrap_or("?");
    out.count(&format!("impl: admitted={} status={}", impl_out.split(' ').next().unwrap_or("?"), answer));
    let refs: Vec<&str> = f.iter().map(|s| s.as_str()).collect();
    out.case(&refs, &impl_out, !c.list.is_empty() && (xff || peer_listed));
}

/// The i-th address of the long forwarded chains: all distinct, IPv4 and IPv6 mixed, in ranges no generated list uses
/// (172.16/12 and 2001:db8:ffff::/48), in the canonical text std prints.
fn chain_addr(i: usize) -> String {
    if i % 5 == 2 {
        std::net::Ipv6Addr::new(0x2001, 0xdb8, 0xffff, 0, 0, 0, ((i >> 16) & 0xffff) as u16, (i & 0xffff) as u16).to_string()
    } else {
        format!("172.{}.{}.{}", 16 + ((i >> 16) & 15), (i >> 8) & 255, i & 255)
    }
}

/// Positions worth trying in a chain of `len` entries: both ends, the middle, and both sides of every power of two counted
/// from the left and from the right (a limit on the number of hops kept, from either end, drops exactly such an entry).
fn chain_positions(len: usize) -> Vec<usize> {
    let mut v: Vec<usize> = vec![0, 1, 2, len / 2];
    for k in [4usize, 8, 16, 32, 64, 128, 256, 512, 1024, 2048, 4096] {
        for d in [k - 1, k, k + 1] {
            v.push(d);
            if len > d { v.push(len - 1 - d); }
        }
    }
    for d in [0usize, 1, 2, 9, 10, 11, 99, 100, 101, 999, 1000, 1001] {
        v.push(d);
        if len > d { v.push(len - 1 - d); }
    }
    v.retain(|p| *p < len);
    v.sort();
    v.dedup();
    v
}

/// An X-Forwarded-For value of `len` entries: `listed` at the positions `at`, distinct unlisted addresses elsewhere;
/// `invalid_every` > 0 puts an unparsable entry at every n-th other position; `vary`: any spacing and spelling.
fn chain_value(rng: &mut Rng, len: usize, at: &[usize], listed: &str, list: &[String], invalid_every: usize, vary: bool) -> String {
    let base = rng.below(1 << 19) as usize;
    let mut v = String::new();
    let sep: &str = if vary { *rng.pick(&SEPS) } else { *rng.pick(&[",", ", "]) };
    for i in 0..len {
        if i > 0 {
            v.push_str(if vary && len <= 300 { *rng.pick(&SEPS) } else { sep });
        }
        if at.contains(&i) {
            v.push_str(&spell(rng, listed, vary));
        } else if invalid_every > 0 && i % invalid_every == invalid_every - 1 {
            v.push_str(*rng.pick(&INVALID));
        } else {
            let mut a = chain_addr(base + i);
            if list.contains(&a) { a = "203.0.113.9".into(); }
            v.push_str(&a);
        }
    }
    v
}

/// Long forwarded chains: 1..5, 15..18, 31..34, 63..66, 100, ~128, ~256, 1000, 1024 (thorough: 2048, 4096) entries; the listed
/// address far left, at the middle, far right, and on both sides of every power of two from either end; no listed address
/// at all; two listed addresses; with and without unparsable entries; the peer unlisted (and, for a share, listed).
fn long_chains(out: &mut Out, rng: &mut Rng, thorough: bool, have_v6: bool) {
    let lengths: Vec<usize> = if thorough {
        vec![1, 2, 3, 4, 5, 6, 7, 8, 9, 10, 11, 15, 16, 17, 18, 19, 20, 31, 32, 33, 34, 35, 63, 64, 65, 66, 99, 100, 101, 127, 128, 129, 130, 255, 256, 257, 258,
             500, 511, 512, 513, 999, 1000, 1001, 1023, 1024, 1025, 2048, 4096]
    } else {
        vec![1, 2, 3, 4, 5, 15, 16, 17, 18, 31, 32, 33, 34, 63, 64, 65, 66, 100, 128, 129, 256, 257, 1000, 1024]
    };
    let mut counter = 0usize;
    for len in lengths {
        let mut plans: Vec<Vec<usize>> = chain_positions(len).into_iter().map(|p| vec![p]).collect();
        plans.push(vec![]);                                   // nobody listed: served
        if len >= 2 { plans.push(vec![0, len - 1]); }         // both ends listed
        for at in plans {
            let variants: &[(usize, bool)] = if thorough && len < 2000 { &[(0, false), (0, true), (3, false), (7, true)] } else if thorough { &[(0, false), (7, true)] } else { &[(0, false), (5, true)] };
            for (invalid_every, vary) in variants {
                for mode in ["block", "forbidden"] {
                    counter += 1;
                    // quick: the two modes alternate over the plans instead of doubling them for the long chains
                    if !thorough && len > 300 && counter % 2 == 0 { continue; }
                    let peer = PEERS[counter % PEERS.len()];
                    if peer.contains(':') && !have_v6 { continue; }
                    // the peer is unlisted except in one case out of 16
                    let kinds = list_kinds(peer);
                    let list = if counter % 16 == 7 { kinds[4].1.clone() } else { kinds[2 + counter % 2].1.clone() };
                    let candidates: Vec<String> = list.iter().filter(|a| *a != peer).cloned().collect();
                    let listed = candidates[counter / 2 % candidates.len()].clone();
                    let (route, uri) = ROUTE_URIS[counter % ROUTE_URIS.len()];
                    let specs = cache_specs(route, counter % 2);
                    let (tag, cache) = specs[counter / 3 % specs.len()].clone();
                    let value = chain_value(rng, len, &at, &listed, &list, *invalid_every, *vary);
                    let req = build_request(rng, uri, Some(&value), &list, *vary, false);
                    let c = Case { mode: mode.into(), list, peer: peer.into(), route: route.into(), cache, req };
                    out.count(&format!("chain: {} entries, listed {}", match len { 0..=5 => "1-5", 6..=20 => "6-20", 21..=66 => "31-66", 67..=300 => "99-258", _ => "500+" },
                        if at.is_empty() { "nowhere" } else if at.len() > 1 { "twice" } else if at[0] * 2 < len.saturating_sub(1) { "left half" } else if at[0] * 2 == len - 1 { "middle" } else { "right half" }));
                    emit(out, &c, tag);
                }
            }
        }
    }
}

fn unlisted_pool(list: &[String]) -> Vec<String> {
    let mut v: Vec<String> = OTHERS.iter().chain(PEERS.iter()).map(|s| s.to_string()).filter(|a| !list.contains(a)).collect();
    v.push("203.0.113.9".into());
    v
}

pub fn gen(out: &mut Out, thorough: bool, seed: u64) {
    let w = world();
    let mut rng = Rng::new(seed);
    let have_v6 = w.l6.is_some();
    out.extra.insert("ipv6_loopback".into(), if have_v6 { "available".into() } else { "NOT available: ::1 cases skipped".into() });
    out.extra.insert(
        "proxy_upstream".into(),
        "loopback listener thread inside the harness answering `HTTP/1.1 200 OK / Content-Length: 2 / ok`; every request it sees is counted (up=1)".into(),
    );
    // ---- the property's product, completely: mode x list kind x peer x route (and uri) x cache x forwarded shape
    let shapes = 12usize;
    let rounds = if thorough { 6 } else { 1 };
    for round in 0..rounds {
        for mode in ["block", "forbidden"] {
            for peer in PEERS {
                if peer.contains(':') && !have_v6 {
                    continue;
                }
                for (_kind, list) in list_kinds(peer) {
                    let unlisted = unlisted_pool(&list);
                    for (ri, (route, uri)) in ROUTE_URIS.iter().enumerate() {
                        for (tag, cache) in cache_specs(route, ri % 2) {
                            for shape in 0..shapes {
                                let vary = round > 0 || shape >= 6;
                                let xff = xff_value(&mut rng, shape, &list, &unlisted, vary);
                                let req = build_request(&mut rng, uri, xff.as_deref(), &list, vary, false);
                                let c = Case { mode: mode.into(), list: list.clone(), peer: peer.into(), route: route.to_string(), cache: cache.clone(), req };
                                emit(out, &c, tag);
                            }
                        }
                    }
                }
            }
        }
    }
    out.extra.insert(
        "exhaustive_block".into(),
        format!(
            "modes {{block,forbidden}} x peers {:?} x list kinds {{empty, client-only, others-v4, others-mixed (v4+v6, all other peers), \
             client-among-mixed, client-last-of-65}} x (route,uri) {:?} x cache {{off, on-empty, on-entry-fresh, on-entry-stale}} (file/directory; \
             off/on-empty for proxy/redirect) x 12 X-Forwarded-For shapes (absent; unlisted; listed; listed,unlisted; unlisted,listed; u,l,u; \
             invalid,l,invalid; invalid only; l,invalid,u,u; empty value; u,u,u; random 1..6 entries), {} round(s)",
            PEERS, ROUTE_URIS, rounds
        ),
    );
    // ---- random configurations: random lists (any subset of the pools), random requests, second X-Forwarded-For field
    let n = if thorough { 60_000 } else { 4_000 };
    let pool: Vec<String> = OTHERS.iter().chain(PEERS.iter()).map(|s| s.to_string()).collect();
    for _ in 0..n {
        let peer = *rng.pick(&PEERS);
        if peer.contains(':') && !have_v6 {
            continue;
        }
        let mut list: Vec<String> = pool.iter().filter(|_| rng.chance(1, 3)).cloned().collect();
        if rng.chance(1, 3) && !list.contains(&peer.to_string()) {
            let at = rng.below(list.len() as u64 + 1) as usize;
            list.insert(at, peer.to_string());
        }
        let unlisted = unlisted_pool(&list);
        let ri = rng.below(ROUTE_URIS.len() as u64) as usize;
        let (route, uri) = ROUTE_URIS[ri];
        let specs = cache_specs(route, rng.below(2) as usize);
        let (tag, mut cache) = specs[rng.below(specs.len() as u64) as usize].clone();
        if cache.prime.is_some() && rng.chance(1, 2) {
            // entry exactly at the time limit, one second beyond it, or stored "now"
            let age = *rng.pick(&[0u64, 59, 60, 61]);
            cache.prime = Some((cache.now - age, rng.range(0, 200) as usize, rng.below(256) as usize));
        }
        let shape = rng.below(16) as usize;
        let xff = xff_value(&mut rng, shape, &list, &unlisted, true);
        let mut req = build_request(&mut rng, uri, xff.as_deref(), &list, true, false);
        if rng.chance(1, 10) {
            // a second field of the same name: `Address::from_headers` reads the first one only
            let extra = format!("X-Forwarded-For: {}\r\n\r\n", rng.pick(&unlisted));
            req.truncate(req.len() - 2);
            req.extend_from_slice(extra.as_bytes());
            out.count("second-xff-field");
        }
        let c = Case { mode: if rng.chance(1, 2) { "block".into() } else { "forbidden".into() }, list, peer: peer.into(), route: route.into(), cache, req };
        emit(out, &c, tag);
    }
    // ---- long forwarded chains (own generator state: the cases above do not move when this block changes)
    let mut crng = Rng::new(seed ^ 0xC19_C4A1);
    long_chains(out, &mut crng, thorough, have_v6);
    // ---- end to end: the real binary
    let built = build_binary();
    match (built, humphrey_binary()) {
        (Ok(()), Some(bin)) => {
            out.extra.insert("end_to_end".into(), format!("binary {} (cargo build --release -p humphrey_server, run before the cases)", bin));
            e2e(out, &mut rng, thorough, have_v6);
        }
        (Err(e), _) => {
            out.extra.insert("end_to_end".into(), format!("MISSING: cargo build --release -p humphrey_server failed: {}", e));
        }
        (_, None) => {
            out.extra.insert("end_to_end".into(), "MISSING: ../../repo/target/release/humphrey not found after the build".into());
        }
    }
    cleanup();
}

fn e2e(out: &mut Out, rng: &mut Rng, thorough: bool, have_v6: bool) {
    // (mode, peer, list kind index, route index, forwarded shape): the four clauses of the property on every route type
    let mut plan: Vec<(&str, &str, usize, usize, usize)> = vec![
        ("block", "127.0.0.5", 1, 0, 0),      // listed peer, block: closed
        ("block", "127.0.0.5", 4, 5, 1),      // listed peer, block, proxy, forwarded unlisted: closed
        ("forbidden", "127.0.0.5", 1, 0, 1),  // listed peer, forbidden, X-Forwarded-For unlisted (D25), file
        ("forbidden", "127.0.0.5", 4, 1, 1),  // … directory
        ("forbidden", "127.9.8.7", 4, 5, 1),  // … proxy
        ("forbidden", "127.0.0.5", 5, 6, 1),  // … redirect
        ("forbidden", "127.0.0.5", 1, 1, 0),  // listed peer, no header
        ("block", "127.0.0.1", 3, 5, 3),      // unlisted peer forwarding for a listed address (listed first), proxy
        ("forbidden", "127.0.0.1", 3, 0, 4),  // … listed last, file
        ("block", "127.0.0.1", 3, 1, 5),      // … middle, directory
        ("block", "127.0.0.1", 3, 6, 8),      // … redirect
        ("block", "127.0.0.1", 3, 0, 10),     // nobody listed: served (file)
        ("forbidden", "127.0.0.1", 2, 1, 1),  // … directory
        ("forbidden", "127.255.255.254", 2, 5, 10), // … proxy
        ("block", "127.0.0.1", 0, 6, 0),      // empty list, redirect
        ("block", "127.0.0.1", 0, 3, 0),      // empty list, directory -> 301
        ("forbidden", "127.0.0.1", 2, 4, 0),  // 404
    ];
    if have_v6 {
        plan.push(("block", "::1", 1, 0, 0));
        plan.push(("forbidden", "::1", 4, 5, 1));
        plan.push(("forbidden", "::1", 2, 1, 10));
    }
    let extra = if thorough { 120 } else { 0 };
    for _ in 0..extra {
        let peer = *rng.pick(&PEERS);
        if peer.contains(':') && !have_v6 {
            continue;
        }
        plan.push((if rng.chance(1, 2) { "block" } else { "forbidden" }, peer, rng.below(6) as usize, rng.below(7) as usize, rng.below(12) as usize));
    }
    // shapes 100 + k: a long chain (see `long_chains`) of E2E_CHAINS[k].0 entries with the listed address at E2E_CHAINS[k].1
    const E2E_CHAINS: [(usize, usize); 8] = [(17, 0), (18, 1), (33, 0), (100, 0), (100, 50), (257, 0), (1000, 0), (1000, 983)];
    for k in 0..(if thorough { 16 } else { 4 }) {
        let k = if thorough { k } else { [0usize, 3, 6, 7][k] };
        plan.push((["block", "forbidden"][k % 2], "127.0.0.1", 3, [0usize, 1, 5, 6][k / 2 % 4], 100 + k % 8));
    }
    for (mode, peer, kind, ri, shape) in plan {
        let list = list_kinds(peer)[kind].1.clone();
        let unlisted = unlisted_pool(&list);
        let (route, uri) = ROUTE_URIS[ri];
        let cache = if ri % 2 == 0 { CacheSpec { limit: 4096, tl: 60, now: 0, host: 0, prime: None } } else { CacheSpec { limit: 0, tl: 0, now: 0, host: 0, prime: None } };
        let xff = if shape >= 100 {
            let (len, at) = E2E_CHAINS[shape - 100];
            let listed = list[shape % list.len()].clone();
            Some(chain_value(rng, len, &[at], &listed, &list, 0, false))
        } else {
            xff_value(rng, shape, &list, &unlisted, true)
        };
        let req = build_request(rng, uri, xff.as_deref(), &list, true, true);
        let c = Case { mode: mode.into(), list, peer: peer.into(), route: route.into(), cache, req };
        let f = match fields(&c, "bl_e2e") {
            Some(f) => f,
            None => continue,
        };
        let impl_out = run_e2e(&c);
        out.count("e2e:cases");
        out.count(&format!("e2e: {}", impl_out.split(':').next().unwrap_or("?")));
        let refs: Vec<&str> = f.iter().map(|s| s.as_str()).collect();
        out.case(&refs, &impl_out, true);
    }
}
