//! C02: `Request::from_stream` / `Vec<u8>::from(Request)` on grammar-generated requests under many chunkings.
use crate::common::*;
use crate::httpgen::*;
use humphrey::http::Request;
use std::collections::BTreeSet;
use std::net::SocketAddr;

pub fn hx(b: &[u8]) -> String {
    if b.is_empty() { "~".into() } else { hex(b) }
}

/// FNV-1a (64 bit): long byte strings are shown as `#<len>:<hash>`.
pub fn fnv(b: &[u8]) -> u64 {
    let mut h: u64 = 0xcbf29ce484222325;
    for x in b {
        h ^= *x as u64;
        h = h.wrapping_mul(0x100000001b3);
    }
    h
}

pub fn hxl(b: &[u8]) -> String {
    if b.len() > 64 { format!("#{}:{:016x}", b.len(), fnv(b)) } else { hx(b) }
}

/// Pattern byte `i` of the generated payload `Z<len>.<seed>` (the same function in `Driver/Http.lean::patByte`).
pub fn pat_byte(seed: u32, i: usize) -> u8 {
    let x = (i as u32).wrapping_mul(2654435761).wrapping_add(seed);
    ((x >> 24) ^ (x >> 11)) as u8
}

pub fn pat_bytes(len: usize, seed: u32) -> Vec<u8> {
    (0..len).map(|i| pat_byte(seed, i)).collect()
}

pub const HEXZ_LIMIT: usize = 64 * 1024 * 1024;

/// Compact byte strings (`hexz`): `_`-separated segments, each plain hex, `Z<len>.<seed>` (pattern bytes) or
/// `Y<count>.<hex>` (a block repeated). Plain hex is the special case of one segment. Large bodies and long runs of
/// identical requests stay out of the case line this way.
pub fn unhexz(s: &str) -> Vec<u8> {
    if !s.bytes().any(|c| c == b'_' || c == b'Z' || c == b'Y') {
        return unhex(s);
    }
    let mut out = Vec::new();
    for seg in s.split('_') {
        if let Some(r) = seg.strip_prefix('Z') {
            if let Some((l, sd)) = r.split_once('.') {
                if let (Ok(l), Ok(sd)) = (l.parse::<usize>(), sd.parse::<u64>()) {
                    if l <= HEXZ_LIMIT { out.extend(pat_bytes(l, sd as u32)); }
                }
            }
        } else if let Some(r) = seg.strip_prefix('Y') {
            if let Some((c, h)) = r.split_once('.') {
                if let Ok(c) = c.parse::<usize>() {
                    let b = unhex(h);
                    if c.saturating_mul(b.len()) <= HEXZ_LIMIT { for _ in 0..c { out.extend_from_slice(&b); } }
                }
            }
        } else {
            out.extend(unhex(seg));
        }
    }
    out
}

/// Canonical rendering of a parsed request (what C02 observes and nothing else).
pub fn canon_request(req: &Request) -> String {
    let mut names: BTreeSet<Vec<u8>> = BTreeSet::new();
    for h in req.headers.iter() {
        names.insert(h.name.to_string().to_ascii_lowercase().into_bytes());
    }
    let hs: Vec<String> = names
        .iter()
        .map(|n| {
            let name = String::from_utf8_lossy(n).to_string();
            let vals: Vec<String> = req.headers.get_all(name.as_str()).iter().map(|v| hx(v.as_bytes())).collect();
            format!("{}={}", hx(n), vals.join(";"))
        })
        .collect();
    let mut cookies: Vec<String> =
        req.get_cookies().iter().map(|c| format!("{}={}", hx(c.name.as_bytes()), hx(c.value.as_bytes()))).collect();
    // the single-cookie lookup must agree with the list: the first cookie of that name, nothing for a name that is not there
    {
        let list = req.get_cookies();
        let mut seen: Vec<&str> = Vec::new();
        for c in &list {
            if seen.contains(&c.name.as_str()) { continue; }
            seen.push(c.name.as_str());
            match req.get_cookie(c.name.as_str()) {
                Some(g) if g.value == c.value => {}
                other => cookies.push(format!("LOOKUP-MISMATCH:{}:{}", hx(c.name.as_bytes()), match other { Some(g) => hx(g.value.as_bytes()), None => "none".into() })),
            }
        }
        if !seen.contains(&"no-such-cookie") && req.get_cookie("no-such-cookie").is_some() {
            cookies.push("LOOKUP-MISMATCH:absent-name-found".into());
        }
    }
    format!(
        "OK {} {} {} {} H[{}] C[{}] A[{}/{}/{}] K[{}]",
        req.method,
        hx(req.uri.as_bytes()),
        hx(req.query.as_bytes()),
        hx(req.version.as_bytes()),
        hs.join(","),
        match &req.content {
            Some(c) => hxl(c),
            None => "-".into(),
        },
        hx(req.address.origin_addr.to_string().as_bytes()),
        req.address.proxies.iter().map(|p| hx(p.to_string().as_bytes())).collect::<Vec<_>>().join(";"),
        req.address.port,
        cookies.join(";")
    )
}

pub fn parse_chunks(chunks: Vec<Vec<u8>>, peer: SocketAddr) -> Result<Result<Request, String>, String> {
    guarded(move || {
        let mut r = Chunked::new(chunks);
        Request::from_stream(&mut r, peer).map_err(|e| format!("ERR:{:?}", e))
    })
}

/// `req_parse <hex bytes> <cuts> <peer ip|port> <ip oracle> <expected or ->`  →  `P1 | SER | P2`
pub fn exec(f: &[String]) -> Option<String> {
    match (f[0].as_str(), f.len()) {
        ("req_parse", 6) => {
            let bytes = unhexz(&f[1]);
            let chunks = apply_cuts(&bytes, &f[2]);
            let (ip, port) = f[3].split_once('|')?;
            let peer = SocketAddr::new(ip.parse().ok()?, port.parse().ok()?);
            let p1 = parse_chunks(chunks, peer);
            Some(match p1 {
                Err(_) => "PANIC | - | -".into(),
                Ok(Err(e)) => format!("{} | - | -", e),
                Ok(Ok(req)) => {
                    let c1 = canon_request(&req);
                    let ser = guarded(|| -> Vec<u8> { req.clone().into() });
                    match ser {
                        Err(_) => format!("{} | PANIC | -", c1),
                        Ok(ser) => {
                            let p2 = match parse_chunks(vec![ser.clone()], peer) {
                                Err(_) => "PANIC".to_string(),
                                Ok(Err(e)) => e,
                                Ok(Ok(r2)) => canon_request(&r2),
                            };
                            format!("{} | {} | {}", c1, hxl(&ser), p2)
                        }
                    }
                }
            })
        }
        _ => None,
    }
}

// ---------------------------------------------------------------------------------------------
// Generator: an AST of a well-formed request, its rendering, and what it denotes (computed from the AST
// alone, independently of the parser).

pub struct GenHeader {
    pub name: String,  // as spelled (any case)
    pub ows: String,   // optional whitespace after the colon
    pub value: String, // no leading/trailing whitespace, no CR/LF
}

pub struct GenReq {
    pub method: &'static str,
    pub path: String,
    pub query: Option<String>,
    pub version: &'static str,
    pub headers: Vec<GenHeader>,
    pub body: Option<Vec<u8>>,
    /// the body is `pat_bytes(len, seed)`: rendered as `Z<len>.<seed>` in the compact form of the request bytes
    pub body_pat: Option<(usize, u32)>,
    pub xff: Option<Vec<(String, Option<String>)>>, // entries as spelled (with spaces), canonical if valid
    pub cookies: Option<Vec<(String, String)>>,
}

/// How the ordinary field names of a request are drawn.
#[derive(Clone, Copy, PartialEq, Default)]
pub enum Names {
    /// a small pool per request: names repeat and interleave
    #[default]
    Pool,
    /// one name for every field
    Same,
    /// every field its own name
    Distinct,
}

/// Dimensions of a request that the size/count sweeps fix (everything left `None` is drawn as usual).
#[derive(Clone, Default)]
pub struct Dims {
    pub nh: Option<usize>,
    pub names: Names,
    pub ncookies: Option<usize>,
    pub nxff: Option<usize>,
    /// every n-th forwarded entry is an unparsable one (0 = none)
    pub xff_invalid_every: usize,
    pub body_len: Option<usize>,
    /// short field values only (no 4..70 KiB lines): used when the COUNT is the dimension
    pub short_values: bool,
}

/// The i-th address of the long forwarded chains: all distinct, IPv4 and IPv6 mixed; (as spelled, canonical).
pub fn chain_addr(i: usize) -> (String, String) {
    if i % 7 == 3 {
        // canonical text = what std's Display prints (the trusted side of the IP oracle)
        let c = std::net::Ipv6Addr::new(0x2001, 0xdb8, 0, 0, 0, 1, ((i >> 16) & 0xffff) as u16, (i & 0xffff) as u16).to_string();
        (if i % 2 == 1 { c.to_uppercase() } else { c.clone() }, c)
    } else {
        let c = format!("10.{}.{}.{}", (i >> 16) & 255, (i >> 8) & 255, i & 255);
        (c.clone(), c)
    }
}

const IP_POOL: &[(&str, Option<&str>)] = &[
    ("1.2.3.4", Some("1.2.3.4")),
    ("127.0.0.1", Some("127.0.0.1")),
    ("10.0.0.1", Some("10.0.0.1")),
    ("255.255.255.255", Some("255.255.255.255")),
    ("::1", Some("::1")),
    ("2001:db8::1", Some("2001:db8::1")),
    ("2001:DB8:0:0:0:0:0:1", Some("2001:db8::1")),
    ("fe80::1:2", Some("fe80::1:2")),
    // spellings an address list must keep apart: IPv4-mapped and IPv4-compatible IPv6, the unspecified addresses
    ("::ffff:1.2.3.4", Some("::ffff:1.2.3.4")),
    ("::ffff:102:304", Some("::ffff:1.2.3.4")),
    ("::1.2.3.4", Some("::102:304")),
    ("::", Some("::")),
    ("0.0.0.0", Some("0.0.0.0")),
    ("::ffff:127.0.0.1", Some("::ffff:127.0.0.1")),
    ("unknown", None),
    ("1.2.3", None),
    ("256.1.1.1", None),
    ("1.2.3.4:80", None),
    ("[::1]", None),
    ("_hidden", None),
];

const KNOWN: &[&str] = &[
    "Host", "User-Agent", "Accept", "Accept-Language", "Accept-Encoding", "Referer", "Origin", "Authorization",
    "Cache-Control", "Pragma", "Via", "Date", "Content-Type", "Content-Encoding", "ETag", "Expect", "From",
    "Forwarded", "Warning", "Link", "Age", "Allow", "Server", "Location", "Upgrade", "Connection",
    "Access-Control-Request-Method", "Access-Control-Request-Headers", "Last-Modified", "Expires",
];
const CUSTOM: &[&str] = &["X-Test", "x-a", "X-Request-Id", "DNT", "Sec-Fetch-Mode", "x_b", "Zz", "a1", "X-É", "~tilde", "!bang"];

fn rand_case(rng: &mut Rng, s: &str) -> String {
    let mode = rng.below(4);
    s.chars()
        .map(|c| match mode {
            0 => c,
            1 => c.to_ascii_lowercase(),
            2 => c.to_ascii_uppercase(),
            _ => if rng.chance(1, 2) { c.to_ascii_uppercase() } else { c.to_ascii_lowercase() },
        })
        .collect()
}

fn rand_value(rng: &mut Rng, short: bool) -> String {
    // U+00A0, U+3000, U+2028, U+0085 are white space to Unicode, not to HTTP: they are ordinary value characters
    const ALPH: &[&str] = &["a", "b", "Z", "0", "9", " ", "\t", ":", ",", ";", "=", "/", "?", "é", "€", "😀", "\"", "%", "*", "-", ".",
                            "\u{a0}", "\u{3000}", "\u{2028}", "\u{85}"];
    let n0 = rng.below(24);
    // now and then a LONG field line: lengths around the usual buffer and limit sizes (4 KiB, 8 KiB, 16 KiB, 64 KiB)
    if !short && rng.chance(1, 48) {
        let target = *rng.pick(&[4090usize, 4096, 8150, 8186, 8192, 8193, 8200, 16384, 16400, 65530, 65536, 70000]) + rng.below(8) as usize;
        let mut s = String::with_capacity(target + 8);
        while s.len() < target {
            if rng.chance(1, 64) { s.push_str(*rng.pick(ALPH)); } else { s.push('a'); }
        }
        return s.trim_start().trim_end_matches(|c| c == ' ' || c == '\t').to_string();
    }
    let n = n0;
    let mut s = String::new();
    for _ in 0..n {
        s.push_str(*rng.pick(ALPH));
    }
    // the parser drops leading white space in Rust's (Unicode) sense; at the end only SP / HTAB are outside the quantifier
    s.trim_start().trim_end_matches(|c| c == ' ' || c == '\t').to_string()
}

pub fn gen_request(rng: &mut Rng, big_body: bool) -> GenReq {
    gen_request_dims(rng, big_body, &Dims::default())
}

pub fn gen_request_dims(rng: &mut Rng, big_body: bool, dims: &Dims) -> GenReq {
    let method = *rng.pick(&["GET", "POST", "PUT", "DELETE", "OPTIONS"]);
    const SEG: &[&str] = &["a", "index.html", "%20", "é", "x-y_z", "..", ".", "%2e%2e", "😀", "A", "~", "*", "a:b", "a=b", "&"];
    let mut path = String::from("/");
    for i in 0..rng.below(5) {
        if i > 0 {
            path.push('/');
        }
        path.push_str(*rng.pick(SEG));
    }
    if rng.chance(1, 5) {
        path.push('/');
    }
    let query = if rng.chance(1, 2) {
        const Q: &[&str] = &["a=1", "b", "&", "c=d%20e", "?", "=", "é", "x=/y", ""];
        let mut q = String::new();
        for _ in 0..rng.below(4) {
            q.push_str(*rng.pick(Q));
        }
        Some(q)
    } else {
        None
    };
    let version = if rng.chance(1, 3) { "HTTP/1.0" } else { "HTTP/1.1" };
    let nh = match rng.below(10) {
        0 => 0,
        1..=6 => rng.range(1, 8),
        7 | 8 => rng.range(8, 24),
        _ => rng.range(21, 60),
    };
    let nh = dims.nh.map(|n| n as u64).unwrap_or(nh);
    let mut headers = Vec::new();
    // a small name pool per request so that names repeat and interleave (defeats unstable sorting above 20)
    let pool_n = rng.range(1, 6) as usize;
    // names: the hand-picked typed ones, the custom ones, and any registered field name (a header the code has started
    // to treat as a typed variant must still be parsed, looked up and re-serialised under its own name)
    let pool: Vec<&str> = (0..pool_n).map(|_| match rng.below(6) {
        0 | 1 | 2 => *rng.pick(KNOWN),
        3 => *rng.pick(CUSTOM),
        _ => {
            let c = *rng.pick(crate::tables::HEADER_CANDIDATES);
            // headers with a meaning of their own for the parser are generated elsewhere, deliberately
            if matches!(c, "content-length" | "x-forwarded-for" | "cookie" | "transfer-encoding") { "x-other" } else { c }
        }
    }).collect();
    for i in 0..nh {
        let base: String = match dims.names {
            Names::Pool => rng.pick(&pool).to_string(),
            Names::Same => pool[0].to_string(),
            Names::Distinct => format!("X-H-{}", i),
        };
        headers.push(GenHeader {
            name: rand_case(rng, &base),
            ows: rng.pick(&[" ", "", "  ", "\t", " \t "]).to_string(),
            value: rand_value(rng, dims.short_values),
        });
    }
    let cookies = if dims.ncookies.is_some() || rng.chance(1, 3) {
        let n = dims.ncookies.map(|n| n as u64).unwrap_or_else(|| rng.range(1, 4));
        let mut v = Vec::new();
        for i in 0..n {
            let k = format!("{}{}", rng.pick(&["sid", "HumphreyToken", "a", "é", "k-1"]), i);
            let val = rng.pick(&["abc", "", "x=y", "é😀", "0123456789abcdef", "a b"]).to_string();
            v.push((k, val));
        }
        Some(v)
    } else {
        None
    };
    let xff = if let Some(n) = dims.nxff {
        // a long chain of distinct addresses (the order and the number of the proxies is then visible in the result)
        let base = rng.below(1 << 20) as usize;
        Some((0..n).map(|i| {
            if dims.xff_invalid_every > 0 && i % dims.xff_invalid_every == dims.xff_invalid_every - 1 {
                (rng.pick(&["unknown", "1.2.3", "256.1.1.1", "1.2.3.4:80", "[::1]", "_hidden"]).to_string(), None)
            } else {
                let (s, c) = chain_addr(base + i);
                (s, Some(c))
            }
        }).collect())
    } else if rng.chance(1, 2) {
        let n = rng.range(1, 5);
        Some((0..n).map(|_| {
            let (s, c) = *rng.pick(IP_POOL);
            (s.to_string(), c.map(|c| c.to_string()))
        }).collect())
    } else {
        None
    };
    if let Some(n) = dims.body_len {
        let seed = rng.next() as u32;
        let method = if method == "GET" || method == "OPTIONS" { "POST" } else { method };
        return GenReq { method, path, query, version, headers, body: Some(pat_bytes(n, seed)), body_pat: Some((n, seed)), xff, cookies };
    }
    let body = if method != "GET" || rng.chance(1, 4) {
        if rng.chance(2, 3) {
            let n = if big_body && rng.chance(1, 100) { rng.range(8000, 65536) } else { *rng.pick(&[0u64, 1, 2, 5, 17, 100, 255, 256, 1000]) };
            Some(rng.bytes(n as usize))
        } else {
            None
        }
    } else {
        None
    };
    GenReq { method, path, query, version, headers, body, body_pat: None, xff, cookies }
}

pub struct Rendered {
    pub bytes: Vec<u8>,
    /// the bytes in the compact `hexz` form (equal to `hex(bytes)` unless the body is a pattern)
    pub enc: String,
    /// length of the head (start line, fields, blank line)
    pub head_len: usize,
    pub expect: String,
}

/// Render the AST to bytes and compute what it denotes (peer = the connecting address).
pub fn render(rng: &mut Rng, g: &GenReq, peer: &str, port: u16) -> Rendered {
    let mut lines: Vec<(String, String)> = Vec::new(); // (lower name, value) in order
    let mut out: Vec<u8> = Vec::new();
    out.extend(g.method.as_bytes());
    out.push(b' ');
    out.extend(g.path.as_bytes());
    if let Some(q) = &g.query {
        out.push(b'?');
        out.extend(q.as_bytes());
    }
    out.push(b' ');
    out.extend(g.version.as_bytes());
    out.extend(b"\r\n");
    // special headers are placed at random positions among the ordinary ones
    let mut all: Vec<(String, String, String)> = g.headers.iter().map(|h| (h.name.clone(), h.ows.clone(), h.value.clone())).collect();
    // optional white space around the commas of a list is SP or HTAB
    let sep_choices = [",", ", ", " , ", ",  ", ",\t", "\t,", " ,\t ", "\t,\t"];
    let mut xff_expect: Option<(String, Vec<String>)> = None;
    if let Some(x) = &g.xff {
        let sep = *rng.pick(&sep_choices);
        let v = x.iter().map(|(s, _)| s.clone()).collect::<Vec<_>>().join(sep);
        let pos = rng.below(all.len() as u64 + 1) as usize;
        all.insert(pos, (rand_case(rng, "X-Forwarded-For"), " ".into(), v));
        let valid: Vec<String> = x.iter().filter_map(|(_, c)| c.clone()).collect();
        if let Some(last) = valid.last() {
            let mut proxies: Vec<String> = valid[..valid.len() - 1].to_vec();
            proxies.push(peer.to_string());
            xff_expect = Some((last.clone(), proxies));
        }
    }
    let mut cookie_expect: Vec<(String, String)> = Vec::new();
    if let Some(c) = &g.cookies {
        let sep = *rng.pick(&["; ", ";", " ; "]);
        // segments that are no `name=value` pair (a bare flag, an empty segment from a doubled, leading or trailing `;`) are
        // skipped by the parser and must not disturb the cookies around them
        let mut segs: Vec<String> = c.iter().map(|(k, v)| format!("{}={}", k, v)).collect();
        if rng.chance(1, 3) {
            for _ in 0..rng.range(1, 3) {
                let seg = rng.pick(&["secure", "", " ", "HttpOnly", "flag"]).to_string();
                if seg.trim().is_empty() {
                    // a blank segment goes between two others (no leading / trailing whitespace in the field value: the
                    // property's quantifier); an empty one may also lead (`;a=b`)
                    if segs.len() >= 2 { let at = 1 + rng.below(segs.len() as u64 - 1) as usize; segs.insert(at, seg); }
                } else {
                    let at = rng.below(segs.len() as u64 + 1) as usize;
                    segs.insert(at, seg);
                }
            }
        }
        let mut v = segs.join(sep);
        if rng.chance(1, 10) { v = format!(";{}", v); } // a leading `;`
        if rng.chance(1, 10) { v.push(';'); }            // a trailing `;`
        let pos = rng.below(all.len() as u64 + 1) as usize;
        all.insert(pos, (rand_case(rng, "Cookie"), " ".into(), v));
        cookie_expect = c.iter().map(|(k, v)| (k.trim().to_string(), v.trim().to_string())).collect();
    }
    if let Some(b) = &g.body {
        let pos = rng.below(all.len() as u64 + 1) as usize;
        all.insert(pos, (rand_case(rng, "Content-Length"), rng.pick(&[" ", ""]).to_string(), b.len().to_string()));
    }
    for (n, ows, v) in &all {
        out.extend(n.as_bytes());
        out.push(b':');
        out.extend(ows.as_bytes());
        out.extend(v.as_bytes());
        out.extend(b"\r\n");
        lines.push((n.to_ascii_lowercase(), v.clone()));
    }
    out.extend(b"\r\n");
    let head_len = out.len();
    let enc = match (&g.body_pat, &g.body) {
        (Some((n, seed)), Some(_)) if *n > 0 => format!("{}_Z{}.{}", hex(&out), n, seed),
        (_, Some(b)) => { let mut e = hex(&out); e.push_str(&hex(b)); e }
        _ => hex(&out),
    };
    if let Some(b) = &g.body {
        out.extend(b);
    }
    // denotation
    let mut names: BTreeSet<Vec<u8>> = BTreeSet::new();
    for (n, _) in &lines {
        names.insert(n.clone().into_bytes());
    }
    let hs: Vec<String> = names
        .iter()
        .map(|n| {
            let vals: Vec<String> = lines.iter().filter(|(m, _)| m.as_bytes() == &n[..]).map(|(_, v)| hx(v.as_bytes())).collect();
            format!("{}={}", hx(n), vals.join(";"))
        })
        .collect();
    let (origin, proxies) = match xff_expect {
        Some((o, p)) => (o, p),
        None => (peer.to_string(), vec![]),
    };
    let expect = format!(
        "OK {} {} {} {} H[{}] C[{}] A[{}/{}/{}] K[{}]",
        g.method,
        hx(g.path.as_bytes()),
        hx(g.query.clone().unwrap_or_default().as_bytes()),
        hx(g.version.as_bytes()),
        hs.join(","),
        match &g.body {
            Some(b) => hxl(b),
            None => "-".into(),
        },
        hx(origin.as_bytes()),
        proxies.iter().map(|p| hx(p.as_bytes())).collect::<Vec<_>>().join(";"),
        port,
        cookie_expect.iter().map(|(k, v)| format!("{}={}", hx(k.as_bytes()), hx(v.as_bytes()))).collect::<Vec<_>>().join(";")
    );
    Rendered { bytes: out, enc, head_len, expect }
}

fn emit(out: &mut Out, bytes: &[u8], cuts: &str, peer: &str, port: u16, expect: &str, nontrivial: bool) {
    emit_enc(out, bytes, &hex(bytes), cuts, peer, port, expect, nontrivial)
}

/// `enc` = the request bytes in the (possibly compact) form that goes into the case line.
fn emit_enc(out: &mut Out, bytes: &[u8], enc: &str, cuts: &str, peer: &str, port: u16, expect: &str, nontrivial: bool) {
    let f = vec![
        "req_parse".to_string(),
        enc.to_string(),
        cuts.to_string(),
        format!("{}|{}", peer, port),
        ip_oracle(bytes),
        expect.to_string(),
    ];
    let r = exec(&f).unwrap_or_else(|| "UNSUPPORTED".into());
    let kind = if r.starts_with("OK") { "parsed" } else if r.starts_with("PANIC") { "panic" } else { "error" };
    out.count(&format!("result={}", kind));
    out.count(&format!("cuts={}", &cuts[..1]));
    let fr: Vec<&str> = f.iter().map(|s| s.as_str()).collect();
    out.case(&fr, &r, nontrivial);
}

/// The tokio twin of the parser, through the second harness binary `hvt` (humphrey built with `--features tokio`).
fn tokio_exe() -> Option<std::path::PathBuf> {
    let me = std::env::current_exe().ok()?;
    let verif = me.parent()?.parent()?.parent()?.parent()?;
    let p = verif.join("harness-tokio").join("target").join("release").join("hvt");
    if p.exists() { Some(p) } else { None }
}

/// `req_parse_tokio` cases: the same inputs through tokio's `Request::from_stream`.
fn tokio_cases(out: &mut Out, inputs: &[Vec<String>]) {
    let exe = match tokio_exe() {
        Some(e) => e,
        None => { out.extra.insert("tokio".into(), "hvt not built: tokio parser not exercised".into()); return; }
    };
    let dir = std::env::temp_dir().join(format!("hv_c02_{}", std::process::id()));
    let _ = std::fs::create_dir_all(&dir);
    let inp = dir.join("in");
    let outp = dir.join("out");
    std::fs::write(&inp, inputs.iter().map(|f| f.join("\t")).collect::<Vec<_>>().join("\n") + "\n").unwrap();
    let ok = std::process::Command::new(exe).arg("__c02").arg(&inp).arg(&outp).status().map(|s| s.success()).unwrap_or(false);
    let res = std::fs::read_to_string(&outp).unwrap_or_default();
    let _ = std::fs::remove_dir_all(&dir);
    if !ok { out.extra.insert("tokio".into(), "hvt __c02 failed".into()); return; }
    for (f, r) in inputs.iter().zip(res.lines()) {
        let mut g = f.clone();
        g[0] = "req_parse_tokio".into();
        out.count(&format!("tokio:{}", if r.starts_with("OK") { "parsed" } else if r.starts_with("PANIC") { "panic" } else { "error" }));
        let fr: Vec<&str> = g.iter().map(|s| s.as_str()).collect();
        out.case(&fr, r, true);
    }
}

/// Sizes and counts "well above small": one dimension at a time is swept around powers of two and the usual limits,
/// everything else drawn as in the main loop. Every request goes through both parsers.
fn sweeps(out: &mut Out, thorough: bool, seed: u64, tokio_inputs: &mut Vec<Vec<String>>) {
    let mut rng = Rng::new(seed ^ 0xC02_5EE9);
    let peers = [("127.0.0.1", 5000u16), ("192.168.1.7", 41234), ("::1", 80)];
    let mut one = |out: &mut Out, rng: &mut Rng, dims: &Dims, tag: &str, cut_specs: &dyn Fn(&mut Rng, &Rendered) -> Vec<String>| {
        let g = gen_request_dims(rng, false, dims);
        let (peer, port) = *rng.pick(&peers);
        let r = render(rng, &g, peer, port);
        out.count(tag);
        for cuts in cut_specs(rng, &r) {
            emit_enc(out, &r.bytes, &r.enc, &cuts, peer, port, &r.expect, true);
            tokio_inputs.push(vec!["req_parse".into(), r.enc.clone(), cuts, format!("{}|{}", peer, port), ip_oracle(&r.bytes), r.expect.clone()]);
        }
    };
    // (1) Content-Length bodies around 64 KiB, 128 KiB, 256 KiB, 512 KiB, 1 MiB and a few very large ones. The body is a
    // fixed pseudo-random pattern (`Z<len>.<seed>` in the case line). Reads: whole; MSS-/page-/buffer-sized; a cut exactly
    // at, just before and just after the end of the head; the head with a part of the body, then the rest.
    let sizes: Vec<usize> = if thorough {
        vec![65_535, 65_536, 65_537, 100_000, 131_071, 131_072, 131_073, 200_000, 262_143, 262_144, 262_145, 262_161, 300_017, 393_216,
             524_287, 524_288, 524_289, 786_433, 1_000_000, 1_048_575, 1_048_576, 1_048_577, 1_500_000, 2_097_151, 2_097_152, 2_097_153,
             3_000_001, 4_194_304, 4_194_321]
    } else {
        vec![65_536, 65_537, 131_073, 262_144, 262_145, 300_017, 524_289, 1_048_576, 1_048_577]
    };
    for (i, n) in sizes.iter().enumerate() {
        let dims = Dims { body_len: Some(*n), short_values: true, nh: Some(rng.range(0, 12) as usize), ..Dims::default() };
        let n = *n;
        one(out, &mut rng, &dims, &format!("sweep:body={}", if n < 200_000 { "64-128K" } else if n < 400_000 { "256K" } else if n < 1_000_000 { "512K" } else if n < 2_000_000 { "1M" } else { ">=2M" }),
            &|rng, r| {
                let h = r.head_len;
                let all = vec![
                    "w".to_string(),
                    format!("k{}", rng.pick(&[1460usize, 4096, 8192, 16384])),
                    format!("c{}", h),
                    format!("k{}", rng.pick(&[65_536usize, 131_072, 262_144, 262_145, 1_048_576])),
                    format!("c{}.{}", h - 1, h + 1),
                    format!("c{}.{}", h + rng.range(1, 4000) as usize, h + n / 2),
                    random_cuts(rng, r.bytes.len()),
                ];
                // quick: two of the seven per size, rotating so that every kind of read plan meets several sizes
                let (a, b) = (i % 7, (i * 3 + 1) % 7);
                if thorough { all } else { vec![all[a].clone(), all[if b == a { (b + 1) % 7 } else { b }].clone()] }
            });
    }
    // (2) the NUMBER of field lines: up to ~1000 (thorough 2048), names from a small pool (many same-named, interleaved), all
    // the same name, or all distinct
    let counts: Vec<usize> = if thorough {
        vec![61, 63, 64, 65, 99, 100, 101, 127, 128, 129, 200, 255, 256, 257, 300, 500, 511, 512, 513, 999, 1000, 1001, 1023, 1024, 1025, 2048]
    } else {
        vec![64, 65, 100, 128, 129, 255, 256, 257, 500, 1000]
    };
    for (i, n) in counts.iter().enumerate() {
        let modes: Vec<Names> = if thorough && *n <= 1025 { vec![Names::Pool, Names::Same, Names::Distinct] } else { vec![[Names::Pool, Names::Same, Names::Distinct][i % 3]] };
        for names in modes {
            let dims = Dims { nh: Some(*n), names, short_values: true, ..Dims::default() };
            one(out, &mut rng, &dims, &format!("sweep:fields={}", if *n <= 129 { "61-129" } else if *n <= 513 { "200-513" } else { "999+" }),
                &|rng, r| if thorough || *n < 500 { vec!["w".to_string(), format!("k{}", rng.range(2, 9000)), random_cuts(rng, r.bytes.len())] }
                          else { vec![format!("k{}", rng.range(2, 9000))] });
        }
    }
    // (3) the number of cookies in the Cookie field
    let cookie_counts: Vec<usize> = if thorough {
        vec![1, 2, 3, 4, 5, 8, 15, 16, 17, 31, 32, 33, 49, 50, 51, 63, 64, 65, 100, 127, 128, 129, 255, 256, 257, 300, 1000, 1024, 4096]
    } else {
        vec![5, 16, 17, 32, 33, 64, 100, 128, 256, 257, 1000]
    };
    for n in &cookie_counts {
        let dims = Dims { ncookies: Some(*n), short_values: true, ..Dims::default() };
        one(out, &mut rng, &dims, &format!("sweep:cookies={}", if *n <= 33 { "1-33" } else if *n <= 129 { "49-129" } else { "255+" }),
            &|rng, r| vec!["w".to_string(), random_cuts(rng, r.bytes.len())]);
    }
    // (4) the length of the X-Forwarded-For chain (distinct addresses, so origin, order and number of proxies are visible),
    // with and without unparsable entries in between
    let chain: Vec<usize> = if thorough {
        vec![1, 2, 3, 4, 5, 6, 7, 8, 9, 15, 16, 17, 18, 31, 32, 33, 34, 63, 64, 65, 66, 100, 127, 128, 129, 255, 256, 257, 500, 1000, 1024, 4096]
    } else {
        vec![1, 2, 3, 4, 5, 15, 16, 17, 18, 31, 32, 33, 34, 64, 65, 100, 128, 256, 257, 1000]
    };
    for n in &chain {
        for inv in [0usize, 5] {
            if inv > 0 && !thorough && *n > 5 && *n % 2 == 1 { continue; }
            let dims = Dims { nxff: Some(*n), xff_invalid_every: inv, short_values: true, ..Dims::default() };
            one(out, &mut rng, &dims, &format!("sweep:forwarded={}", if *n <= 9 { "1-9" } else if *n <= 34 { "15-34" } else if *n <= 129 { "63-129" } else { "255+" }),
                &|rng, r| vec!["w".to_string(), random_cuts(rng, r.bytes.len())]);
        }
    }
}

pub fn gen(out: &mut Out, thorough: bool, seed: u64) {
    let mut rng = Rng::new(seed ^ 0xC02);
    let mut tokio_inputs: Vec<Vec<String>> = Vec::new();
    let n = if thorough { 100_000 } else { 4_000 };
    let peers = [("127.0.0.1", 5000u16), ("192.168.1.7", 41234), ("::1", 80)];
    for i in 0..n {
        let g = gen_request(&mut rng, true);
        let (peer, port) = *rng.pick(&peers);
        let r = render(&mut rng, &g, peer, port);
        let nh = g.headers.len();
        out.count(&format!("headers={}", match nh { 0 => "0", 1..=7 => "1-7", 8..=20 => "8-20", _ => "21+" }));
        if g.xff.is_some() { out.count("with-xff"); }
        if g.cookies.is_some() { out.count("with-cookie"); }
        if g.body.is_some() { out.count("with-body"); }
        let nontrivial = nh >= 2;
        emit(out, &r.bytes, "w", peer, port, &r.expect, nontrivial);
        if i % 2 == 0 && r.bytes.len() <= 4096 {
            for cuts in ["w".to_string(), "1".to_string(), random_cuts(&mut rng, r.bytes.len())] {
                tokio_inputs.push(vec!["req_parse".into(), hex(&r.bytes), cuts, format!("{}|{}", peer, port), ip_oracle(&r.bytes), r.expect.clone()]);
            }
        }
        if r.bytes.len() <= 2048 {
            emit(out, &r.bytes, "1", peer, port, &r.expect, nontrivial);
        }
        let rc = random_cuts(&mut rng, r.bytes.len());
        emit(out, &r.bytes, &rc, peer, port, &r.expect, nontrivial);
        emit(out, &r.bytes, &format!("k{}", rng.range(2, 700)), peer, port, &r.expect, nontrivial);
        // every single split point for a share of the short requests
        if r.bytes.len() <= 300 && (thorough || i % 25 == 0) {
            for cut in 1..r.bytes.len() {
                emit(out, &r.bytes, &format!("c{}", cut), peer, port, &r.expect, nontrivial);
            }
        }
    }
    // (the tokio twins of the sweeps go to the FRONT of the tokio block: the slow lines of a case file must not be its last
    // ones, see the note in c01.rs::gen)
    let mut sweep_tokio: Vec<Vec<String>> = Vec::new();
    sweeps(out, thorough, seed, &mut sweep_tokio);
    tokio_inputs.splice(0..0, sweep_tokio);
    // hand-written corner cases of the grammar (no expectation: judged by model agreement only)
    let corner: &[&[u8]] = &[
        b"GET / HTTP/1.1\r\n\r\n",
        b"GET /?a?b HTTP/1.0\r\nHost:x\r\n\r\n",
        b"POST /p HTTP/1.1\r\nContent-Length: 3\r\ncontent-length: 5\r\n\r\nabcde",
        b"GET / HTTP/1.1\r\nX-Forwarded-For: 1.2.3.4\r\nX-Forwarded-For: 5.6.7.8\r\n\r\n",
        b"GET / HTTP/1.1\r\nX-Forwarded-For: junk, more junk\r\n\r\n",
        b"GET / HTTP/1.1\r\nCookie: a=b\r\nCookie: c=d\r\n\r\n",
        b"GET / HTTP/1.1\r\nCookie: novalue; a=b; =c\r\n\r\n",
        b"GET / HTTP/1.1\r\nA:\r\nB: \r\n\r\n",
        b"GET / HTTP/1.1\r\nA:\xc2\xa0x\r\n\r\n",
        b"PUT /x HTTP/1.1\r\nContent-Length: +2\r\n\r\nab",
        b"GET  / HTTP/1.1\r\n\r\n",
        b"GET / HTTP/1.1 \r\n\r\n",
        b"GET / HTTP/1.1\n\n",
        b"GET /\r\n\r\n",
        b"get / HTTP/1.1\r\n\r\n",
        b"GET / HTTP/1.1\r\nNoColon\r\n\r\n",
        b"GET / HTTP/1.1\r\nA: b",
        b"POST / HTTP/1.1\r\nContent-Length: 10\r\n\r\nshort",
        b"POST / HTTP/1.1\r\nContent-Length: x\r\n\r\n",
        b"",
        b"G",
        b"GET / HTTP/1.1\r\nX: caf\xe9\r\n\r\n",
        b"GET / HTTP/1.1\r\nX\xff: v\r\n\r\n",
        b"GET /\xe9 HTTP/1.1\r\n\r\n",
        b"GET / HTTP/1.1\r\nX: \xe2\x82\r\n\r\n",
        b"POST / HTTP/1.1\r\nContent-Length: 2\r\n\r\n\xff\xfe",
    ];
    for c in corner {
        for cuts in ["w", "1", "k3"] {
            emit(out, c, cuts, "127.0.0.1", 5000, "-", true);
            tokio_inputs.push(vec!["req_parse".into(), hex(c), cuts.into(), "127.0.0.1|5000".into(), ip_oracle(c), "-".into()]);
        }
    }
    tokio_cases(out, &tokio_inputs);
}
